#!/usr/bin/env python3-vt
"""validate MANIFEST.json and every evidence file against the schemas (uses the tooling venv's jsonschema)"""
import json, glob, sys, jsonschema
ok = True
def v(path, schema):
    global ok
    try:
        jsonschema.validate(json.load(open(path)), json.load(open(schema)))
        print("ok   ", path)
    except Exception as e:
        ok = False
        print("FAIL ", path, str(e)[:300])
v('/verif/MANIFEST.json', '/root/.vp/MANIFEST.schema.json')
for f in sorted(glob.glob('/verif/evidence/*.json')):
    v(f, '/root/.vp/EVIDENCE.schema.json')
sys.exit(0 if ok else 1)
