"""Decision tables over the control-flow graph.

A function whose behaviour is governed by a few finite-domain inputs (a colour, a handful of flags, a square compared
with constants ...) is explored as a decision tree: the walker follows the CFG from the entry, evaluates every switch
discriminant symbolically (PathEval: temporaries, tuples, short-circuit booleans and inlined helpers are resolved),
and when the discriminant depends on an input variable that has no value yet it splits on that variable's domain.
A discriminant that depends on something that is not a declared variable is *opaque*: both edges are followed and the
leaf remembers it. The result is a list of leaves (partial assignment, calls made on the way, returned tree, opaque
conditions). A rule then states the specification as a function of the variables and compares:

  every leaf compatible with an assignment contradicts the specification  -> definite violation
  some do and some do not (they differ in an opaque condition)            -> undecided
  none does                                                                -> holds

The outcome does not depend on how the conditions are written (nesting, order, negation, temporaries, helper
functions, early returns): only on which inputs lead to which effects."""
from .cfg import Cfg
from .expr import PathEval, fold, Unfoldable


class NeedVar(Exception):
    def __init__(self, name):
        Exception.__init__(self, name)
        self.name = name


class Opaque(Exception):
    pass


class TooBig(Exception):
    pass


class Leaf:
    __slots__ = ("env", "calls", "ret", "opaque", "path", "pe")

    def __init__(self, env, pe, path, opaque):
        self.env, self.pe, self.path, self.opaque = env, pe, path, opaque
        self.calls = pe.calls
        self.ret = pe.ret()

    def called(self, suffix):
        return [t for b, t in self.calls if t[0] == "call" and t[1].endswith(suffix)]


def _clone(pe):
    q = PathEval.__new__(PathEval)
    q.f, q.keep_mem, q.inliner = pe.f, pe.keep_mem, pe.inliner
    q.env, q.mem = dict(pe.env), dict(pe.mem)
    q.conds, q.calls, q.writes = list(pe.conds), list(pe.calls), list(pe.writes)
    q._facts = {k: [v[0], set(v[1])] for k, v in getattr(pe, "_facts", {}).items()}
    q.path = list(pe.path)
    if hasattr(pe, "mutrefs"):
        q.mutrefs = dict(pe.mutrefs)
    return q


PURE_CALLS = {
    "core::cmp::max": max, "core::cmp::min": min,
    "core::cmp::Ord::max": max, "core::cmp::Ord::min": min,
    "<i32 as core::cmp::Ord>::max": max, "<i32 as core::cmp::Ord>::min": min,
}


def _reduce(t, var_of, env, need):
    """tree with variables and pure calls replaced by constants; unassigned variables are collected in `need`"""
    if not isinstance(t, tuple) or not t:
        return t
    n = var_of(t)
    if n is not None:
        neg = False
        if isinstance(n, tuple):        # (name, True): the tree is the negation of the boolean variable
            n, neg = n
        if n in env:
            return ("c", (1 - env[n]) if neg else env[n], None, None)
        need.append(n)
        return ("c", 0, None, None)
    k = t[0]
    if k == "bin":
        return ("bin", t[1], _reduce(t[2], var_of, env, need), _reduce(t[3], var_of, env, need), t[4])
    if k in ("un", "cast"):
        return (k, t[1], _reduce(t[2], var_of, env, need), t[3])
    if k == "call" and t[1] in PURE_CALLS and len(t[2]) == 2:
        a, b = (_reduce(x, var_of, env, need) for x in t[2])
        try:
            return ("c", PURE_CALLS[t[1]](fold(a), fold(b)), None, None)
        except Unfoldable:
            raise Opaque()
    return t


def evaluate(tree, var_of, env):
    """integer value of `tree` under the assignment; NeedVar if an unassigned variable occurs, Opaque otherwise"""
    need = []
    r = _reduce(tree, var_of, env, need)
    try:
        v = fold(r)
    except Unfoldable:
        raise Opaque()
    if need:
        raise NeedVar(need[0])
    return v


def explore(f, var_of, domains, inliner=None, keep_mem=None, max_leaves=20000, entry=0, stop_at=None, relevant=None):
    """leaves of the decision tree of `f`. var_of(tree) -> variable name or None; domains: name -> list of ints.
    stop_at(block) -> True ends a path at that block (used for loop bodies)"""
    cfg = Cfg(f)
    leaves = []
    can_return = None
    if relevant is not None:
        # blocks from which a return is reachable (normal edges)
        can_return = {b for b in cfg.reach if f["blocks"][b]["term"]["k"] == "return"}
        changed = True
        while changed:
            changed = False
            for b in cfg.reach:
                if b not in can_return and not f["blocks"][b]["cleanup"] and any(s in can_return for s in cfg.succ[b] if not f["blocks"][s]["cleanup"]):
                    can_return.add(b)
                    changed = True
    root = PathEval(f, [], inliner=inliner, keep_mem=keep_mem)
    work = [(root, entry, {}, [], (), False)]   # pe, block, env, path, opaque, block already executed
    while work:
        pe, b, env, path, opaque, executed = work.pop()
        while True:
            if len(path) > 4 * len(f["blocks"]) + 64:
                raise TooBig("path length (loop?)")
            if not executed:
                if b in path and stop_at is None:
                    raise TooBig("loop at bb%d" % b)
                path = path + [b]
                pe.path = path
                pe._block(b, None)
            executed = False
            t = f["blocks"][b]["term"]
            k = t["k"]
            if stop_at is not None and stop_at(b) and len(path) > 1:
                leaves.append(Leaf(env, pe, path, opaque))
                break
            if k == "return":
                leaves.append(Leaf(env, pe, path, opaque))
                break
            if k in ("goto", "drop", "call", "assert"):
                nxt = t.get("target")
                if nxt is None:
                    break       # diverging call / unreachable: no leaf
                b = nxt
                continue
            if k == "switch":
                d = pe.operand(t["discr"])
                if relevant is not None and b not in relevant:
                    # this decision influences neither whether the observed blocks are reached nor the values they
                    # use (it is outside their backward slice): follow it if it is decided, else take any edge that
                    # can still return
                    nxt = None
                    try:
                        v = evaluate(d, var_of, env)
                        nxt = t["otherwise"]
                        for val, tb in t["targets"]:
                            if val == v:
                                nxt = tb
                    except (NeedVar, Opaque):
                        for tb in [tb for _, tb in t["targets"]] + [t["otherwise"]]:
                            if tb in can_return:
                                nxt = tb
                                break
                    if nxt is None:
                        break
                    b = nxt
                    continue
                try:
                    v = evaluate(d, var_of, env)
                except NeedVar as e:
                    dom = domains.get(e.name)
                    if not dom:
                        raise TooBig("variable %s without domain" % e.name)
                    for val in dom[1:]:
                        env2 = dict(env); env2[e.name] = val
                        work.append((_clone(pe), b, env2, path, opaque, True))
                    env = dict(env); env[e.name] = dom[0]
                    executed = True
                    if len(work) + len(leaves) > max_leaves:
                        raise TooBig("more than %d leaves" % max_leaves)
                    continue
                except Opaque:
                    succs = []
                    for val, tb in t["targets"]:
                        succs.append((("in", (val,)), tb))
                    succs.append((("notin", tuple(v for v, _ in t["targets"])), t["otherwise"]))
                    for cc, tb in succs[1:]:
                        q = _clone(pe)
                        q.conds.append((d, cc, b, t.get("discr_ty")))
                        work.append((q, tb, env, path, opaque + ((d, cc),), False))
                    cc, tb = succs[0]
                    pe.conds.append((d, cc, b, t.get("discr_ty")))
                    opaque = opaque + ((d, cc),)
                    b = tb
                    if len(work) + len(leaves) > max_leaves:
                        raise TooBig("more than %d leaves" % max_leaves)
                    continue
                nxt = t["otherwise"]
                for val, tb in t["targets"]:
                    if val == v:
                        nxt = tb
                b = nxt
                continue
            break       # resume / unreachable
    return leaves


def completions(env, names, domains, constraint=None):
    """all total assignments of `names` extending env (other variables of env are kept)"""
    free = [n for n in names if n not in env]
    out = [dict(env)]
    for n in free:
        out = [dict(e, **{n: v}) for e in out for v in domains[n]]
    if constraint:
        out = [e for e in out if constraint(e)]
    return out


def _compatible(e1, e2):
    for k, v in e1.items():
        if k in e2 and e2[k] != v:
            return False
    return True


def judge(leaves, names, domains, outcome, spec, constraint=None):
    """compare every leaf with the specification.
    outcome(leaf) -> hashable; spec(total env over `names`) -> expected outcome.
    returns (violations, undecided, n_cases); a case is (env over names, got, want, leaf).
    A leaf that disagrees with the specification for an assignment is a violation, unless it went through an opaque
    condition (or has a sibling that did) and a leaf compatible with the same inputs agrees: then the opaque condition
    may be what tells them apart, and the case is undecided."""
    viol, und, n = [], [], 0
    got_of = [(lf, outcome(lf)) for lf in leaves]
    seen_v, seen_u = set(), set()
    for lf, got in got_of:
        for e in completions(lf.env, names, domains, constraint):
            n += 1
            want = spec(e)
            if got == want:
                continue
            key = tuple(e[x] for x in names)
            excused = False
            for l2, g2 in got_of:
                if l2 is lf or not (lf.opaque or l2.opaque):
                    continue
                if g2 == want and _compatible(e, l2.env):
                    excused = True
                    break
            small = {x: e[x] for x in names}
            if excused:
                if key not in seen_u:
                    seen_u.add(key)
                    und.append((small, got, want, lf))
            elif key not in seen_v:
                seen_v.add(key)
                viol.append((small, got, want, lf))
    return viol, und, n
