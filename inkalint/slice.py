"""A8: intraprocedural backward slice (data + control dependence) on the JSON MIR.

Over-approximates: used only for must-depend rules, where a *missing* dependence is the defect."""
from .cfg import Cfg


def _operand_locals(o):
    out = set()
    if o.get("k") in ("copy", "move"):
        out.add(o["pl"]["l"])
        for e in o["pl"]["p"]:
            if isinstance(e, dict) and "idx" in e:
                out.add(e["idx"])
    return out


def _place_locals(p):
    out = {p["l"]}
    for e in p["p"]:
        if isinstance(e, dict) and "idx" in e:
            out.add(e["idx"])
    return out


def _rv_locals(rv):
    out = set()
    for a in rv.get("a", []):
        out |= _operand_locals(a)
    if "place" in rv:
        out |= _place_locals(rv["place"])
    return out


class Slicer:
    def __init__(self, f):
        self.f = f
        self.cfg = Cfg(f)
        # definitions: local -> [(block, used locals, call terminator or None)]
        self.defs = {}
        for b in sorted(self.cfg.reach):
            blk = f["blocks"][b]
            for s in blk["stmts"]:
                d = s["dst"]
                if d is None:
                    continue
                used = _rv_locals(s["rv"])
                if d["p"]:
                    used |= _place_locals(d) - {d["l"]}
                    # writing through a reference held in d.l: the reference itself is a dependency too
                    if "deref" in [e for e in d["p"] if isinstance(e, str)]:
                        used.add(d["l"])
                self.defs.setdefault(d["l"], []).append((b, used, None))
            t = blk["term"]
            if t["k"] == "call":
                used = set()
                for a in t["args"]:
                    used |= _operand_locals(a)
                if t["callee"].get("key") is None:
                    used |= _operand_locals(t["callee"]["indirect"])
                self.defs.setdefault(t["dest"]["l"], []).append((b, used, t))
        # locals whose address was taken mutably: every call receiving that reference may define them
        self.alias = {}
        for b in sorted(self.cfg.reach):
            for s in f["blocks"][b]["stmts"]:
                rv = s["rv"]
                if rv["op"] in ("ref", "addr") and rv.get("mut") and s["dst"] is not None and not s["dst"]["p"]:
                    self.alias.setdefault(s["dst"]["l"], set()).add(rv["place"]["l"])
        for b in sorted(self.cfg.reach):
            t = f["blocks"][b]["term"]
            if t["k"] == "call":
                used = set()
                for a in t["args"]:
                    used |= _operand_locals(a)
                for a in t["args"]:
                    for l in _operand_locals(a):
                        for tgt in self.alias.get(l, ()):
                            self.defs.setdefault(tgt, []).append((b, used, t))

    def backward(self, seed_locals, seed_blocks=()):
        """returns (locals in slice, call terminators in slice as [(block, term)])"""
        seen_l, seen_b = set(), set()
        calls = {}
        work_l, work_b = list(seed_locals), list(seed_blocks)
        while work_l or work_b:
            while work_b:
                b = work_b.pop()
                if b in seen_b:
                    continue
                seen_b.add(b)
                for (a, s) in self.cfg.control_deps().get(b, ()):
                    t = self.f["blocks"][a]["term"]
                    if t["k"] == "switch":
                        work_l.extend(_operand_locals(t["discr"]))
                    work_b.append(a)
            if work_l:
                l = work_l.pop()
                if l in seen_l:
                    continue
                seen_l.add(l)
                for (b, used, term) in self.defs.get(l, []):
                    work_l.extend(used)
                    work_b.append(b)
                    if term is not None:
                        calls[b] = term
        self.last_blocks = seen_b
        return seen_l, sorted(calls.items())

    def backward_from_blocks(self, blocks):
        """slice of everything the given blocks compute and depend on: the locals their statements and terminators
        read are data seeds, the blocks themselves control seeds. Sets self.last_blocks."""
        seeds = set()
        for b in blocks:
            blk = self.f["blocks"][b]
            for s in blk["stmts"]:
                seeds |= _rv_locals(s["rv"])
                if s["dst"] is not None and s["dst"]["p"]:
                    seeds |= _place_locals(s["dst"]) - {s["dst"]["l"]}
            t = blk["term"]
            if t["k"] == "call":
                for a in t["args"]:
                    seeds |= _operand_locals(a)
            elif t["k"] == "switch":
                seeds |= _operand_locals(t["discr"])
        nargs = self.f["args"] if isinstance(self.f["args"], int) else len(self.f["args"])
        return self.backward([l for l in seeds if l > nargs or l == 0], list(blocks))

    def data_backward(self, seed_locals):
        """data dependence only (no control dependence): which locals / parameters can flow into the seeds"""
        seen, work = set(), list(seed_locals)
        calls = {}
        while work:
            l = work.pop()
            if l in seen:
                continue
            seen.add(l)
            for (b, used, term) in self.defs.get(l, []):
                work.extend(used)
                if term is not None:
                    calls[b] = term
        return seen, sorted(calls.items())
