"""Run the inkafacts driver over /repo into a fresh target directory and load the fact files.

Fail closed: a cargo error, a missing fact file, a stale nonce or a function count below the
hand-counted floor raises FactsUnavailable (the caller turns it into a VIOLATION)."""
import json, os, shutil, subprocess, sys, time, uuid

VERIF = os.path.dirname(os.path.dirname(os.path.abspath(__file__)))
REPO = os.environ.get("VERIF_REPO", "/repo")
DRIVER = os.path.join(VERIF, "driver", "target", "release", "inkafacts")

ENGINE_ROOT = "inkayaku_engine_app"
# floors: 80 % of the function counts measured on the pinned tree (core 94, uci 135, board 212,
# engine_core 126, engine_app 5, pgn 21, lichess_api 60 ...). Minima, so adding code never trips them.
FN_FLOORS = {
    "inkayaku_core": 75, "inkayaku_uci": 108, "inkayaku_board": 169,
    "inkayaku_engine_core": 100, "inkayaku_engine_app": 4,
}


class FactsUnavailable(Exception):
    pass


def _sysroot():
    return subprocess.check_output(["rustc", "+nightly", "--print", "sysroot"], text=True).strip()


def workspace_members():
    out = subprocess.check_output(
        ["cargo", "metadata", "--offline", "--format-version", "1", "--no-deps"], cwd=REPO, text=True, stderr=subprocess.DEVNULL,
        env=dict(os.environ, CARGO_NET_OFFLINE="true"))
    md = json.loads(out)
    return sorted(p["name"] for p in md["packages"])


def dep_closure(root):
    """workspace members in the dependency closure of `root` (from cargo metadata, not a frozen list)"""
    out = subprocess.check_output(
        ["cargo", "metadata", "--offline", "--format-version", "1"], cwd=REPO, text=True, stderr=subprocess.DEVNULL,
        env=dict(os.environ, CARGO_NET_OFFLINE="true"))
    md = json.loads(out)
    members = set(md["workspace_members"])
    by_id = {n["id"]: n for n in md["resolve"]["nodes"]}
    name = {p["id"]: p["name"] for p in md["packages"]}
    rid = [i for i in members if name[i] == root]
    if not rid:
        raise FactsUnavailable("workspace has no package %s" % root)
    seen, work = set(), [rid[0]]
    while work:
        i = work.pop()
        if i in seen:
            continue
        seen.add(i)
        for d in by_id[i]["dependencies"]:
            if d in members:
                work.append(d)
    return sorted(name[i] for i in seen)


class Workdir:
    def __init__(self):
        self.path = os.path.join(VERIF, ".work", "run.%d.%s" % (os.getpid(), uuid.uuid4().hex[:6]))
        os.makedirs(self.path, exist_ok=True)

    def cleanup(self):
        shutil.rmtree(self.path, ignore_errors=True)


def _no_dup(pairs):
    d = {}
    for k, v in pairs:
        if k in d:
            raise FactsUnavailable("duplicate key in fact file: %s" % k)
        d[k] = v
    return d


def extract(packages, work, profile="dev", bodies="*", tests=False):
    """cargo +nightly check -p <packages> with the driver as workspace wrapper; returns
    {crate_name: facts}.  `profile` is dev (overflow checks + debug assertions, the profile of the
    test suite) or nochecks (both off, as in --release)."""
    if not os.path.exists(DRIVER):
        raise FactsUnavailable("driver not built (run MANIFEST.setup_cmd): %s" % DRIVER)
    run_id = uuid.uuid4().hex
    tag = "%s%s" % (profile, ".t" if tests else "")
    facts_dir = os.path.join(work.path, "facts." + tag)
    target = os.path.join(work.path, "target." + tag)
    os.makedirs(facts_dir, exist_ok=True)
    env = dict(os.environ)
    sysroot = _sysroot()
    env["LD_LIBRARY_PATH"] = sysroot + "/lib" + (":" + env["LD_LIBRARY_PATH"] if env.get("LD_LIBRARY_PATH") else "")
    flags = "-Zmir-opt-level=0 -Awarnings"
    if profile == "nochecks":
        flags += " -C overflow-checks=off -C debug-assertions=off"
    env.update({
        "RUSTFLAGS": flags, "RUSTC_WORKSPACE_WRAPPER": DRIVER, "CARGO_TARGET_DIR": target,
        "VERIF_FACTS_DIR": facts_dir, "VERIF_RUN_ID": run_id, "VERIF_BODIES": bodies,
        "CARGO_NET_OFFLINE": "true", "CARGO_INCREMENTAL": "0",
    })
    env.pop("RUSTC_WRAPPER", None)
    cmd = ["cargo", "+nightly", "check", "--offline", "-j", "16"]
    for p in packages:
        cmd += ["-p", p]
    if tests:
        cmd += ["--tests"]
    t0 = time.time()
    r = subprocess.run(cmd, cwd=REPO, env=env, stdout=subprocess.PIPE, stderr=subprocess.STDOUT, text=True)
    if r.returncode != 0:
        raise FactsUnavailable("cargo check failed (the tree does not compile?):\n" + r.stdout[-3000:])
    facts = {}
    for fn in sorted(os.listdir(facts_dir)):
        if not fn.endswith(".json"):
            continue
        with open(os.path.join(facts_dir, fn)) as f:
            d = json.load(f, object_pairs_hook=_no_dup)
        if d.get("run_id") != run_id:
            raise FactsUnavailable("stale fact file %s" % fn)
        name = d["crate"] + (":bin" if d["kind"] == "bin" else "") + (":test" if d["test_harness"] else "")
        facts[name] = d
    for p in packages:
        if p not in facts and (p + ":bin") not in facts:
            raise FactsUnavailable("no fact file for crate %s (driver skipped?)" % p)
    for c, floor in FN_FLOORS.items():
        key = c if c in facts else c + ":bin"
        if key in facts and bodies == "*" and facts[key]["nfn"] < floor:
            raise FactsUnavailable("crate %s: %d functions extracted, floor %d" % (c, facts[key]["nfn"], floor))
    # the heavy target directory is not needed once the facts are loaded
    shutil.rmtree(target, ignore_errors=True)
    return facts, {"run_id": run_id, "extract_s": round(time.time() - t0, 2), "cmd": " ".join(cmd),
                   "rustflags": flags, "crates": {k: v["nfn"] for k, v in facts.items()}}
