"""A1: CFG utilities over the JSON MIR (cleanup blocks ignored unless asked)."""
from collections import deque


def term_succs(t, unwind=False):
    k = t["k"]
    out = []
    if k == "goto":
        out = [t["target"]]
    elif k == "switch":
        out = [b for _, b in t["targets"]] + [t["otherwise"]]
    elif k in ("call", "drop", "assert"):
        if t.get("target") is not None:
            out = [t["target"]]
        if unwind and t.get("unwind") is not None:
            out.append(t["unwind"])
    elif k == "yield":
        out = [t["target"]]
    elif k == "asm":
        out = list(t["targets"])
    return out


class Cfg:
    def __init__(self, f):
        self.f = f
        self.blocks = f["blocks"]
        n = len(self.blocks)
        self.succ = [[] for _ in range(n)]
        self.pred = [[] for _ in range(n)]
        for i, b in enumerate(self.blocks):
            if b["cleanup"]:
                continue
            seen = []
            for s in term_succs(b["term"]):
                if s not in seen:
                    seen.append(s)
            self.succ[i] = seen
        # reachable from entry
        self.reach = set()
        work = [0]
        while work:
            b = work.pop()
            if b in self.reach:
                continue
            self.reach.add(b)
            work.extend(self.succ[b])
        for i in self.reach:
            for s in self.succ[i]:
                self.pred[s].append(i)
        self.n = n
        self._dom = None
        self._pdom = None
        self._cd = None

    # ---- kinds of exits
    def returns(self):
        return [b for b in sorted(self.reach) if self.blocks[b]["term"]["k"] == "return"]

    def exits(self):
        """blocks without successors: returns and diverging blocks (panic calls, unreachable)"""
        return [b for b in sorted(self.reach) if not self.succ[b]]

    # ---- dominators (iterative, sets; functions are small)
    def _idom_sets(self, entry_list, succ, pred, nodes):
        dom = {b: set(nodes) for b in nodes}
        for e in entry_list:
            dom[e] = {e}
        changed = True
        order = list(nodes)
        while changed:
            changed = False
            for b in order:
                if b in entry_list:
                    continue
                ps = [p for p in pred(b) if p in dom]
                if ps:
                    new = set.intersection(*[dom[p] for p in ps]) | {b}
                else:
                    new = {b}
                if new != dom[b]:
                    dom[b] = new
                    changed = True
        return dom

    def dom(self):
        if self._dom is None:
            nodes = sorted(self.reach)
            self._dom = self._idom_sets([0], lambda b: self.succ[b], lambda b: self.pred[b], nodes)
        return self._dom

    def dominates(self, a, b):
        return a in self.dom()[b]

    def pdom(self):
        """post-dominator sets with a virtual exit -1 joined to every exit block"""
        if self._pdom is None:
            nodes = sorted(self.reach) + [-1]
            ex = set(self.exits())

            def rpred(b):  # predecessors in the reversed graph = successors in the CFG
                if b == -1:
                    return []
                return self.succ[b] + ([-1] if b in ex else [])
            self._pdom = self._idom_sets([-1], None, rpred, nodes)
        return self._pdom

    def postdominates(self, a, b):
        return a in self.pdom()[b]

    # ---- control dependence: block b is control dependent on edge (a -> s) iff b postdominates s
    # and b does not strictly postdominate a
    def control_deps(self):
        if self._cd is None:
            pd = self.pdom()
            cd = {b: set() for b in self.reach}
            for a in self.reach:
                if len(self.succ[a]) < 2:
                    continue
                for s in self.succ[a]:
                    for b in self.reach:
                        if b in pd[s] and not (b in pd[a] and b != a):
                            cd[b].add((a, s))
            self._cd = cd
        return self._cd

    def control_deps_transitive(self, b):
        cd = self.control_deps()
        out, work = set(), [b]
        seen = set()
        while work:
            x = work.pop()
            if x in seen:
                continue
            seen.add(x)
            for (a, s) in cd.get(x, ()):
                if (a, s) not in out:
                    out.add((a, s))
                    work.append(a)
        return out

    # ---- loops
    def back_edges(self):
        d = self.dom()
        return [(a, s) for a in self.reach for s in self.succ[a] if s in d[a]]

    def in_loop(self, b):
        """is block b inside some natural loop?"""
        for (a, h) in self.back_edges():
            # natural loop of back edge a->h: h plus nodes that reach a without passing h
            body = {h}
            work = [a]
            while work:
                x = work.pop()
                if x in body:
                    continue
                body.add(x)
                work.extend(self.pred[x])
            if b in body:
                return True
        return False

    def has_loops(self):
        return bool(self.back_edges())

    # ---- reachability / paths
    def reachable_from(self, b, avoid=()):
        seen, work = set(), [b]
        while work:
            x = work.pop()
            if x in seen or x in avoid:
                continue
            seen.add(x)
            work.extend(self.succ[x])
        return seen

    def shortest_path(self, a, b):
        prev = {a: None}
        q = deque([a])
        while q:
            x = q.popleft()
            if x == b:
                path = []
                while x is not None:
                    path.append(x)
                    x = prev[x]
                return path[::-1]
            for s in self.succ[x]:
                if s not in prev:
                    prev[s] = x
                    q.append(s)
        return None

    def acyclic_paths(self, start=0, limit=20000):
        """all paths from start to an exit that never repeat a block (loop-free functions: all
        paths). Raises OverflowError when more than `limit` paths exist."""
        out = []
        stack = [(start, [start])]
        while stack:
            b, path = stack.pop()
            ss = self.succ[b]
            if not ss:
                out.append(path)
                if len(out) > limit:
                    raise OverflowError("too many paths")
                continue
            for s in reversed(ss):
                if s in path:
                    continue
                stack.append((s, path + [s]))
        return out


def calls_in(f, include_cleanup=False):
    """[(block index, terminator)] for every call terminator"""
    return [(i, b["term"]) for i, b in enumerate(f["blocks"])
            if b["term"]["k"] == "call" and (include_cleanup or not b["cleanup"])]


def callee_key(t):
    c = t["callee"]
    return c.get("key")
