"""A7: panic-site inventory of the workspace functions reachable from a set of entry points."""
import json, os
from .cfg import Cfg
from .expr import Exprs, fold, Unfoldable, INT_BITS, is_signed, show
from .core import VERIF

ARITH_ASSERTS = ("overflow",)


def load_api():
    t = json.load(open(os.path.join(VERIF, "tables", "panic_api.json")))
    exact = {k: v for k, v in t.items() if not k.startswith("_") and not k.endswith("*")}
    prefix = {k[:-1]: v for k, v in t.items() if k.endswith("*")}
    return exact, prefix


def api_entry(key, exact, prefix):
    if key in exact:
        return exact[key]
    for p, v in prefix.items():
        if key.startswith(p):
            return v
    return None


def type_max(ty):
    b = INT_BITS.get(ty)
    if b is None or is_signed(ty):
        return None
    return (1 << b) - 1


def _walk(t, depth=0):
    if not isinstance(t, tuple) or depth > 30:
        return
    yield t
    for x in t:
        if isinstance(x, tuple):
            for y in _walk(x, depth + 1):
                yield y


def upper_bound(tree, f=None, depth=0):
    """A4-style sound upper bound of an unsigned integer tree, or None"""
    if depth > 30:
        return None
    k = tree[0]
    if k == "c":
        v = tree[1]
        if isinstance(v, bool):
            return int(v)
        if isinstance(v, int) and v >= 0:
            return v
        if isinstance(v, str) and tree[2] == "char" and len(v) == 1:
            return ord(v)
        return None
    if k == "param" and f is not None:
        pb = (f.get("param_bounds") or {}).get(tree[1])
        if pb is not None:
            return pb
        return type_max(f["locals"][tree[1]]["ty"])
    if k == "local" and f is not None:
        return type_max(f["locals"][tree[1]]["ty"])
    if k == "cast":
        ty, inner, from_ty = tree[1], tree[2], tree[3]
        tm = type_max(ty)
        ub = upper_bound(inner, f, depth + 1)
        if ub is None:
            ub = type_max(from_ty) if from_ty else None
        if from_ty == "bool":
            ub = 1 if ub is None else min(ub, 1)
        if from_ty == "char":
            ub = 0x10FFFF if ub is None else min(ub, 0x10FFFF)
        if ub is None:
            return tm
        if tm is None:
            return None
        return ub if ub <= tm else tm
    if k == "bin":
        op, a, b, ty = tree[1], tree[2], tree[3], tree[4]
        ua, ub_ = upper_bound(a, f, depth + 1), upper_bound(b, f, depth + 1)
        tm = type_max(ty) if ty else None
        base = op.replace("Unchecked", "").replace("WithOverflow", "")
        if base == "BitAnd":
            c = [x for x in (ua, ub_) if x is not None]
            return min(c) if c else tm
        if base == "Shr":
            if ub_ is not None and b[0] == "c":
                src = ua if ua is not None else tm
                return None if src is None else src >> b[1]
            return ua if ua is not None else tm
        if base == "Rem":
            if b[0] == "c" and isinstance(b[1], int) and b[1] > 0 and (ty is None or not is_signed(ty)):
                return b[1] - 1 if ua is None else min(ua, b[1] - 1)
            return ua
        if base == "Div":
            if b[0] == "c" and isinstance(b[1], int) and b[1] > 0 and ua is not None:
                return ua // b[1]
            return ua
        if base in ("BitOr", "BitXor"):
            if ua is None or ub_ is None:
                return tm
            m = max(ua, ub_)
            return (1 << m.bit_length()) - 1
        if base in ("Add", "Mul", "Shl"):
            if ua is None or ub_ is None:
                return tm
            v = ua + ub_ if base == "Add" else ua * ub_ if base == "Mul" else (ua << ub_ if ub_ < 256 else None)
            if v is None:
                return tm
            if tm is not None and v > tm:
                return tm  # wrapped or trapped: still within the type
            return v
        if base == "Sub":
            return ua if ua is not None else tm
        if base in ("Eq", "Ne", "Lt", "Le", "Gt", "Ge"):
            return 1
        return tm
    if k == "f" and tree[1][0] == "dc" and tree[1][2] in ("Some", "Ok", "Continue") and tree[2] in ("0", 0):
        return upper_bound(tree[1][1], f, depth + 1)       # the payload of an Option / Result: bounded like what made it
    if k == "call":
        short = tree[1].rsplit("::", 1)[-1]
        if tree[1].startswith("core::num::") and short in ("trailing_zeros", "leading_zeros", "count_ones", "count_zeros"):
            ty = tree[1].split("<")[1].split(">")[0] if "<" in tree[1] else None
            return INT_BITS.get(ty)
        if short in ("branch", "ok_or_else", "ok_or", "ok", "map_err", "into", "from") and tree[2] and (tree[1].startswith(("core::option::", "core::result::", "core::ops::try_trait::", "core::convert::")) or "Try>::branch" in tree[1]):
            return upper_bound(tree[2][0], f, depth + 1)    # wrappers that hand the payload on unchanged
        if short == "to_digit" and "char" in tree[1]:
            r_ = upper_bound(tree[2][1], f, depth + 1) if len(tree[2]) > 1 else None
            return (r_ - 1) if r_ is not None and 2 <= r_ <= 36 else 35
        if short == "position" and "Iterator" in tree[1] and tree[2]:
            # index of an element of a slice iterator: below the slice's length when that is a constant
            for x in _walk(tree[2][0]):
                if x and x[0] == "c" and len(x) > 1 and isinstance(x[1], tuple) and not (x[1] and x[1][0] == "json") and len(x[1]) > 0:
                    return len(x[1]) - 1
            return None
        if short == "min" and tree[1].startswith("core::cmp"):
            c = [upper_bound(a, f, depth + 1) for a in tree[2]]
            c = [x for x in c if x is not None]
            return min(c) if c else None
        return None
    return None


def _root_local(f, ex, operand):
    """the variable an index operand is a (cast) copy of: follows single-definition temporaries"""
    if operand.get("k") not in ("copy", "move") or operand["pl"]["p"]:
        return None
    l = operand["pl"]["l"]
    for _ in range(8):
        defs = ex.defs.get(l, [])
        if len(defs) == 1 and defs[0][0] == "stmt" and not ex.partial.get(l):
            rv = defs[0][3]
            if rv["op"] in ("use", "cast") and rv["a"][0].get("k") in ("copy", "move") and not rv["a"][0]["pl"]["p"]:
                if rv["op"] == "cast" and not rv.get("kind", "").startswith("IntToInt"):
                    return l
                l = rv["a"][0]["pl"]["l"]
                continue
        break
    return l


def _dominating_guard(f, cfg, ex, block, index_operand, length):
    """`i < len` established by a test that dominates the indexing, with no assignment to i in between
    (`while i <= K { a[i]; i += 1 }`, `if i < N { a[i] }`)"""
    root = _root_local(f, ex, index_operand)
    if root is None:
        return None
    def_blocks = {d[1] for d in ex.defs.get(root, [])}
    for a in sorted(cfg.reach):
        sw = f["blocks"][a]["term"]
        if sw["k"] != "switch" or a == block or not cfg.dominates(a, block) or len(sw["targets"]) != 1:
            continue
        # the discriminant: a comparison computed in this block from (a copy of) the variable and a constant
        disc = sw["discr"]
        if disc.get("k") not in ("copy", "move") or disc["pl"]["p"]:
            continue
        cmp_rv = None
        for st in f["blocks"][a]["stmts"]:
            if st["dst"] is not None and not st["dst"]["p"] and st["dst"]["l"] == disc["pl"]["l"] and st["rv"]["op"] == "bin":
                cmp_rv = st["rv"]
        if cmp_rv is None or cmp_rv["bop"] not in ("Lt", "Le", "Gt", "Ge"):
            continue
        x, y = cmp_rv["a"]
        op = cmp_rv["bop"]
        if y.get("k") == "const" and isinstance(y.get("v"), int) and _root_local(f, ex, x) == root:
            k = y["v"]
        elif x.get("k") == "const" and isinstance(x.get("v"), int) and _root_local(f, ex, y) == root:
            k = x["v"]
            op = {"Lt": "Gt", "Le": "Ge", "Gt": "Lt", "Ge": "Le"}[op]
        else:
            continue
        true_succ, false_succ = sw["otherwise"], sw["targets"][0][1]
        for succ, truth in ((true_succ, True), (false_succ, False)):
            if succ == block or cfg.dominates(succ, block):
                bound = None
                if op == "Lt":
                    bound = k - 1 if truth else None
                elif op == "Le":
                    bound = k if truth else None
                elif op == "Gt":
                    bound = None if truth else k
                elif op == "Ge":
                    bound = None if truth else k - 1
                if bound is None or bound >= length:
                    continue
                # no assignment to the variable on a path from the guarded edge to the indexing (not through the test)
                seen, work = set(), [succ]
                while work:
                    z = work.pop()
                    if z in seen or z == a:
                        continue
                    seen.add(z)
                    work.extend(cfg.succ[z])
                back, work = set(), [block]
                while work:
                    z = work.pop()
                    if z in back or z == a:
                        continue
                    back.add(z)
                    work.extend(cfg.pred[z])
                between = seen & back
                if not (def_blocks & between) and root not in ex.mutref:
                    return "index <= %d < len %d by the dominating test at bb%d" % (bound, length, a)
    return None


class Site:
    def __init__(self, fn, kind, detail, block, line, cls, exp, info=""):
        self.fn, self.kind, self.detail, self.block, self.line, self.cls, self.exp, self.info = fn, kind, detail, block, line, cls, exp, info
        self.ordinal = 0
        self.auto = None  # reason when discharged automatically

    @property
    def key(self):
        return "%s|%s|%s|#%d" % (self.fn, self.kind, self.detail, self.ordinal)


_PROG_FOR_PROMOTED = [None]


def _resolve_initials(ex, tree, depth=0):
    """a local that is only ever initialised once and then borrowed mutably (an iterator) by its initial value;
    promoted constants by their value"""
    from .expr import subst, resolve_promoted
    if depth > 4:
        return tree
    m = {}
    for x in _walk(tree):
        if x and x[0] == "local" and len(x) == 2 and isinstance(x[1], int):
            i = ex.initial(x[1])
            if i != x:
                m[x] = i
    out = subst(tree, m) if m else tree
    if _PROG_FOR_PROMOTED[0] is not None:
        out = resolve_promoted(_PROG_FOR_PROMOTED[0], out)
    return _resolve_initials(ex, out, depth + 1) if m else out


def sites_of(f, exact, prefix):
    """all panic sites of one function in block order"""
    cfg = Cfg(f)
    ex = Exprs(f)
    out = []
    for b in sorted(cfg.reach):
        t = f["blocks"][b]["term"]
        if t["k"] == "assert":
            m = t["msg"]
            if m["k"] in ("ptrcheck", "enumcheck", "coroutine"):
                continue
            kind = "assert"
            detail = m["k"] + (":" + m["op"] if "op" in m else "")
            cls = "arith" if m["k"] == "overflow" else "contract"
            s = Site(f["key"], kind, detail, b, t["line"], cls, t.get("exp", False))
            # automatic discharge: the asserted condition folds to the expected value, or a bound proves it
            cond = ex.operand(t["cond"])
            try:
                v = fold(cond)
                if bool(v) == bool(t["expected"]):
                    s.auto = "condition folds to %s" % bool(v)
            except Unfoldable:
                pass
            if s.auto is None and m["k"] == "bounds":
                idx = ex.operand(m["index"])
                ln = ex.operand(m["len"])
                ub = upper_bound(idx, f)
                try:
                    lv = fold(ln)
                except Unfoldable:
                    lv = None
                if ub is not None and lv is not None and ub < lv:
                    s.auto = "index <= %d < len %d by mask/shift bounds" % (ub, lv)
                if s.auto is None and lv is not None:
                    g = _dominating_guard(f, cfg, ex, b, m["index"], lv)
                    if g:
                        s.auto = g
                s.info = "index %s, len %s" % (show(idx), show(ln))
            if s.auto is None and m["k"] == "overflow":
                a = [_resolve_initials(ex, ex.operand(x)) for x in m["a"]]
                s.info = "%s(%s)" % (m["op"], ", ".join(show(x) for x in a))
                ty = None
                # operand type from the first operand
                from .expr import operand_ty
                ty = operand_ty(f, m["a"][0])
                tm = type_max(ty) if ty else None
                if m["op"] in ("Add", "Mul") and tm is not None and len(a) == 2:
                    ua, ub = upper_bound(a[0], f), upper_bound(a[1], f)
                    if ua is not None and ub is not None:
                        v = ua + ub if m["op"] == "Add" else ua * ub
                        # operands whose bound is just the type maximum prove nothing
                        if v <= tm:
                            s.auto = "operands bounded: %d %s %d <= %s::MAX" % (ua, m["op"], ub, ty)
                if s.auto is None and m["op"] == "Add" and ty in ("u32", "u64", "usize", "i32", "i64", "isize") and len(a) == 2:
                    # an accumulator of at least 31 bits that grows by a small bounded amount per step (a digit, a count
                    # of squares, a character width) needs millions of steps to overflow: inputs of that length are
                    # outside what the properties quantify over (stated as an assumption in the evidence)
                    small = [u for u in (upper_bound(a[0], f), upper_bound(a[1], f)) if u is not None and u <= 255]
                    if small:
                        s.auto = "accumulator of type %s grows by at most %d per step (overflow needs more than 2^23 steps)" % (ty, min(small))
                    elif ty == "usize" and any(x[0] == "call" and x[1].rsplit("::", 1)[-1] == "len" and ("str" in x[1] or "slice" in x[1] or "Vec" in x[1] or "String" in x[1]) for x in a):
                        # a byte offset advanced by the length of a piece of the input: pieces of one string are
                        # disjoint, their lengths sum to at most the string's length (< 2^63)
                        s.auto = "usize offset advanced by the length of a piece of the input (the pieces of one string sum to its length, below isize::MAX)"
                if m["op"] in ("Shl", "Shr") and len(a) == 2:
                    ub = upper_bound(a[1], f)
                    bits = INT_BITS.get(ty)
                    if ub is not None and bits and ub < bits:
                        s.auto = "shift amount <= %d < %d" % (ub, bits)
            out.append(s)
        elif t["k"] == "call":
            key = t["callee"].get("key")
            if key is None:
                continue
            e = api_entry(key, exact, prefix)
            if e is None and t["callee"].get("orig"):
                e = api_entry(t["callee"]["orig"], exact, prefix)
            if e is None:
                continue
            s = Site(f["key"], "call", key, b, t["line"], e["kind"], t.get("exp", False), e.get("why", ""))
            if "radix_arg" in e and len(t["args"]) > e["radix_arg"]:
                r = ex.operand(t["args"][e["radix_arg"]])
                try:
                    if fold(r) <= 36:
                        s.auto = "radix constant %d <= 36" % fold(r)
                except Unfoldable:
                    pass
            if "ordered_args" in e and len(t["args"]) > max(e["ordered_args"]):
                try:
                    lo_, hi_ = (fold(ex.operand(t["args"][i_])) for i_ in e["ordered_args"])
                    if lo_ <= hi_:
                        s.auto = "constant bounds %d <= %d" % (lo_, hi_)
                except Unfoldable:
                    pass
            if "nonzero_arg" in e and len(t["args"]) > e["nonzero_arg"]:
                r = ex.operand(t["args"][e["nonzero_arg"]])
                try:
                    if fold(r) != 0:
                        s.auto = "divisor constant %d != 0" % fold(r)
                except Unfoldable:
                    pass
            out.append(s)
    counts = {}
    for s in out:
        k = (s.kind, s.detail)
        s.ordinal = counts.get(k, 0)
        counts[k] = s.ordinal + 1
    return out


def inventory(prog, cg, entries, exact=None, prefix=None, ctx=False):
    if exact is None:
        exact, prefix = load_api()
    _PROG_FOR_PROMOTED[0] = prog
    if ctx:
        seeds = []
        for e in entries:
            inst = cg.seeds_from_instantiations(e)
            seeds += [(e, sg) for _, sg in inst] or [(e, {})]
        seen, parent = cg.reachable_ctx(seeds)
    else:
        seen, parent = cg.reachable(entries)
    # a closure handed to Option::map / map_or / and_then / filter / is_some_and gets the Option's payload as its
    # argument: what bounds the payload bounds the parameter
    for k in sorted(seen):
        f = prog.fns.get(k)
        if f is None or f.get("test"):
            continue
        ex_ = None
        for bb in f["blocks"]:
            t = bb["term"]
            if t["k"] != "call" or bb["cleanup"]:
                continue
            ck = t["callee"].get("key") or ""
            if not (ck.startswith("core::option::Option::") and ck.rsplit("::", 1)[-1] in ("map", "map_or", "map_or_else", "and_then", "filter", "is_some_and", "is_none_or")):
                continue
            ex_ = ex_ or Exprs(f)
            recv = _resolve_initials(ex_, ex_.operand(t["args"][0]))
            ub = upper_bound(("f", ("dc", recv, "Some"), "0"), f)
            if ub is None or ub >= (1 << 31):
                continue
            for a in t["args"][1:]:
                tr = ex_.operand(a)
                if tr[0] == "agg" and tr[1] == "closure" and tr[2] in prog.fns:
                    prog.fns[tr[2]].setdefault("param_bounds", {})[2] = ub
    sites = []
    for k in sorted(seen):
        f = prog.fns.get(k)
        if f is None or f.get("test"):
            continue
        sites.extend(sites_of(f, exact, prefix))
    ext = {}
    for k in seen:
        for e in cg.ext.get(k, []):
            if api_entry(e[0], exact, prefix) is None:
                ext[e[0]] = ext.get(e[0], 0) + 1
    indirect = {k: v for k, v in cg.indirect.items() if k in seen}
    return seen, parent, sites, ext, indirect
