"""A3: path enumeration of loop-free functions: path conditions, returned trees, truth tables."""
from itertools import product
from .cfg import Cfg
from .expr import PathEval, fold, Unfoldable


class NotLoopFree(Exception):
    pass


def returning_paths(f, inliner=None, limit=20000, keep_mem=None):
    cfg = Cfg(f)
    if cfg.has_loops():
        raise NotLoopFree(f["key"])
    out = []
    for p in cfg.acyclic_paths(limit=limit):
        if f["blocks"][p[-1]]["term"]["k"] != "return":
            continue
        pe = PathEval(f, p, inliner=inliner, keep_mem=keep_mem)
        if pe.infeasible:
            continue        # a constant or contradicted condition: no execution takes this path
        out.append(pe)
    return out


def cond_holds(cond, value):
    kind, vals = cond
    return (value in vals) if kind == "in" else (value not in vals)


def truth_table(f, inliner=None, transform=None):
    """for a loop-free function whose branches are on boolean atoms: returns (atoms, {assignment tuple: returned
    tree}, problems). An atom is a non-constant switch discriminant tree (after `transform`)."""
    pes = returning_paths(f, inliner)
    atoms = []
    for pe in pes:
        for (d, c, b, ty) in pe.conds:
            d2 = transform(d) if transform else d
            try:
                fold(d2)
            except Unfoldable:
                if d2 not in atoms:
                    atoms.append(d2)
    problems = []
    table = {}
    for assign in product((0, 1), repeat=len(atoms)):
        env = dict(zip(atoms, assign))
        results = []
        for pe in pes:
            ok = True
            for (d, c, b, ty) in pe.conds:
                d2 = transform(d) if transform else d
                try:
                    v = fold(d2, env)
                except Unfoldable:
                    ok = False
                    problems.append("cannot evaluate branch condition")
                    break
                if not cond_holds(c, v):
                    ok = False
                    break
            if ok:
                results.append(pe.ret())
        rs = set(results)
        if len(rs) != 1:
            problems.append("assignment %s selects %d distinct results" % (assign, len(rs)))
        else:
            table[assign] = results[0]
    return atoms, table, problems
