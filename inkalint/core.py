"""Check context: obligations, violations, anchors, evidence writing, known findings."""
import json, os, time

VERIF = os.path.dirname(os.path.dirname(os.path.abspath(__file__)))


class AnchorLost(Exception):
    pass


class Ctx:
    def __init__(self, pid, tier, prog, seed=0):
        self.pid = pid
        self.tier = tier
        self.prog = prog
        self.seed = seed
        self.obligations = []   # dicts: rule, key, ok, msg, where
        self.rules = {}         # rule -> {"text":..., "instances": n, "floor": n}
        self.notes = []
        self.assumptions = []
        self.samples = []
        self.extra = {}
        self.t0 = time.time()

    # ---- rule bookkeeping
    def rule(self, rid, text, floor=0):
        self.rules[rid] = {"text": text, "instances": 0, "violations": 0, "floor": floor}

    def ob(self, rid, key, ok, msg="", where=None, sample=None):
        """one obligation of rule `rid`; key identifies the instance without line numbers"""
        r = self.rules[rid]
        r["instances"] += 1
        o = {"rule": rid, "key": "%s|%s" % (rid, key), "ok": bool(ok), "msg": msg, "where": where or ""}
        self.obligations.append(o)
        if not ok:
            r["violations"] += 1
        if sample is not None and len([s for s in self.samples if s.get("rule") == rid]) < 4:
            self.samples.append({"rule": rid, "instance": key, "ok": bool(ok), "detail": sample})
        return bool(ok)

    def lost(self, rid, what, missing=False):
        """the rule cannot interpret what it finds.
        missing=True  - a function / type / constant the property is anchored in no longer exists under its name (and
                        was not recognised as renamed): UNDECIDED, marked `anchor-missing:` in the key. (Until round 5
                        this failed closed; renaming a private helper and changing its parameters is a refactoring a
                        maintainer makes, and an alarm on it is an alarm on correct code.)
        missing=False - the anchor exists but is written in an idiom the rule does not recognise (helper extracted,
                        loop replaced by an iterator chain, match replaced by an if-chain ...): UNDECIDED. It is
                        reported (stdout line, evidence) but it is not an alarm: a behaviour-preserving rewrite must
                        not fail the check, and the rule never guesses."""
        if rid not in self.rules:
            self.rule(rid, "(anchor)")
        if missing:
            # the function / item is gone and no renamed twin with the same signature was found (inline.alias_renamed):
            # the mechanism lives somewhere else now. Nothing is known about it - that is no evidence of a defect either.
            what = "anchor-missing:" + what
        r = self.rules[rid]
        r["instances"] += 1
        r["undecided"] = r.get("undecided", 0) + 1
        self.obligations.append({"rule": rid, "key": "%s|undecided:%s" % (rid, what), "ok": True, "undecided": True,
                                 "msg": "undecided: %s (idiom not recognised by this rule; no verdict, no alarm)" % what, "where": ""})

    def fn(self, rid, key, positional=True):
        """the anchor function `key`; positional=False for rules that do not read parameters by position"""
        f = self.prog.fn(key)
        if f is None:
            self.lost(rid, key, missing=True)
            raise AnchorLost(key)
        if f.get("signature_changed") and positional:
            # parameters were added, removed, reordered or retyped: rules written against parameter positions
            # would read the wrong values
            self.lost(rid, "%s (its signature changed: %s)" % (key, f["signature_changed"]), missing=True)
            raise AnchorLost(key)
        return f

    def where(self, f, line=None):
        return "%s:%d" % (f["file"], line if line else f["line"])

    def finish_floors(self):
        for rid, r in self.rules.items():
            if r.get("undecided"):
                continue        # the rule met an idiom it cannot read: its instance count says nothing
            if 0 < r["instances"] < r["floor"]:
                # fewer instances than on the reviewed tree, but not none: the code was restructured (two sites
                # merged into one, a table replaced an if-chain ...). The instances found were judged; what the
                # rule no longer finds is undecided, not a violation.
                r["undecided"] = r.get("undecided", 0) + 1
                self.obligations.append({"rule": rid, "key": "%s|undecided:floor" % rid, "ok": True, "undecided": True,
                                         "msg": "undecided: rule matched %d instances, %d on the reviewed tree" % (r["instances"], r["floor"]), "where": ""})
            elif r["instances"] < r["floor"] and any(o.get("undecided") for o in self.obligations):
                # nothing matched, and other rules of this check could not read the code either: the same rewrite
                r["undecided"] = r.get("undecided", 0) + 1
                self.obligations.append({"rule": rid, "key": "%s|undecided:floor" % rid, "ok": True, "undecided": True,
                                         "msg": "undecided: rule matched no instance (%d on the reviewed tree) and other rules of this check are undecided too" % r["floor"], "where": ""})
            elif r["instances"] < r["floor"]:
                self.obligations.append({"rule": rid, "key": "%s|floor" % rid, "ok": False,
                                         "msg": "rule matched %d instances, floor is %d (a rule that matches nothing passes vacuously)" % (r["instances"], r["floor"]),
                                         "where": ""})
                r["violations"] += 1


def load_known():
    p = os.path.join(VERIF, "known_findings.json")
    if not os.path.exists(p):
        return {"known": [], "fixed": []}
    return json.load(open(p))


def conclude(ctx, level, explanation, extract_meta, trusted_base=None, exhaustive=None, checker_cmd=None):
    """write evidence, print VIOLATION / KNOWN-FINDING lines, return exit code"""
    ctx.finish_floors()
    known = load_known()
    known_keys = {(k["property"], k["key"]): k for k in known.get("known", [])}
    viol = [o for o in ctx.obligations if not o["ok"]]
    new, listed = [], []
    for v in viol:
        if (ctx.pid, v["key"]) in known_keys:
            listed.append(v)
        else:
            new.append(v)
    ev_dir = os.environ.get("VERIF_EVIDENCE_DIR") or os.path.join(VERIF, "evidence")
    rp_dir = os.path.join(ev_dir, "replay")
    os.makedirs(rp_dir, exist_ok=True)
    # stale replay files of this property
    for fn in os.listdir(rp_dir):
        if fn.startswith(ctx.pid + "-"):
            os.remove(os.path.join(rp_dir, fn))
    undecided = [o for o in ctx.obligations if o.get("undecided")]
    n_ob = len(ctx.obligations)
    n_ok = len([o for o in ctx.obligations if o["ok"] and not o.get("undecided")])
    cov = {
        "explanation": explanation,
        "obligations": n_ob,
        "discharged": n_ok,
        "rules": {rid: {"text": r["text"], "instances": r["instances"], "violations": r["violations"], "floor": r["floor"]}
                  for rid, r in ctx.rules.items()},
        "rules_undecided": {rid: r.get("undecided") for rid, r in ctx.rules.items() if r.get("undecided")},
        "undecided": len(undecided),
        "undecided_keys": [o["key"] for o in undecided][:40],
        "samples": ctx.samples[:24] or [{"note": "no instance"}],
        "analysed": extract_meta,
        "notes": ctx.notes,
    }
    cov.update(ctx.extra)
    if trusted_base:
        cov["trusted_base"] = trusted_base
    if checker_cmd:
        cov["checker_cmd"] = checker_cmd
    if exhaustive is not None:
        cov["exhaustive"] = exhaustive
    if listed:
        cov["known_findings_reported"] = [v["key"] for v in listed]
    for o in undecided:
        print("UNDECIDED: property=%s %s" % (ctx.pid, o["key"]))
    if level == "proof" and n_ok != n_ob:
        # a proof-level claim needs every obligation discharged; report honestly as 'other'
        level = "other"
    ev = {
        "property_id": ctx.pid, "tier": ctx.tier, "seed": ctx.seed, "level": level,
        "coverage": cov, "assumptions": ctx.assumptions,
        "wall_s": round(time.time() - ctx.t0 + extract_meta.get("extract_s", 0), 2),
        "violations": len(new),
    }
    with open(os.path.join(ev_dir, ctx.pid + ".json"), "w") as f:
        json.dump(ev, f, indent=1, sort_keys=False)
        f.write("\n")
    for v in listed:
        print("KNOWN-FINDING: property=%s %s :: %s [%s]" % (ctx.pid, v["key"], known_keys[(ctx.pid, v["key"])].get("what", v["msg"]), v["where"]))
    # known entries that no longer fire are reported for information (they suppress nothing)
    for (p, k), e in known_keys.items():
        if p == ctx.pid and k not in {v["key"] for v in listed}:
            print("note: known finding no longer reported: %s" % k)
    for i, v in enumerate(new):
        rp = os.path.join(rp_dir, "%s-%d.json" % (ctx.pid, i + 1))
        with open(rp, "w") as f:
            json.dump({"property": ctx.pid, "rule": v["rule"], "key": v["key"], "msg": v["msg"], "where": v["where"],
                       "rule_text": ctx.rules.get(v["rule"], {}).get("text", "")}, f, indent=1)
        print("  %s: %s\n      at %s\n      rule %s: %s" % (v["key"], v["msg"], v["where"], v["rule"], ctx.rules.get(v["rule"], {}).get("text", "")))
        print("VIOLATION property=%s replay=%s" % (ctx.pid, rp))
    print("%s %s: %d obligations, %d discharged, %d undecided, %d new violations, %d known findings (%.1fs)" % (
        ctx.pid, ctx.tier, n_ob, n_ok, len(undecided), len(new), len(listed), ev["wall_s"]))
    return 1 if new else 0
