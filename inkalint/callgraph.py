"""A6: call graph over resolved callees; reachability; extern callee inventory."""
from .cfg import Cfg


class CallGraph:
    def __init__(self, prog):
        self.prog = prog
        self.edges = {}       # fn key -> set of local fn keys
        self.ext = {}         # fn key -> list of (extern callee key, display, block, line)
        self.indirect = {}    # fn key -> count of indirect calls
        self.trait_impls = {}  # trait method key -> [impl fn keys]
        for i in prog.impls:
            for name, m in i["methods"].items():
                if m.get("trait_item"):
                    self.trait_impls.setdefault(m["trait_item"], []).append(m["fn"])
        for k, f in prog.fns.items():
            self._scan(k, f)

    def _fan(self, tm):
        out = set(self.trait_impls.get(tm, []))
        if tm in self.prog.fns:
            out.add(tm)
        return out

    def _scan(self, k, f):
        es = self.edges.setdefault(k, set())
        ext = self.ext.setdefault(k, [])
        if f.get("parent") and f["kind"] == "promoted":
            pass
        for bi, b in enumerate(f["blocks"]):
            if b["cleanup"]:
                continue
            for s in b["stmts"]:
                rv = s["rv"]
                if rv["op"] == "agg" and rv["kind"] in ("closure", "coroutine", "coroutine_closure") and rv["closure"] in self.prog.fns:
                    es.add(rv["closure"])
                for a in rv.get("a", []):
                    self._operand(a, es, k)
            t = b["term"]
            if t["k"] in ("call", "tailcall"):
                c = t["callee"]
                for a in t["args"]:
                    self._operand(a, es, k)
                key = c.get("key")
                if key is None:
                    self.indirect[k] = self.indirect.get(k, 0) + 1
                    continue
                if c.get("resolved") and c.get("inst") != "virtual":
                    if key in self.prog.fns:
                        es.add(key)
                    else:
                        ext.append((key, c.get("display", ""), bi, t["line"], t.get("exp", False)))
                else:
                    tm = c.get("trait_method") or c.get("orig") or key
                    fan = self._fan(tm)
                    if fan:
                        es.update(fan)
                    elif key in self.prog.fns:
                        es.add(key)
                    else:
                        ext.append((key, c.get("display", ""), bi, t["line"], t.get("exp", False)))
            elif t["k"] == "switch":
                self._operand(t["discr"], es, k)

    def _operand(self, o, es, k):
        if o.get("k") == "const":
            if o.get("fn"):
                if o["fn"] in self.prog.fns:
                    es.add(o["fn"])
                else:
                    fan = self._fan(o["fn"])
                    es.update(fan)
            if o.get("promoted") is not None and o.get("path"):
                pk = "%s::promoted[%d]" % (o["path"], o["promoted"])
                if pk in self.prog.fns:
                    es.add(pk)

    def reachable(self, entries):
        seen, work = set(), list(entries)
        parent = {e: None for e in entries}
        while work:
            k = work.pop()
            if k in seen:
                continue
            seen.add(k)
            for c in sorted(self.edges.get(k, ())):
                if c not in seen:
                    parent.setdefault(c, k)
                    work.append(c)
        return seen, parent

    # ---- context-sensitive reachability: generic parameters bound at the instantiation site are
    # propagated down the call graph, so `H::evaluate` inside Search<T, H, M> reaches only the
    # heuristic the engine is actually built with (a form of rapid type analysis)
    @staticmethod
    def _head(ty):
        import re
        t = ty.strip()
        while t.startswith("&"):
            t = t[1:].strip()
            if t.startswith("mut "):
                t = t[4:].strip()
        t = t.split("<", 1)[0].strip()
        return t.rsplit("::", 1)[-1]

    @staticmethod
    def _subst(arg, sigma):
        import re
        if arg in sigma:
            return sigma[arg]
        return re.sub(r"\b([A-Z]\w*)\b", lambda m: sigma.get(m.group(1), m.group(1)), arg)

    def _impl_index(self):
        if not hasattr(self, "_impl_idx"):
            idx = {}
            for i in self.prog.impls:
                for name, m in i["methods"].items():
                    if m.get("trait_item"):
                        idx.setdefault(m["trait_item"], []).append((self._head(i["self_ty"]), m["fn"]))
            self._impl_idx = idx
        return self._impl_idx

    def seeds_from_instantiations(self, entry):
        """generic bindings with which `entry` is called anywhere in the program"""
        out = []
        f = self.prog.fns.get(entry)
        if not f:
            return out
        names = f.get("generics_all", [])
        for k, g in self.prog.fns.items():
            if g.get("test"):
                continue
            for b in g["blocks"]:
                t = b["term"]
                if t["k"] == "call" and t["callee"].get("key") == entry:
                    ga = t["callee"].get("generic_args", [])
                    sigma = {n: a for n, a in zip(names, ga) if not n.startswith("'") and a != n}
                    out.append((k, sigma))
        return out

    def reachable_ctx(self, seeds):
        """seeds: [(fn key, sigma dict)].  Returns (set of fn keys, parent map)."""
        idx = self._impl_index()
        seen_ctx = set()
        seen, parent = set(), {}
        work = []
        for k, sg in seeds:
            work.append((k, tuple(sorted(sg.items())), None))
        while work:
            k, sg_t, par = work.pop()
            if (k, sg_t) in seen_ctx:
                continue
            seen_ctx.add((k, sg_t))
            if k not in seen:
                seen.add(k)
                parent[k] = par
            f = self.prog.fns.get(k)
            if f is None:
                continue
            sigma = dict(sg_t)
            params = {n for n in f.get("generics_all", [])}
            for bi, b in enumerate(f["blocks"]):
                if b["cleanup"]:
                    continue
                for st in b["stmts"]:
                    rv = st["rv"]
                    if rv["op"] == "agg" and rv["kind"] in ("closure", "coroutine", "coroutine_closure") and rv["closure"] in self.prog.fns:
                        work.append((rv["closure"], sg_t, k))  # closures inherit the bindings
                    for a in rv.get("a", []):
                        self._ctx_operand(a, sg_t, k, work)
                t = b["term"]
                if t["k"] not in ("call", "tailcall"):
                    continue
                c = t["callee"]
                for a in t["args"]:
                    self._ctx_operand(a, sg_t, k, work)
                key = c.get("key")
                if key is None:
                    continue
                ga = [self._subst(x, sigma) for x in c.get("generic_args", [])]
                if c.get("resolved") and c.get("inst") != "virtual":
                    if key in self.prog.fns:
                        names = self.prog.fns[key].get("generics_all", [])
                        s2 = {n: a for n, a in zip(names, ga) if not n.startswith("'") and a != n and not a.startswith("'")}
                        work.append((key, tuple(sorted(s2.items())), k))
                    continue
                tm = c.get("trait_method") or c.get("orig") or key
                cands = idx.get(tm, [])
                self_ty = ga[0] if ga else None
                bound = self_ty is not None and self_ty not in params and not (len(self_ty) <= 2 and self_ty.isupper()) and self_ty != "Self"
                chosen = []
                if bound:
                    h = self._head(self_ty)
                    chosen = [fnk for (hd, fnk) in cands if hd == h]
                    if chosen:
                        for fnk in chosen:
                            work.append((fnk, (), k))
                    elif tm in self.prog.fns:
                        # trait default body with Self bound
                        names = self.prog.fns[tm].get("generics_all", [])
                        s2 = {n: a for n, a in zip(names, ga) if not n.startswith("'") and a != n}
                        work.append((tm, tuple(sorted(s2.items())), k))
                    elif cands:
                        bound = False
                if not bound:
                    for (hd, fnk) in cands:
                        work.append((fnk, (), k))
                    if tm in self.prog.fns:
                        work.append((tm, sg_t if False else (), k))
                    elif key in self.prog.fns and not cands:
                        work.append((key, (), k))
        return seen, parent

    def _ctx_operand(self, o, sg_t, k, work):
        if o.get("k") == "const":
            if o.get("fn"):
                if o["fn"] in self.prog.fns:
                    work.append((o["fn"], (), k))
                else:
                    for fnk in self._fan(o["fn"]):
                        work.append((fnk, (), k))
            if o.get("promoted") is not None and o.get("path"):
                pk = "%s::promoted[%d]" % (o["path"], o["promoted"])
                if pk in self.prog.fns:
                    work.append((pk, sg_t, k))

    def chain(self, parent, k):
        out = []
        while k is not None:
            out.append(k)
            k = parent.get(k)
        return out[::-1]

    def callers(self, target):
        return sorted(k for k, es in self.edges.items() if target in es)


def call_sites(prog, callee_pred):
    """[(caller key, block, terminator)] for calls whose resolved key/orig satisfies the predicate"""
    out = []
    for k, f in prog.fns.items():
        for bi, b in enumerate(f["blocks"]):
            if b["cleanup"]:
                continue
            t = b["term"]
            if t["k"] == "call":
                c = t["callee"]
                if callee_pred(c.get("key") or "", c.get("orig") or "", c):
                    out.append((k, bi, t))
    return out
