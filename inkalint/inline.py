"""Normalisation: helper functions that do not exist in the reviewed tree (tables/known_functions.json) are spliced
into their callers, so that an `extract function` refactoring presents the same MIR shape to the rules as before.
Only direct calls to workspace functions with a body are inlined; recursion, size and depth are bounded."""
import copy, json, os

VERIF = os.path.dirname(os.path.dirname(os.path.abspath(__file__)))
MAX_BLOCKS = 400
MAX_DEPTH = 3


def known_functions():
    p = os.path.join(VERIF, "tables", "known_functions.json")
    if not os.path.exists(p):
        return None
    return set(json.load(open(p))["functions"])


def known_signatures():
    p = os.path.join(VERIF, "tables", "known_functions.json")
    if not os.path.exists(p):
        return {}
    return json.load(open(p)).get("signatures", {})


def alias_renamed_fields(prog):
    """a struct / variant of the reviewed tree whose fields have the same types in the same positions but other
    names has had fields renamed: every place projection and aggregate answers to the reviewed names (the rules name
    fields: `halfmove_clock`, `stop_as_soon_as_possible`, ...)"""
    p = os.path.join(VERIF, "tables", "known_functions.json")
    if not os.path.exists(p):
        return []
    known = json.load(open(p)).get("adts", {})
    ren = {}        # (adt key, position, new name) -> old name
    out = []
    for k, a in prog.adts.items():
        old = known.get(k)
        if not old or len(old) != len(a.get("variants", [])):
            continue
        for (ovn, ofs), v in zip(old, a["variants"]):
            nfs = v.get("fields", [])
            if len(ofs) != len(nfs) or [t for _, t in ofs] != [fl.get("ty") for fl in nfs]:
                continue
            for i, ((on, _), fl) in enumerate(zip(ofs, nfs)):
                if fl.get("name") != on and on not in [x.get("name") for x in nfs]:
                    ren[(k, i, fl.get("name"))] = on
                    out.append("%s.%s -> %s" % (k.rsplit("::", 1)[-1], fl.get("name"), on))
                    fl["name"] = on
    if not ren:
        return out

    def fix_place(pl):
        for e in pl.get("p", []):
            if isinstance(e, dict) and "f" in e and (e.get("of"), e.get("f"), e.get("name")) in ren:
                e["name"] = ren[(e.get("of"), e.get("f"), e.get("name"))]
    for f in prog.fns.values():
        for b in f["blocks"]:
            for st in b["stmts"]:
                if st["dst"] is not None:
                    fix_place(st["dst"])
                rv = st["rv"]
                for a_ in rv.get("a", []):
                    if a_.get("k") in ("copy", "move"):
                        fix_place(a_["pl"])
                if "place" in rv:
                    fix_place(rv["place"])
                if rv.get("op") == "agg" and rv.get("kind") == "adt" and rv.get("fields"):
                    rv["fields"] = [ren.get((rv.get("adt"), i, n), n) for i, n in enumerate(rv["fields"])]
            t = b["term"]
            for a_ in (t.get("args") or []):
                if a_.get("k") in ("copy", "move"):
                    fix_place(a_["pl"])
            for key_ in ("discr", "cond"):
                if isinstance(t.get(key_), dict) and t[key_].get("k") in ("copy", "move"):
                    fix_place(t[key_]["pl"])
            if t.get("dest"):
                fix_place(t["dest"])
            if t.get("place"):
                fix_place(t["place"])
    return out


def alias_renamed(prog, known):
    """a reviewed function that is gone while exactly one new function with the same signature appeared in the same
    impl / module has been renamed: the new function answers to the old name (rules are anchored in names)"""
    sigs = known_signatures()
    crates = {f["crate"] for f in prog.fns.values() if "crate" in f}
    new = [k for k, f in prog.fns.items() if k.startswith("inkayaku_") and k not in known and "::promoted[" not in k and "{closure" not in k and not f.get("test")]
    out = []
    if not new:
        return out
    gone = [k for k in sigs if k not in prog.fns and k.split("::", 1)[0] in crates]
    import re

    def const_len(m):
        # `[u64;SQUARE_COUNT]` in an impl's self type names the same type as `[u64;64]` when the constant is 64
        name = m.group(1).rsplit("::", 1)[-1]
        vals = {c.get("value") for k_, c in prog.consts.items() if k_.rsplit("::", 1)[-1] == name and isinstance(c.get("value"), int)}
        return ";%d]" % vals.pop() if len(vals) == 1 else m.group(0)

    def norm_parent(k):
        return re.sub(r";\s*([A-Za-z_][A-Za-z0-9_:]*)\]", const_len, k.rsplit("::", 1)[0])
    for old in gone:
        parent = old.rsplit("::", 1)[0]
        cands = []
        for k in new:
            if k.rsplit("::", 1)[0] != parent and not (norm_parent(k) == parent and k.rsplit("::", 1)[-1] == old.rsplit("::", 1)[-1]):
                continue
            f = prog.fns[k]
            n = f["args"] if isinstance(f["args"], int) else len(f["args"])
            if [l["ty"] for l in f["locals"][:n + 1]] == sigs[old]:
                cands.append(k)
        same_sig_gone = [g for g in gone if g.rsplit("::", 1)[0] == parent and sigs[g] == sigs[old]]
        if len(cands) == 1 and len(same_sig_gone) == 1:
            out.append((old, cands[0]))
    for old, nk in out:
        f = prog.fns.pop(nk)
        f["renamed_from"] = nk
        f["key"] = old
        prog.fns[old] = f
        if nk in prog.fn_crate:
            prog.fn_crate[old] = prog.fn_crate.pop(nk)
        for k in [k for k in prog.fns if k.startswith(nk + "::")]:
            g = prog.fns.pop(k)
            g["key"] = old + k[len(nk):]
            if g.get("parent") == nk:
                g["parent"] = old
            prog.fns[g["key"]] = g
        for g in prog.fns.values():
            for b in g["blocks"]:
                t = b["term"]
                if t["k"] == "call":
                    c = t["callee"]
                    for fld in ("key", "orig"):
                        if c.get(fld) == nk:
                            c[fld] = old
    return out


def _remap(node, lo, bo):
    """deep copy of a MIR fragment with local indices shifted by lo and block indices by bo"""
    if isinstance(node, dict):
        out = {}
        for k, v in node.items():
            if k == "l" and isinstance(v, int) and "p" in node:
                out[k] = v + lo
            elif k == "idx" and isinstance(v, int):
                out[k] = v + lo
            elif k in ("target", "otherwise", "unwind") and isinstance(v, int):
                out[k] = v + bo
            elif k == "targets" and isinstance(v, list):
                out[k] = [[a, b + bo] for a, b in v]
            else:
                out[k] = _remap(v, lo, bo)
        return out
    if isinstance(node, list):
        return [_remap(x, lo, bo) for x in node]
    return node


def _calls(f):
    return [(bi, b["term"]) for bi, b in enumerate(f["blocks"]) if b["term"]["k"] == "call" and b["term"]["callee"].get("key")]


def inline_new_helpers(prog):
    known = known_functions()
    if known is None:
        return []
    prog.renamed = alias_renamed(prog, known)
    prog.renamed_fields = alias_renamed_fields(prog)
    sigs = known_signatures()
    for k, f in prog.fns.items():
        want = sigs.get(k)
        if want is None or f.get("test"):
            continue
        n = f["args"] if isinstance(f["args"], int) else len(f["args"])
        got = [l["ty"] for l in f["locals"][:n + 1]]
        if got != want:
            f["signature_changed"] = "(%s) -> %s, reviewed as (%s) -> %s" % (", ".join(got[1:]), got[0], ", ".join(want[1:]), want[0])
    if os.environ.get("INKALINT_THREAD_ALL", "1") == "1":
        # everywhere, not only in spliced code: `let ok = a && b; if ok {..}` is the nest `if a { if b {..} }`
        for k, f in prog.fns.items():
            if k.startswith("inkayaku_") and not f.get("test"):
                thread_jumps(f)
                single_reaching_bools(f)
    new = {k for k, f in prog.fns.items() if k.startswith("inkayaku_") and k not in known and f.get("kind") != "promoted" and "{closure" not in k and not f.get("test")}
    done = []
    for depth in range(MAX_DEPTH):
        changed = False
        for k, f in list(prog.fns.items()):
            if not k.startswith("inkayaku_") or f.get("test"):
                continue
            for bi, t in _calls(f):
                ck = t["callee"]["key"]
                # (a closure the function defines and calls itself - `let ok = || a && b; if ok() {..}` - is spliced
                # in like a new helper; closures handed to iterator adaptors are not called here and stay)
                own_closure = "{closure" in ck and ck.startswith(k + "::") and ck in prog.fns and ck not in known
                if (ck not in new and not own_closure) or ck == k:
                    continue
                g = prog.fns.get(ck)
                if g is None or len(g["blocks"]) + len(f["blocks"]) > MAX_BLOCKS:
                    continue
                if any(tt["callee"].get("key") == ck for _, tt in _calls(g)):
                    continue        # recursive helper
                if t.get("target") is None:
                    continue        # diverging call
                if k not in prog.raw_fns:
                    prog.raw_fns[k] = copy.deepcopy(f)      # the function as written, for rules that follow calls themselves
                lo, bo = len(f["locals"]), len(f["blocks"])
                f["locals"] = f["locals"] + copy.deepcopy(g["locals"])
                names = f.setdefault("names", {})
                for n, v in (g.get("names") or {}).items():
                    names.setdefault(str(int(n) + lo), v)
                blk = f["blocks"][bi]
                gn = g["args"] if isinstance(g["args"], int) else len(g["args"])
                if own_closure and len(t["args"]) == 2:
                    # closure call ABI: (environment, tuple of the arguments); the body takes them spread out
                    blk["stmts"].append({"dst": {"l": lo + 1, "p": []}, "rv": {"op": "use", "a": [copy.deepcopy(t["args"][0])]}, "line": t.get("line", 0), "exp": False})
                    tup = t["args"][1]
                    if tup.get("k") in ("copy", "move"):
                        for i in range(gn - 1):
                            src = {"k": "copy", "pl": {"l": tup["pl"]["l"], "p": list(tup["pl"]["p"]) + [{"f": i, "name": str(i), "of": None, "ty": g["locals"][2 + i]["ty"]}]}}
                            blk["stmts"].append({"dst": {"l": lo + 2 + i, "p": []}, "rv": {"op": "use", "a": [src]}, "line": t.get("line", 0), "exp": False})
                else:
                    for i, a in enumerate(t["args"][:gn] if own_closure else t["args"]):
                        blk["stmts"].append({"dst": {"l": lo + 1 + i, "p": []}, "rv": {"op": "use", "a": [copy.deepcopy(a)]}, "line": t.get("line", 0), "exp": False})
                dest, target = t.get("dest"), t["target"]
                blk["term"] = {"k": "goto", "line": t.get("line", 0), "exp": False, "target": bo}
                for gb in g["blocks"]:
                    nb = _remap(gb, lo, bo)
                    if nb["term"]["k"] == "return":
                        if dest is not None:
                            nb["stmts"].append({"dst": copy.deepcopy(dest), "rv": {"op": "use", "a": [{"k": "move", "pl": {"l": lo, "p": []}}]}, "line": nb["term"].get("line", 0), "exp": False})
                        nb["term"] = {"k": "goto", "line": nb["term"].get("line", 0), "exp": False, "target": target}
                    f["blocks"].append(nb)
                done.append((k, ck))
                prog.inline_sites.append({"caller": k, "callee": ck, "local_offset": lo, "block": bi, "entry": bo})
                changed = True
        if not changed:
            break
    for k in sorted({c for c, _ in done}):
        thread_jumps(prog.fns[k])
        single_reaching_bools(prog.fns[k])
    # a helper that is now spliced into every caller is no function of its own any more: inventories (who writes a
    # field, who calls an unchecked lookup, which panic sites are reachable) see its body in the callers only
    still = set()
    for k, f in prog.fns.items():
        for b in f["blocks"]:
            t = b["term"]
            if t["k"] == "call":
                ck = t["callee"].get("key")
                if ck in new and ck != k:
                    still.add(ck)
                for a in t["args"]:
                    if a.get("k") == "const" and a.get("fn") in new:
                        still.add(a["fn"])
            for st in b["stmts"]:
                for a in st["rv"].get("a", []):
                    if a.get("k") == "const" and a.get("fn") in new:
                        still.add(a["fn"])
    inlined_callees = {c for _, c in done}
    for ck in sorted(inlined_callees - still):
        f = prog.fns.get(ck)
        if f is None:
            continue
        # (a closure that was only ever called by its own function is gone too; the aggregate that builds its
        # environment stays and is ignored by the call graph)
        prog.helper_bodies[ck] = prog.fns[ck]
        del prog.fns[ck]
        prog.fn_crate.pop(ck, None)
        for k in [k for k in prog.fns if k.startswith(ck + "::promoted[")]:
            pass        # promoted constants stay addressable
        prog.removed_helpers.append(ck)
    return done


def _const_of(rv):
    """('int', v) for a constant bool / integer, ('variant', vi) for an enum value built in place, else None"""
    if rv["op"] == "use" and rv["a"][0].get("k") == "const" and isinstance(rv["a"][0].get("v"), (bool, int)):
        return ("int", int(rv["a"][0]["v"]))
    if rv["op"] == "agg" and rv.get("kind") == "adt" and rv.get("vi") is not None:
        return ("variant", int(rv["vi"]))
    return None


def thread_jumps(f, rounds=6):
    """jump threading after inlining: a block that assigns a constant (or an enum variant) to a local and jumps to a
    block which only copies that local around and switches on it (or on its discriminant) goes to the switch target
    directly. `if helper() {..}` with `fn helper() -> bool { if a { return false; } b }` becomes the nest of tests
    it was before the helper was extracted. The joined block is copied into the predecessor, nothing is removed."""
    blocks = f["blocks"]
    n_done = 0
    for _ in range(rounds):
        changed = False
        for x in range(len(blocks)):
            bx = blocks[x]
            t = bx["term"]
            if t["k"] != "goto" or bx.get("cleanup"):
                continue
            chain, j, hops = [], t["target"], 0
            while blocks[j]["term"]["k"] == "goto" and hops < 4 and j != x and len(blocks[j]["stmts"]) <= 6 and not blocks[j].get("cleanup"):
                chain.append(j)
                j = blocks[j]["term"]["target"]
                hops += 1
            bj = blocks[j]
            if bj["term"]["k"] != "switch" or j == x or len(bj["stmts"]) > 6:
                continue
            chain.append(j)
            known = {}
            for st in bx["stmts"]:
                d = st["dst"]
                if d is None:
                    continue
                if d["p"]:
                    known.pop(d["l"], None)
                    continue
                c = _const_of(st["rv"])
                if c is not None:
                    known[d["l"]] = c
                elif st["rv"]["op"] == "use" and st["rv"]["a"][0].get("k") in ("copy", "move") and not st["rv"]["a"][0]["pl"]["p"] and st["rv"]["a"][0]["pl"]["l"] in known:
                    known[d["l"]] = known[st["rv"]["a"][0]["pl"]["l"]]
                else:
                    known.pop(d["l"], None)
            if not known:
                continue
            ok = True
            k2 = dict(known)
            joined = [st for c in chain for st in blocks[c]["stmts"]]
            for st in joined:
                d, rv = st["dst"], st["rv"]
                if d is None or d["p"]:
                    ok = False
                    break
                if rv["op"] == "use" and rv["a"][0].get("k") in ("copy", "move") and not rv["a"][0]["pl"]["p"]:
                    src = rv["a"][0]["pl"]["l"]
                    if src in k2:
                        k2[d["l"]] = k2[src]
                    else:
                        k2.pop(d["l"], None)
                elif rv["op"] == "discr" and not rv["place"]["p"] and k2.get(rv["place"]["l"], (None,))[0] == "variant":
                    k2[d["l"]] = ("int", k2[rv["place"]["l"]][1])
                elif _const_of(rv) is not None:
                    k2[d["l"]] = _const_of(rv)
                else:
                    ok = False
                    break
            if not ok:
                continue
            disc = bj["term"]["discr"]
            if disc.get("k") not in ("copy", "move") or disc["pl"]["p"] or k2.get(disc["pl"]["l"], (None,))[0] != "int":
                continue
            v = k2[disc["pl"]["l"]][1]
            nxt = bj["term"]["otherwise"]
            for val, tb in bj["term"]["targets"]:
                if val == v:
                    nxt = tb
            bx["stmts"] = bx["stmts"] + copy.deepcopy(joined)
            bx["term"] = dict(t, target=nxt)
            changed = True
            n_done += 1
        if not changed:
            break
    return n_done


def _succs(t):
    k = t["k"]
    out = []
    if k in ("goto", "drop", "call", "assert"):
        if t.get("target") is not None:
            out.append(t["target"])
    elif k == "switch":
        out = [tb for _, tb in t["targets"]] + [t["otherwise"]]
    if t.get("unwind") is not None and isinstance(t.get("unwind"), int):
        out.append(t["unwind"])
    return out


def single_reaching_bools(f):
    """a boolean temporary assigned in several places (`let c = a && b;`, a flag) is read flow-insensitively as
    "unknown". Where exactly one of its assignments can reach a read (classic reaching definitions), the read is given
    a fresh local that copies that assignment's value, so that the read resolves to the expression again. Only
    plain bool locals (no projections written, never borrowed mutably) are treated."""
    blocks = f["blocks"]
    nargs = f["args"] if isinstance(f["args"], int) else len(f["args"])
    defs = {}       # local -> [(block, stmt index)]
    bad = set()
    for bi, b in enumerate(blocks):
        for si, st in enumerate(b["stmts"]):
            d = st["dst"]
            if d is not None:
                if d["p"]:
                    bad.add(d["l"])
                else:
                    defs.setdefault(d["l"], []).append((bi, si))
            rv = st["rv"]
            if rv["op"] in ("ref", "addr") and rv.get("mut") and not [e for e in rv["place"]["p"] if e == "deref"]:
                bad.add(rv["place"]["l"])
        t = b["term"]
        if t["k"] == "call" and t.get("dest") is not None:
            bad.add(t["dest"]["l"])       # a call result: left alone
    cands = [l for l, ds in defs.items() if len(ds) >= 2 and l not in bad and l > nargs and f["locals"][l]["ty"] == "bool"]
    if not cands:
        return 0
    preds = {i: [] for i in range(len(blocks))}
    for bi, b in enumerate(blocks):
        for x in _succs(b["term"]):
            if 0 <= x < len(blocks):
                preds[x].append(bi)
    # reachable blocks only (threading leaves dead joins behind)
    reach, work = set(), [0]
    while work:
        x = work.pop()
        if x in reach:
            continue
        reach.add(x)
        work.extend(y for y in _succs(blocks[x]["term"]) if 0 <= y < len(blocks))
    n_new = 0
    for l in cands:
        # (re-scan: copies inserted for an earlier local shift statement indices)
        ds = [(bi, si) for bi, b in enumerate(blocks) for si, st in enumerate(b["stmts"]) if st["dst"] is not None and not st["dst"]["p"] and st["dst"]["l"] == l]
        # reaching definitions at block entry: IN[b] = union OUT[p]; OUT[b] = last def in b, or IN[b]
        last_in_block = {}
        for (bi, si) in ds:
            last_in_block[bi] = max(si, last_in_block.get(bi, -1))
        IN = {b: set() for b in reach}
        changed = True
        while changed:
            changed = False
            for b in sorted(reach):
                new = set()
                for p_ in preds[b]:
                    if p_ not in reach:
                        continue
                    new |= {(p_, last_in_block[p_])} if p_ in last_in_block else IN[p_]
                if new != IN[b]:
                    IN[b] = new
                    changed = True
        fresh = {}      # def -> fresh local

        def fresh_for(d):
            if d not in fresh:
                f["locals"].append({"ty": "bool"})
                fresh[d] = len(f["locals"]) - 1
            return fresh[d]

        def rewrite_operand(o, cur):
            nonlocal n_new
            if o.get("k") in ("copy", "move") and o["pl"]["l"] == l and not o["pl"]["p"] and len(cur) == 1:
                o["pl"] = {"l": fresh_for(next(iter(cur))), "p": []}
                o["k"] = "copy"
                n_new += 1
        for b in sorted(reach):
            cur = set(IN[b])
            for si, st in enumerate(blocks[b]["stmts"]):
                for a in st["rv"].get("a", []):
                    rewrite_operand(a, cur)
                d = st["dst"]
                if d is not None and not d["p"] and d["l"] == l:
                    cur = {(b, si)}
            t = blocks[b]["term"]
            if t["k"] == "switch":
                rewrite_operand(t["discr"], cur)
            elif t["k"] == "call":
                for a in t["args"]:
                    rewrite_operand(a, cur)
            elif t["k"] == "assert":
                rewrite_operand(t["cond"], cur)
        # the copies, inserted right after their definitions (highest statement index first keeps indices valid)
        for (b, si), nl in sorted(fresh.items(), key=lambda kv: (kv[0][0], -kv[0][1])):
            st = blocks[b]["stmts"][si]
            blocks[b]["stmts"].insert(si + 1, {"dst": {"l": nl, "p": []}, "rv": copy.deepcopy(st["rv"]), "line": st.get("line", 0), "exp": st.get("exp", False)})
    return n_new
