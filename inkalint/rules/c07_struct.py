"""C07 structural rules R2-R3: who may announce a best move; one go per UciGo; no nested search."""
from ..cfg import Cfg
from ..expr import Exprs, show, leaves
from ..callgraph import CallGraph, call_sites
from .common import SEARCH, UCITX, count_calls_on_paths


def run(ctx):
    prog = ctx.prog
    rid = "C07.R2"
    ctx.rule(rid, "UciTx::best_move is called only by Search::go (transmitter implementations may forward it)", floor=1)
    impl_methods = {m["fn"] for i in prog.impls if i.get("trait") == "inkayaku_uci::uci::UciTx" for m in i["methods"].values()}
    callers = set()
    for caller, b, t in call_sites(prog, lambda k, o, c: o == UCITX + "best_move" or (k in impl_methods and k.endswith("::best_move"))):
        f = prog.fns[caller]
        if f.get("test") or caller in impl_methods:
            continue
        callers.add(caller)
    ok = callers == {SEARCH + "go"}
    ctx.ob(rid, "only-go-announces", ok, "" if ok else "best_move is announced by %s (expected only Search::go)" % sorted(callers), "", sample={"callers": sorted(callers)})
    rid = "C07.R3"
    ctx.rule(rid, "Search::idle starts exactly one search per UciGo message; nothing reachable from a running search starts another one", floor=3)
    f = ctx.fn(rid, SEARCH + "idle")
    cfg, ex = Cfg(f), Exprs(f)
    gos = [b for b in sorted(cfg.reach) if f["blocks"][b]["term"]["k"] == "call" and f["blocks"][b]["term"]["callee"].get("key") == SEARCH + "go"]
    recvs = [b for b in sorted(cfg.reach) if f["blocks"][b]["term"]["k"] == "call" and (f["blocks"][b]["term"]["callee"].get("key") or "").endswith("Receiver::recv")]
    ok = len(gos) == 1 and len(recvs) == 1 and cfg.dominates(recvs[0], gos[0])
    # between two go calls a recv must happen: removing the recv block, go cannot reach itself
    if ok:
        ok = gos[0] not in cfg.reachable_from(f["blocks"][gos[0]]["term"]["target"], avoid={recvs[0]})
    ctx.ob(rid, "one-go-per-message", ok, "" if ok else "Search::idle: go calls %s, recv calls %s (a go must follow exactly one received message)" % (gos, recvs), ctx.where(f))
    # the go arm is the UciGo variant of the message
    variant_ok = False
    if gos:
        adt = prog.adts.get("inkayaku_engine_core::engine::search::SearchMessage")
        names = [v["name"] for v in adt["variants"]] if adt else []
        for (a, sb) in cfg.control_deps_transitive(gos[0]):
            sw = f["blocks"][a]["term"]
            if sw["k"] == "switch" and len(sw["targets"]) >= 4:
                vals = [v for v, tb in sw["targets"] if tb == sb]
                if len(vals) == 1 and vals[0] < len(names) and names[vals[0]] == "UciGo":
                    variant_ok = True
    ctx.ob(rid, "go-on-UciGo", variant_ok, "" if variant_ok else "the search is not started by the UciGo arm of the message match", ctx.where(f))
    if not hasattr(ctx, "_cg"):
        ctx._cg = CallGraph(prog)
    cg = ctx._cg
    below, _ = cg.reachable([SEARCH + "best_move", SEARCH + "check_messages", SEARCH + "reset_for_go"])
    ok = SEARCH + "go" not in below and SEARCH + "idle" not in below
    ctx.ob(rid, "no-nested-search", ok, "" if ok else "a running search can reach Search::go / idle again (nested search -> second bestmove)", ctx.where(prog.fns[SEARCH + "check_messages"]),
           sample={"functions_below_a_running_search": len(below)})


    # ---- R5: answers respect searchmoves
    rid = "C07.R5"
    ctx.rule(rid, "the root cannot answer from a transposition entry computed under different searchmoves: the table is cleared before the first search of every go, or the root filter precedes the table probe", floor=1)
    bm = ctx.fn(rid, SEARCH + "best_move")
    bcfg = Cfg(bm)
    clears = [b for b in sorted(bcfg.reach) if bm["blocks"][b]["term"]["k"] == "call" and (bm["blocks"][b]["term"]["callee"].get("key") or "").endswith("TranspositionTable>::clear")]
    searches = [b for b in sorted(bcfg.reach) if bm["blocks"][b]["term"]["k"] == "call" and bm["blocks"][b]["term"]["callee"].get("key") == SEARCH + "search_negamax"]
    cleared = bool(searches) and all(any(bcfg.dominates(c, sb) and not bcfg.in_loop(c) for c in clears) for sb in searches)
    go = prog.fns.get(SEARCH + "go")
    if go and not cleared:
        gcfg = Cfg(go)
        gclears = [b for b in sorted(gcfg.reach) if go["blocks"][b]["term"]["k"] == "call" and (go["blocks"][b]["term"]["callee"].get("key") or "").endswith("TranspositionTable>::clear")]
        gbm = [b for b in sorted(gcfg.reach) if go["blocks"][b]["term"]["k"] == "call" and go["blocks"][b]["term"]["callee"].get("key") == SEARCH + "best_move"]
        cleared = bool(gbm) and all(any(gcfg.dominates(c, x) for c in gclears) for x in gbm)
    ng = ctx.fn(rid, SEARCH + "search_negamax")
    ncfg = Cfg(ng)
    probes = [b for b in sorted(ncfg.reach) if ng["blocks"][b]["term"]["k"] == "call" and (ng["blocks"][b]["term"]["callee"].get("key") or "").endswith("TranspositionTable>::get")]
    filters = [b for b in sorted(ncfg.reach) if ng["blocks"][b]["term"]["k"] == "call" and ng["blocks"][b]["term"]["callee"].get("key") == SEARCH + "filter_search_moves"]
    filtered_first = bool(probes) and bool(filters) and all(any(ncfg.dominates(fb, pb) for fb in filters) for pb in probes)
    ok = cleared or filtered_first
    ctx.ob(rid, "searchmoves-vs-transposition-table", ok,
           "" if ok else "search_negamax probes the transposition table at the root before the searchmoves filter, and the table is not cleared at the start of every go: an entry stored by an earlier search of the same position answers with a move outside searchmoves",
           ctx.where(bm), sample={"table_cleared_per_go": cleared, "filter_precedes_probe": filtered_first})


def loop_body_paths(f, cfg, hdr, limit=4000):
    """acyclic block paths of one iteration of the natural loop with header `hdr`: from the header to a back edge or
    to the first block outside the body"""
    body = {hdr}
    for (a, h) in cfg.back_edges():
        if h != hdr:
            continue
        work = [a]
        while work:
            x = work.pop()
            if x in body:
                continue
            body.add(x)
            work.extend(cfg.pred[x])
    out = []
    stack = [(hdr, [hdr])]
    while stack:
        b, path = stack.pop()
        succs = [x for x in cfg.succ[b] if not f["blocks"][x]["cleanup"]]
        if not succs:
            out.append((path, "end"))
        for x in succs:
            if x == hdr:
                out.append((path + [x], "next-iteration"))
            elif x not in body:
                out.append((path + [x], "leaves-loop"))
            elif x in path:
                continue        # inner cycle: not followed
            else:
                stack.append((x, path + [x]))
        if len(out) > limit:
            raise OverflowError("more than %d paths through one loop iteration" % limit)
    return out, body


def r7_first_result_kept(ctx, rid="C07.R7", interrupted_only=False):
    if interrupted_only:
        ctx.rule(rid, "in Search::best_move an iteration during which the stop flag was raised is never accepted as the answer: bestmove, score and principal variation come from the last iteration that ran to its end", floor=1)
    else:
      ctx.rule(rid, "in Search::best_move a completed, non-aborted iteration is never discarded while no earlier result exists: every path through one iteration on which the search was not aborted either stores its move as the answer or has tested that an answer already exists (otherwise a zero or near-zero time budget yields `bestmove 0000` in a position with legal moves)", floor=1)
    from ..expr import PathEval
    f = ctx.fn(rid, SEARCH + "best_move")
    cfg = Cfg(f)
    names = {int(k): v for k, v in f.get("names", {}).items()}
    bm = [l for l, n in names.items() if n == "best_move"]
    if len(bm) > 1:
        # shadowed: the one that is assigned Some(..) (the accepted iteration), i.e. has more than one definition
        from ..expr import Exprs as _E
        _ex = _E(f)
        bm = [l for l in bm if len(_ex.defs.get(l, ())) >= 2] or bm[:1]
    if len(bm) != 1:
        ctx.lost(rid, "local `best_move` of Search::best_move")
        return
    bm = bm[0]
    rec = [b for b in sorted(cfg.reach) if f["blocks"][b]["term"]["k"] == "call" and f["blocks"][b]["term"]["callee"].get("key") == SEARCH + "search_negamax"]
    heads = sorted({h for (a, h) in cfg.back_edges() if rec and cfg.dominates(h, rec[0])})
    if len(rec) != 1 or len(heads) != 1:
        ctx.lost(rid, "the iteration loop of Search::best_move around its one search_negamax call")
        return
    try:
        paths, body = loop_body_paths(f, cfg, heads[0])
    except OverflowError as e:
        ctx.lost(rid, str(e))
        return
    store = set()
    from ..expr import Exprs
    ex_ = Exprs(f)
    for b in body:
        for s in f["blocks"][b]["stmts"]:
            d = s["dst"]
            if d is not None and not d["p"] and d["l"] == bm:
                tv = ex_.rvalue(s["rv"])
                if tv[0] == "agg" and tv[2].endswith("Option::Some"):
                    store.add(b)
    if not store:
        ctx.lost(rid, "assignment best_move = Some(..) inside the iteration loop")
        return
    # one iteration as a decision table (inkalint/semtable.py): stop flag, "the iteration found a move", "an earlier
    # answer exists", and whatever the clock comparison says - in any order, polarity or grouping of the tests
    from ..semtable import explore, judge, TooBig

    def var_of(t):
        lv = [t] + list(leaves(t))
        if t[0] == "f" and t[2] == "stop_as_soon_as_possible":
            return "stop"
        about_bm = any(x == ("local", bm) for x in lv)
        about_mv = any(x[0] == "f" and x[2] == "mv" for x in lv)
        if t[0] == "call" and t[1].endswith(("Option::is_none", "Option::is_some")):
            neg = t[1].endswith("is_none")
            if about_bm:
                return ("earlier", neg)
            if about_mv:
                return ("found", neg)
        if t[0] == "discr" and about_bm:
            return "earlier"
        if t[0] == "discr" and about_mv:
            return "found"
        if t[0] == "call" and "PartialOrd" in t[1] and t[1].rsplit("::", 1)[-1] in ("gt", "lt", "ge", "le"):
            return "clock_test"
        return None
    domains = {"stop": [0, 1], "found": [0, 1], "earlier": [0, 1], "clock_test": [0, 1]}
    hdr = heads[0]
    try:
        lvs = explore(f, var_of, domains, entry=rec[0], stop_at=lambda b: b == hdr, max_leaves=20000)
    except TooBig as e:
        ctx.lost(rid, "one iteration of Search::best_move as a decision table (%s)" % e)
        return
    # an interrupted iteration (stop flag up) is never the answer
    viol_i, und_i, n_i = judge(lvs, ["stop", "found", "earlier"], domains, lambda lf: bool(store & set(lf.path)),
                               lambda e: False, lambda e: e["stop"] == 1)
    ok_i = n_i >= 1 and not viol_i
    ctx.ob(rid, "best_move|interrupted-iteration-not-accepted", ok_i,
           "" if ok_i else ("when the stop flag is up after an iteration (%s) Search::best_move still stores that iteration's move as the answer: bestmove, score and depth then come from an unfinished iteration whose root moves were only partly searched" % (
               ", ".join("%s=%s" % kv for kv in sorted(viol_i[0][0].items()))) if viol_i else "no path with the stop flag up found"),
           ctx.where(f), sample={"cases": n_i})
    if interrupted_only:
        return
    viol, und, n = judge(lvs, ["stop", "found", "earlier"], domains, lambda lf: bool(store & set(lf.path)),
                         lambda e: True, lambda e: e["stop"] == 0 and e["found"] == 1 and e["earlier"] == 0)
    ok = n >= 1 and not viol
    ctx.ob(rid, "best_move|completed-iteration-kept-when-nothing-else", ok,
           "" if ok else ("an iteration that was not aborted (no stop flag, a move was found) while no earlier answer exists is discarded%s: with a zero budget the first iteration is thrown away and the go is answered with the null move"
                          % (" when the clock test is %s" % viol[0][3].env.get("clock_test") if viol and "clock_test" in viol[0][3].env else "") if viol else "no non-aborted path through an iteration found"),
           ctx.where(f), sample={"leaves": len(lvs), "cases": n})
    for u in und[:1]:
        ctx.lost(rid, "an iteration of Search::best_move under a condition the decision table cannot evaluate (%s)" % "; ".join(show(d) for d, cc in u[3].opaque)[:160])
    # the other half: from the loop header to the search. Leaving the loop *before* the iteration's search because of
    # the clock is only sound when an answer exists already
    body_set = set(body)
    try:
        pre = explore(f, var_of, domains, entry=hdr, stop_at=lambda b: b == rec[0] or b not in body_set, max_leaves=20000)
    except TooBig as e:
        ctx.lost(rid, "the part of an iteration before its search as a decision table (%s)" % e)
        return
    searched = [lf for lf in pre if lf.path[-1] == rec[0]]
    left = [lf for lf in pre if lf.path[-1] != rec[0] and lf.path[-1] not in body_set]
    bad = None
    for lf in left:
        if "clock_test" not in lf.env or lf.env.get("earlier") == 1:
            continue
        # the same inputs with the other outcome of the clock test go on to search: the clock decides, and nothing says
        # an earlier answer exists
        for l2 in searched:
            if l2.env.get("clock_test") == 1 - lf.env["clock_test"] and all(l2.env.get(k_, v_) == v_ for k_, v_ in lf.env.items() if k_ != "clock_test"):
                bad = lf
                break
        if bad:
            break
    if searched:
        ctx.ob(rid, "best_move|no-clock-exit-before-the-first-search", bad is None,
               "" if bad is None else "Search::best_move leaves the iteration loop before searching when the clock test is %s, without having tested that an earlier iteration produced a move: with a zero or nearly used-up budget (go movetime 0, wtime 1) not even depth 1 is searched and the go is answered with `bestmove 0000` in a position with legal moves" % bad.env["clock_test"],
               ctx.where(f), sample={"paths_to_search": len(searched), "paths_leaving_before": len(left)})


def r8_root_exits(ctx):
    rid = "C07.R8"
    ctx.rule(rid, "search_negamax can leave without a move before searching any child only through a reviewed exit when it is the root (ply_depth_from_root == 0): the answer of a go is the root's move, and a move-less root exit in a position with legal moves is a null bestmove", floor=4)
    from ..expr import Exprs
    f = ctx.fn(rid, SEARCH + "search_negamax")
    cfg, ex = Cfg(f), Exprs(f)
    rec = [b for b in sorted(cfg.reach) if f["blocks"][b]["term"]["k"] == "call" and f["blocks"][b]["term"]["callee"].get("key") == SEARCH + "search_negamax"]
    heads = sorted({h for (a, h) in cfg.back_edges() if rec and cfg.dominates(h, rec[0])})
    if len(rec) != 1 or len(heads) != 1:
        ctx.lost(rid, "the move loop of search_negamax")
        return
    hdr = heads[0]
    PLY = ("param", 3)
    REVIEWED = {
        "time": "sets stop_as_soon_as_possible before returning: best_move() treats the iteration as aborted and keeps the previous iteration's move (the poll cannot fire in the first root: the node counter is 0 there)",
        "searchmoves-empty": "the root's move list is empty after the searchmoves filter: there is nothing to answer with",
        "horizon": "taken only when ply_depth_from_root == max_ply; best_move() calls with max_ply >= 1, so never at the root",
    }
    n = 0
    for b in sorted(cfg.reach):
        if f["blocks"][b]["cleanup"] or cfg.dominates(hdr, b):
            continue
        t = f["blocks"][b]["term"]
        if not (t["k"] == "call" and t.get("dest") and t["dest"]["l"] == 0 and not t["dest"]["p"]):
            continue
        callee = t["callee"].get("key") or ""
        if not callee.endswith("ValuedMove::leaf"):
            continue      # transposition exits return the stored ValuedMove with its move; quiescence is a horizon exit
        n += 1
        guards = []
        for (a, sb) in sorted(cfg.control_deps_transitive(b)):
            sw = f["blocks"][a]["term"]
            if sw["k"] == "switch":
                d = ex.operand(sw["discr"])
                taken = [v for v, tb in sw["targets"] if tb == sb]
                guards.append((d, taken[0] if taken else "else"))
        cls = None
        not_root = False
        for d, pol in guards:
            lv = list(leaves(d))
            if d[0] == "bin" and d[1] in ("Eq", "Ne", "Gt", "Lt", "Ge", "Le") and PLY in (d[2], d[3]):
                other = d[3] if d[2] == PLY else d[2]
                if other[0] == "c" and other[1] == 0:
                    holds_at_root = {"Eq": True, "Ne": False, "Gt": False, "Lt": False, "Ge": True, "Le": True}[d[1]] if d[2] == PLY else {"Eq": True, "Ne": False, "Gt": False, "Lt": False, "Ge": True, "Le": True}[d[1]]
                    edge_true = pol == "else" or pol == 1
                    if holds_at_root != edge_true:
                        not_root = True
                elif other == ("param", 4) and d[1] == "Eq" and (pol == "else" or pol == 1):
                    cls = cls or "horizon"
            if any(x[0] == "call" and x[1].endswith("Vec::is_empty") for x in lv) and (pol == "else" or pol == 1):
                cls = "searchmoves-empty"
        # the block itself (or a dominating one in the same guard region) sets the stop flag
        sets_stop = False
        for bb in sorted(cfg.reach):
            if cfg.dominates(bb, b) and cfg.control_deps().get(bb) == cfg.control_deps().get(b):
                for s in f["blocks"][bb]["stmts"]:
                    d = s["dst"]
                    if d is not None and d["p"] and isinstance(d["p"][-1], dict) and d["p"][-1].get("name") == "stop_as_soon_as_possible" and s["rv"]["op"] == "use" and s["rv"]["a"][0].get("v") is True:
                        sets_stop = True
        if sets_stop:
            cls = "time"
        ok = not_root or cls in REVIEWED
        last_calls = ",".join(sorted({x[1].rsplit("::", 1)[-1] for d, p in guards[-1:] for x in leaves(d) if x[0] == "call"})) or "other"
        ctx.ob(rid, "moveless-exit|%s" % ("not-at-root:" + last_calls if not_root else (cls or last_calls)), ok,
               "" if ok else "search_negamax returns a value without a move under `%s` also when it is the root: a go from such a position is answered with the null move although legal moves exist (the exit needs `ply_depth_from_root > 0`, or a soundness note in the rule's reviewed list)" % "; ".join(show(d)[:80] for d, p in guards[-2:]),
               ctx.where(f, t["line"]), sample={"class": cls, "not_at_root": not_root, "reason": REVIEWED.get(cls, "")})
    if n == 0:
        ctx.lost(rid, "no ValuedMove::leaf exit before the move loop")


_run_before_r7 = run


def run(ctx):
    _run_before_r7(ctx)
    r7_first_result_kept(ctx)
    r8_root_exits(ctx)


def r9_ordered_commands(ctx):
    """stop / quit / ponderhit reach the search in the order they were given relative to go"""
    rid = "C07.R9"
    ctx.rule(rid, "the command thread talks to the search thread only through the ordered message channel: no field of an engine_core type holds shared mutable state (Atomic*, Mutex, RwLock, Condvar), the stop command is sent as a message, the running search turns it into the stop flag and the idle loop ignores it; a flag shared outside the channel can be set before the go it belongs to is taken up and then be cleared by that go's reset (the go is never answered)", floor=4)
    prog = ctx.prog
    fields = 0
    shared = []
    for k, a in sorted(prog.adts.items()):
        if not k.startswith("inkayaku_engine_core::"):
            continue
        for v in a.get("variants", []):
            for fld in v.get("fields", []):
                fields += 1
                ty = fld.get("ty") or ""
                if any(w in ty for w in ("Atomic", "Mutex", "RwLock", "Condvar", "UnsafeCell")):
                    shared.append("%s.%s: %s" % (k.rsplit("::", 1)[-1], fld.get("name"), ty))
    ctx.ob(rid, "adt-walk-control", fields >= 40, "" if fields >= 40 else "only %d fields of engine_core types were seen: the ADT facts are incomplete" % fields, "", sample={"fields_scanned": fields})
    ctx.ob(rid, "no-shared-state-outside-the-channel", not shared,
           "" if not shared else "engine_core types hold shared mutable state next to the message channel: %s - a request stored there is not ordered with respect to the go message (set before the search thread takes the go up, then wiped or misread by that go)" % shared,
           "", sample={"shared": shared})
    # stop travels as a message and is honoured by the running search
    MSG = "inkayaku_engine_core::engine::search::SearchMessage"
    a = prog.adts.get(MSG)
    variants = [v.get("name") for v in a.get("variants", [])] if a else []
    ok = "UciStop" in variants
    ctx.ob(rid, "stop-is-a-message", ok, "" if ok else "SearchMessage has no UciStop variant (variants: %s)" % variants, "")
    senders = []
    for k, f in prog.fns.items():
        if not k.startswith("inkayaku_engine_core::engine::") or f.get("test"):
            continue
        ex = None
        for b in f["blocks"]:
            t = b["term"]
            if b["cleanup"] or t["k"] != "call" or not (t["callee"].get("key") or "").endswith("Sender::send"):
                continue
            ex = ex or Exprs(f)
            for arg in t["args"][1:]:
                tr = ex.operand(arg)
                txt = show(tr)
                if "UciStop" in txt:
                    senders.append(k)
    ok = any(k.endswith("::accept") for k in senders)
    ctx.ob(rid, "accept-sends-stop", ok, "" if ok else "no UciEngine::accept implementation sends SearchMessage::UciStop through the channel", "", sample={"senders": senders})
    f = ctx.fn(rid, SEARCH + "check_messages")
    cfg, ex = Cfg(f), Exprs(f)
    sets = False
    for b in sorted(cfg.reach):
        for s in f["blocks"][b]["stmts"]:
            d = s["dst"]
            if d is not None and d["p"] and isinstance(d["p"][-1], dict) and d["p"][-1].get("name") == "stop_as_soon_as_possible" and s["rv"]["op"] == "use" and s["rv"]["a"][0].get("v") is True:
                # under the UciStop arm (discriminant 4 of the message) or the quit arm
                for (a_, sb) in cfg.control_deps_transitive(b):
                    sw = f["blocks"][a_]["term"]
                    if sw["k"] == "switch":
                        taken = [v for v, tb in sw["targets"] if tb == sb]
                        if taken and variants and 0 <= taken[0] < len(variants) and variants[taken[0]] == "UciStop":
                            sets = True
    ctx.ob(rid, "running-search-honours-stop", sets, "" if sets else "check_messages does not set stop_as_soon_as_possible under the UciStop message", ctx.where(f))


_run_before_r9 = run


def run(ctx):
    _run_before_r9(ctx)
    r9_ordered_commands(ctx)


def r10_answer_provenance(ctx):
    """the move announced is the search's move"""
    rid = "C07.R10"
    ctx.rule(rid, "the move Search::best_move returns is taken from the local that holds the accepted iteration's search_negamax result and from nothing else: no fallback that picks a move the search's make / is_valid filter has not passed", floor=1)
    from ..slice import Slicer
    f = ctx.fn(rid, SEARCH + "best_move")
    cfg, ex = Cfg(f), Exprs(f)
    rets = []
    for b in sorted(cfg.reach):
        for s in f["blocks"][b]["stmts"]:
            d = s["dst"]
            if d is not None and d["l"] == 0 and not d["p"] and s["rv"]["op"] == "agg" and s["rv"].get("kind") == "tuple":
                rets.append((b, s))
    if len(rets) != 1:
        ctx.lost(rid, "the tuple returned by Search::best_move (found %d)" % len(rets))
        return
    b, s = rets[0]
    first = ex.operand(s["rv"]["a"][0])
    prog = ctx.prog
    allowed_tail = ("search_negamax", "move_into_uci_move", "and_then", "map", "clone", "copied", "cloned", "take", "filter", "calculate_principal_variation", "as_ref", "as_mut")
    foreign, has_search = [], [False]

    def closure_calls(ck):
        g = prog.fns.get(ck)
        out = []
        if g is None:
            return out
        for blk in g["blocks"]:
            t = blk["term"]
            if not blk["cleanup"] and t["k"] == "call":
                out.append(t["callee"].get("key") or "?")
        return out

    seen_locals = set()

    def walk(t, depth=0, field=None):
        if not isinstance(t, tuple) or depth > 12:
            return
        if t[0] == "call":
            k = t[1]
            tail = k.rsplit("::", 1)[-1]
            if k == SEARCH + "search_negamax":
                has_search[0] = True
                return
            if tail not in allowed_tail:
                foreign.append(k)
            # `opt.and_then(|it| it.root.mv)`: the closure takes one field of the payload - only that field's sources count
            sub = field
            cls_ = [a_ for a_ in t[2] if a_[0] == "agg" and a_[1] == "closure"]
            if tail in ("and_then", "map", "map_or", "filter", "is_some_and") and len(cls_) == 1 and prog.fns.get(cls_[0][2]):
                g = prog.fns[cls_[0][2]]
                names = set()
                for blk in g["blocks"]:
                    pls = [s_["rv"]["place"] for s_ in blk["stmts"] if "place" in s_["rv"]] + [a2["pl"] for s_ in blk["stmts"] for a2 in s_["rv"].get("a", []) if a2.get("k") in ("copy", "move")]
                    pls += [a2["pl"] for a2 in (blk["term"].get("args") or []) if a2.get("k") in ("copy", "move")]
                    for pl in pls:
                        if pl["l"] == 2:
                            nm = [e.get("name") for e in pl["p"] if isinstance(e, dict) and e.get("name")]
                            names.add(nm[0] if nm else None)
                if len(names) == 1 and None not in names:
                    sub = names.pop()
            for i_, a_ in enumerate(t[2]):
                walk(a_, depth + 1, field=sub if i_ == 0 else None)
        elif t[0] == "agg":
            if t[1] == "closure":
                for ck in closure_calls(t[2]):
                    if ck.rsplit("::", 1)[-1] not in allowed_tail:
                        foreign.append(ck)
            if field is not None and t[1] == "adt":
                adt = prog.adts.get(str(t[2]).rsplit("::", 1)[0])
                vn = str(t[2]).rsplit("::", 1)[-1]
                names_ = next(([fl.get("name") for fl in v.get("fields", [])] for v in (adt or {}).get("variants", []) if v.get("name") == vn), None)
                if names_ and field in names_ and names_.index(field) < len(t[3]):
                    walk(t[3][names_.index(field)], depth + 1)
                    return
            for a_ in t[3]:
                walk(a_, depth + 1, field=field if str(t[2]).endswith(("Option::Some", "Result::Ok")) else None)
        elif t[0] == "local":
            if (t[1], field) in seen_locals:
                return
            seen_locals.add((t[1], field))
            for dfn in ex.defs.get(t[1], ()):
                if dfn[0] == "stmt":
                    rv_ = dfn[3]
                    if field is not None and rv_.get("op") == "agg" and field in (rv_.get("fields") or []):
                        # one field of a struct that bundles the accepted iteration's results: only what went into
                        # that field
                        walk(ex.operand(rv_["a"][rv_["fields"].index(field)]), depth + 1)
                        continue
                    walk(ex.rvalue(dfn[3]), depth + 1, field=field if rv_.get("op") in ("use", "agg") else None)
                elif dfn[0] == "call":
                    tt = dfn[3]
                    walk(("call", tt["callee"].get("key") or "?", tuple(ex.operand(a_) for a_ in tt["args"]), ""), depth + 1)
        elif t[0] == "f":
            walk(t[1], depth + 1, field=t[2] if isinstance(t[2], str) and not t[2].isdigit() else field)
        elif t[0] in ("*", "&", "dc", "cast", "un", "discr"):
            walk(t[1] if t[0] != "cast" and t[0] != "un" else t[2], depth + 1, field=field if t[0] in ("*", "&", "dc") else None)
        elif t[0] == "bin":
            walk(t[2], depth + 1)
            walk(t[3], depth + 1)
    walk(first)
    ok = has_search[0] and not foreign
    ctx.ob(rid, "best_move|answer-comes-from-the-search-only", ok,
           "" if ok else ("the move returned by Search::best_move also comes from %s: a source of moves whose legality the search's make / is_valid filter has not established (a pseudo-legal move can be announced for a stalemated or pinned position)" % sorted(set(x.rsplit("::", 1)[-1] for x in foreign)) if foreign else "the returned move does not derive from search_negamax"),
           ctx.where(f, s["line"]), sample={"expression": show(first)[:160]})


_run_before_r10 = run


def run(ctx):
    _run_before_r10(ctx)
    r10_answer_provenance(ctx)


def r11_searchmoves_match_the_whole_move(ctx):
    """a generated move is kept by `searchmoves` only if it equals a listed move - promotion piece included"""
    rid = "C07.R11"
    ctx.rule(rid, "filter_search_moves keeps a generated move only when it equals a listed move in source, target and promotion piece: either by comparing whole UciMoves (move_into_uci_move + contains / ==) or field by field including the promotion", floor=1)
    prog = ctx.prog
    ctx.fn(rid, SEARCH + "filter_search_moves", positional=False)
    keys = [k for k in sorted(prog.fns) if k == SEARCH + "filter_search_moves" or k.startswith(SEARCH + "filter_search_moves::")]
    calls, fields = set(), set()
    where = None
    for k in keys:
        g = prog.fns[k]
        for bb in g["blocks"]:
            if bb["cleanup"]:
                continue
            t = bb["term"]
            if t["k"] == "call":
                calls.add((t["callee"].get("key") or "").rsplit("::", 1)[-1] if not (t["callee"].get("key") or "").startswith("inkayaku_") else (t["callee"].get("key") or ""))
                where = where or (g, t["line"])
            places = [s["rv"]["place"] for s in bb["stmts"] if "place" in s["rv"]] + [a["pl"] for s in bb["stmts"] for a in s["rv"].get("a", []) if a.get("k") in ("copy", "move")]
            for pl in places:
                for e in pl.get("p", []):
                    if isinstance(e, dict) and e.get("name") in ("source", "target", "promote_to"):
                        fields.add(e["name"])
    whole = any(c.endswith("move_into_uci_move") for c in calls) and ({"contains", "eq", "ne"} & calls)
    squares = ({"source", "target"} <= fields) or any(c.endswith("Move::get_source_square") for c in calls)
    promo = "promote_to" in fields or any(c.endswith("Move::get_promotion_piece") for c in calls)
    g, line = where if where else (prog.fns[keys[0]], None)
    if whole:
        ctx.ob(rid, "filter|whole-move-compared", True, "", ctx.where(g, line), sample={"via": "move_into_uci_move + contains/=="})
    elif squares and not promo:
        ctx.ob(rid, "filter|whole-move-compared", False,
               "filter_search_moves matches generated moves against the searchmoves list on the squares only: naming one promotion (searchmoves e7e8n) lets all four promotions on those squares through, and the engine answers with one that was not listed (e7e8q)",
               ctx.where(g, line))
    elif squares and promo:
        ctx.ob(rid, "filter|whole-move-compared", True, "", ctx.where(g, line), sample={"via": "field by field, promotion included"})
    else:
        ctx.lost(rid, "how filter_search_moves compares a generated move with the listed moves")


_run_before_r11 = run


def run(ctx):
    _run_before_r11(ctx)
    r11_searchmoves_match_the_whole_move(ctx)
