"""C07 structural rules R2-R3: who may announce a best move; one go per UciGo; no nested search."""
from ..cfg import Cfg
from ..expr import Exprs, show, leaves
from ..callgraph import CallGraph, call_sites
from .common import SEARCH, UCITX, count_calls_on_paths


def run(ctx):
    prog = ctx.prog
    rid = "C07.R2"
    ctx.rule(rid, "UciTx::best_move is called only by Search::go (transmitter implementations may forward it)", floor=1)
    impl_methods = {m["fn"] for i in prog.impls if i.get("trait") == "inkayaku_uci::uci::UciTx" for m in i["methods"].values()}
    callers = set()
    for caller, b, t in call_sites(prog, lambda k, o, c: o == UCITX + "best_move" or (k in impl_methods and k.endswith("::best_move"))):
        f = prog.fns[caller]
        if f.get("test") or caller in impl_methods:
            continue
        callers.add(caller)
    ok = callers == {SEARCH + "go"}
    ctx.ob(rid, "only-go-announces", ok, "" if ok else "best_move is announced by %s (expected only Search::go)" % sorted(callers), "", sample={"callers": sorted(callers)})
    rid = "C07.R3"
    ctx.rule(rid, "Search::idle starts exactly one search per UciGo message; nothing reachable from a running search starts another one", floor=3)
    f = ctx.fn(rid, SEARCH + "idle")
    cfg, ex = Cfg(f), Exprs(f)
    gos = [b for b in sorted(cfg.reach) if f["blocks"][b]["term"]["k"] == "call" and f["blocks"][b]["term"]["callee"].get("key") == SEARCH + "go"]
    recvs = [b for b in sorted(cfg.reach) if f["blocks"][b]["term"]["k"] == "call" and (f["blocks"][b]["term"]["callee"].get("key") or "").endswith("Receiver::recv")]
    ok = len(gos) == 1 and len(recvs) == 1 and cfg.dominates(recvs[0], gos[0])
    # between two go calls a recv must happen: removing the recv block, go cannot reach itself
    if ok:
        ok = gos[0] not in cfg.reachable_from(f["blocks"][gos[0]]["term"]["target"], avoid={recvs[0]})
    ctx.ob(rid, "one-go-per-message", ok, "" if ok else "Search::idle: go calls %s, recv calls %s (a go must follow exactly one received message)" % (gos, recvs), ctx.where(f))
    # the go arm is the UciGo variant of the message
    variant_ok = False
    if gos:
        adt = prog.adts.get("inkayaku_engine_core::engine::search::SearchMessage")
        names = [v["name"] for v in adt["variants"]] if adt else []
        for (a, sb) in cfg.control_deps_transitive(gos[0]):
            sw = f["blocks"][a]["term"]
            if sw["k"] == "switch" and len(sw["targets"]) >= 4:
                vals = [v for v, tb in sw["targets"] if tb == sb]
                if len(vals) == 1 and vals[0] < len(names) and names[vals[0]] == "UciGo":
                    variant_ok = True
    ctx.ob(rid, "go-on-UciGo", variant_ok, "" if variant_ok else "the search is not started by the UciGo arm of the message match", ctx.where(f))
    if not hasattr(ctx, "_cg"):
        ctx._cg = CallGraph(prog)
    cg = ctx._cg
    below, _ = cg.reachable([SEARCH + "best_move", SEARCH + "check_messages", SEARCH + "reset_for_go"])
    ok = SEARCH + "go" not in below and SEARCH + "idle" not in below
    ctx.ob(rid, "no-nested-search", ok, "" if ok else "a running search can reach Search::go / idle again (nested search -> second bestmove)", ctx.where(prog.fns[SEARCH + "check_messages"]),
           sample={"functions_below_a_running_search": len(below)})


    # ---- R5: answers respect searchmoves
    rid = "C07.R5"
    ctx.rule(rid, "the root cannot answer from a transposition entry computed under different searchmoves: the table is cleared before the first search of every go, or the root filter precedes the table probe", floor=1)
    bm = ctx.fn(rid, SEARCH + "best_move")
    bcfg = Cfg(bm)
    clears = [b for b in sorted(bcfg.reach) if bm["blocks"][b]["term"]["k"] == "call" and (bm["blocks"][b]["term"]["callee"].get("key") or "").endswith("TranspositionTable>::clear")]
    searches = [b for b in sorted(bcfg.reach) if bm["blocks"][b]["term"]["k"] == "call" and bm["blocks"][b]["term"]["callee"].get("key") == SEARCH + "search_negamax"]
    cleared = bool(searches) and all(any(bcfg.dominates(c, sb) and not bcfg.in_loop(c) for c in clears) for sb in searches)
    go = prog.fns.get(SEARCH + "go")
    if go and not cleared:
        gcfg = Cfg(go)
        gclears = [b for b in sorted(gcfg.reach) if go["blocks"][b]["term"]["k"] == "call" and (go["blocks"][b]["term"]["callee"].get("key") or "").endswith("TranspositionTable>::clear")]
        gbm = [b for b in sorted(gcfg.reach) if go["blocks"][b]["term"]["k"] == "call" and go["blocks"][b]["term"]["callee"].get("key") == SEARCH + "best_move"]
        cleared = bool(gbm) and all(any(gcfg.dominates(c, x) for c in gclears) for x in gbm)
    ng = ctx.fn(rid, SEARCH + "search_negamax")
    ncfg = Cfg(ng)
    probes = [b for b in sorted(ncfg.reach) if ng["blocks"][b]["term"]["k"] == "call" and (ng["blocks"][b]["term"]["callee"].get("key") or "").endswith("TranspositionTable>::get")]
    filters = [b for b in sorted(ncfg.reach) if ng["blocks"][b]["term"]["k"] == "call" and ng["blocks"][b]["term"]["callee"].get("key") == SEARCH + "filter_search_moves"]
    filtered_first = bool(probes) and bool(filters) and all(any(ncfg.dominates(fb, pb) for fb in filters) for pb in probes)
    ok = cleared or filtered_first
    ctx.ob(rid, "searchmoves-vs-transposition-table", ok,
           "" if ok else "search_negamax probes the transposition table at the root before the searchmoves filter, and the table is not cleared at the start of every go: an entry stored by an earlier search of the same position answers with a move outside searchmoves",
           ctx.where(bm), sample={"table_cleared_per_go": cleared, "filter_precedes_probe": filtered_first})
