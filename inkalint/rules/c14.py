"""C14 — SAN output is standard, unambiguous and round-trips through the SAN parser."""
from .common import BB
from ..cfg import Cfg
from ..expr import Exprs, show, leaves
from ..slice import Slicer
from .. import balance as B

SCOPE = "engine"
LEVEL = "other"
EXPLANATION = (
    "Static analysis of the resolved MIR. R1: in the SAN writer, the branch that selects the '#' suffix must depend "
    "(backward slice over data and control dependence) on an in-check test evaluated while the move is made; "
    "'no legal reply' alone also describes stalemate. R2: the piece and promotion letters the writer can emit are "
    "the letters the SAN reader maps back to the same piece constants; castling strings agree. R3: the reader "
    "returns Ok only on the branch where exactly one legal candidate remains. Decided: these necessary "
    "conditions; not decided: minimal disambiguation (the confirmed Nd2/Nd2 defect is a missing input to a "
    "decision table and is neither reported nor claimed).")

CHECKS = (BB + "is_current_in_check", BB + "is_in_check", BB + "_is_in_check_by_bits")


def r1_mate_needs_check(ctx):
    rid = "C14.R1"
    ctx.rule(rid, "the selection of the '#' suffix depends on an in-check test made after the move (mate = check and no legal reply)", floor=1)
    f = ctx.fn(rid, BB + "uci_to_pgn")
    cfg = Cfg(f)
    sl = Slicer(f)
    hash_blocks = []
    for b in sorted(cfg.reach):
        for s in f["blocks"][b]["stmts"]:
            for a in s["rv"].get("a", []):
                if a.get("k") == "const" and a.get("v") == "#":
                    hash_blocks.append((b, s["line"]))
    if not hash_blocks:
        ctx.lost(rid, "uci_to_pgn: no statement uses the constant \"#\"")
        return
    makes = [b for b in cfg.reach if f["blocks"][b]["term"]["k"] == "call" and f["blocks"][b]["term"]["callee"].get("key") == B.MAKE]
    unmakes = [b for b in cfg.reach if f["blocks"][b]["term"]["k"] == "call" and f["blocks"][b]["term"]["callee"].get("key") == B.UNMAKE]
    for b, line in hash_blocks:
        _, calls = sl.backward([], [b])
        names = [(cb, t["callee"].get("key")) for cb, t in calls]
        chk = [(cb, k) for cb, k in names if k in CHECKS]
        # evaluated on the position after the move: dominated by a make, and some unmake is reachable from it
        after = [(cb, k) for cb, k in chk if any(cfg.dominates(m, cb) for m in makes) and any(u in cfg.reachable_from(cb) for u in unmakes)]
        ok = bool(after)
        ctx.ob(rid, "uci_to_pgn|hash-suffix-depends-on-check", ok,
               "" if ok else "the '#' suffix is selected without consulting an in-check test on the position after the move (its slice reaches only: %s); a stalemating move is then written as mate"
               % sorted({(k or "?").rsplit("::", 1)[-1] for _, k in names}),
               ctx.where(f, line), sample={"slice_calls": sorted({(k or "?").rsplit("::", 1)[-1] for _, k in names}), "check_calls_after_move": [k for _, k in after]})
    # '+' likewise (sibling): must depend on the check test
    for b in sorted(cfg.reach):
        for s in f["blocks"][b]["stmts"]:
            for a in s["rv"].get("a", []):
                if a.get("k") == "const" and a.get("v") == "+":
                    _, calls = sl.backward([], [b])
                    ok = any(t["callee"].get("key") in CHECKS for _, t in calls)
                    ctx.ob(rid, "uci_to_pgn|plus-suffix-depends-on-check", ok, "" if ok else "the '+' suffix does not depend on an in-check test", ctx.where(f, s["line"]))


def r1b_check_test_unconditional(ctx):
    """'+' / '#' are decided by the in-check test on every written move"""
    rid = "C14.R1"
    f = ctx.fn(rid, BB + "uci_to_pgn")
    cfg = Cfg(f)
    makes = [b for b in cfg.reach if f["blocks"][b]["term"]["k"] == "call" and f["blocks"][b]["term"]["callee"].get("key") == B.MAKE]
    checks = {b for b in cfg.reach if f["blocks"][b]["term"]["k"] == "call" and f["blocks"][b]["term"]["callee"].get("key") in CHECKS and any(cfg.dominates(m, b) for m in makes)}
    oks = []
    for b in sorted(cfg.reach):
        if f["blocks"][b]["cleanup"]:
            continue
        for s in f["blocks"][b]["stmts"]:
            d = s["dst"]
            if d is not None and d["l"] == 0 and not d["p"] and s["rv"]["op"] == "agg" and s["rv"].get("variant") == "Ok":
                oks.append((b, s["line"]))
    if not checks or not oks:
        ctx.lost(rid, "uci_to_pgn: in-check test after the move / Ok exits")
        return
    bad = []
    for b, line in oks:
        seen, work = set(), [0]
        hit = False
        while work:
            x = work.pop()
            if x in seen or x in checks:
                continue
            seen.add(x)
            if x == b:
                hit = True
                break
            work.extend(y for y in cfg.succ[x] if not f["blocks"][y]["cleanup"])
        if hit:
            bad.append(line)
    ctx.ob(rid, "uci_to_pgn|check-test-on-every-written-move", not bad,
           "" if not bad else "uci_to_pgn can write a move without having tested whether the opponent is in check after it (the test is skipped for some kinds of move): a discovered check by such a move is written without '+' / '#'",
           ctx.where(f, bad[0] if bad else None), sample={"ok_exits": len(oks)})


def run(ctx):
    r1_mate_needs_check(ctx)
    r1b_check_test_unconditional(ctx)
    from . import c14_struct
    c14_struct.run(ctx)
