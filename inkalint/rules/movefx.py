"""Per-move-kind effects of make / unmake / zobrist_xor, extracted from ALL paths of the (loop-free) functions.

make / unmake:   for every path, the list of placement effects (player role, piece, square, set|clear)
zobrist_xor:     for every path, the multiset of key toggles of the full delta and of the pawn delta
Used by C02.R6 (make vs. the rules), C03.R6 (unmake inverts make), C06.R5 (hash delta = placement change)."""
from ..cfg import Cfg
from ..expr import Exprs, PathEval, fold, Unfoldable, show, leaves, subst
from ..paths import returning_paths, NotLoopFree
from . import movefields as MF

B = "inkayaku_board::board::"
BB = B + "Bitboard::"
PS = B + "PlayerState::"
Z = B + "zobrist::Zobrist::"


class FxError(Exception):
    pass


def ACCESSOR(key):
    """calls that hand out a reference into a PlayerState without changing it"""
    return key.startswith(PS) and key.endswith("_ref")


def strip_cast(t):
    while t[0] == "cast":
        t = t[2]
    return t


def shift_norm(t):
    """square shift expression -> (base tree or None, integer offset)"""
    t = strip_cast(t)
    if t[0] == "c" and isinstance(t[1], int):
        return (None, t[1])
    if t[0] == "bin" and t[1] in ("Add", "Sub"):
        a, b = strip_cast(t[2]), strip_cast(t[3])
        if b[0] == "c" and isinstance(b[1], int):
            base, off = shift_norm(a)
            return (base, off + (b[1] if t[1] == "Add" else -b[1]))
        if a[0] == "c" and isinstance(a[1], int) and t[1] == "Add":
            base, off = shift_norm(b)
            return (base, off + a[1])
    return (t, 0)


def mask_norm(t):
    """square mask expression -> normalised shift (base, offset), or None when it is not a single-square mask"""
    t = strip_cast(t)
    if t[0] == "c" and isinstance(t[1], int) and t[1] > 0 and t[1] & (t[1] - 1) == 0:
        return (None, t[1].bit_length() - 1)
    if t[0] == "bin" and t[1] in ("Shl", "Shr"):
        a, b = strip_cast(t[2]), strip_cast(t[3])
        if a[0] == "c" and a[1] == 1 and t[1] == "Shl":
            return shift_norm(b)
        inner = mask_norm(a)
        if inner is not None and b[0] == "c" and isinstance(b[1], int):
            return (inner[0], inner[1] + (b[1] if t[1] == "Shl" else -b[1]))
    if t[0] == "call" and t[1].endswith("square_mask_from_shift"):
        return shift_norm(t[2][0])
    if t[0] == "param":
        return (t, 0)   # a mask parameter of a helper (make_castle): substituted at the call site
    return None


def piece_norm(prog, t, accessor_index):
    """piece expression -> ('const', k) | ('getter', name)"""
    t = strip_cast(t)
    if t[0] == "c" and isinstance(t[1], int):
        return ("const", t[1])
    if t[0] == "call" and t[1].startswith(MF.MOVE + "get_"):
        return ("getter", t[1].rsplit("::", 1)[-1])
    if t[0] == "param":
        return ("param", t[1])
    return ("expr", show(t))


def accessor_indices(prog):
    """PlayerState::<x>_ref / <x> accessor -> occupancy index it addresses"""
    from ..expr import Inliner
    inl = Inliner(prog, only=lambda k: k.startswith(PS))
    out = {}
    for k in prog.fns:
        if k.startswith(PS) and k.count("::") == PS.count("::"):
            sm = inl.summary(k)
            if sm is None:
                continue
            for x in leaves(sm):
                if x[0] == "idx" and x[1][0] == "f" and x[1][2] == "occupancy":
                    try:
                        out[k] = fold(x[2])
                    except Unfoldable:
                        pass
    return out


def _peel(val, place):
    """value written to `place` -> list of ('set'|'clear', mask tree) applied to the old value, or None"""
    if val == place:
        return []
    if val[0] == "bin" and val[1] in ("BitAnd", "BitOr"):
        for x, m in ((val[2], val[3]), (val[3], val[2])):
            inner = _peel(x, place)
            if inner is None:
                continue
            if val[1] == "BitOr":
                return inner + [("set", m)]
            if m[0] == "un" and m[1] == "Not":
                return inner + [("clear", m[2])]
    return None


def placement_effects(prog, f, pe, acc_idx, helper_fx=None, role_of=None):
    """effects of one path: [(role key, piece, square, op)] in program order"""
    out = []
    # writes through accessor places
    final = {}
    order = []
    for place, val, b in pe.writes:
        if place[0] == "*" and place[1][0] == "call" and place[1][1].startswith(PS) and place[1][1].endswith("_ref"):
            if place not in final:
                order.append((place, b))
            final[place] = val
    events = []
    for place, b in order:
        acc = place[1]
        player = acc[2][0]
        if acc[1] == PS + "occupancy_ref":
            piece = piece_norm(prog, acc[2][1], acc_idx)
        else:
            k = acc_idx.get(acc[1])
            if k is None:
                raise FxError("accessor %s does not resolve to an occupancy index" % acc[1])
            piece = ("const", k)
        ops = _peel(final[place], place)
        if ops is None:
            raise FxError("write to %s is not a sequence of set/clear operations: %s" % (show(place), show(final[place])[:120]))
        for op, m in ops:
            sq = mask_norm(m)
            if sq is None:
                raise FxError("mask %s is not a single-square mask" % show(m)[:100])
            events.append((b, (role_of(player) if role_of else player, piece, sq, op)))
    # helper calls (make_castle / unmake_castle)
    for b, t in pe.calls:
        if t[0] == "call" and helper_fx and t[1] in helper_fx:
            for (pidx, piece, sqparam, op) in helper_fx[t[1]]:
                player = t[2][pidx - 1]
                sq = mask_norm(t[2][sqparam - 1])
                if sq is None:
                    raise FxError("castle helper argument %s is not a single-square mask" % show(t[2][sqparam - 1])[:100])
                events.append((b, (role_of(player) if role_of else player, piece, sq, op)))
    return [e for _, e in sorted(events, key=lambda x: 0)]


def helper_effects(prog, acc_idx):
    """effects of make_castle / unmake_castle in terms of their parameters: {fn: [(player param, piece, square param, op)]}"""
    out = {}
    for name in ("make_castle", "unmake_castle"):
        f = prog.fns.get(BB + name)
        if f is None:
            continue
        try:
            pes = returning_paths(f, keep_mem=ACCESSOR)
        except NotLoopFree:
            continue
        if len(pes) != 1:
            continue
        pe = pes[0]
        fx = placement_effects(prog, f, pe, acc_idx, helper_fx=out if name == "unmake_castle" else None)
        res = []
        ok = True
        for (player, piece, sq, op) in fx:
            pl = player
            while pl[0] in ("&", "*"):
                pl = pl[1]
            base, off = sq
            if pl[0] == "param" and base is not None and base[0] == "param" and off == 0:
                res.append((pl[1], piece, base[1], op))
            else:
                ok = False
        if ok and res:
            out[BB + name] = res
    return out


def role_resolver(f):
    """maps the tuple elements of get_active_and_passive_mut to 'mover' / 'opponent'"""
    cfg = Cfg(f)
    flip_b = players_b = None
    for b in sorted(cfg.reach):
        for s in f["blocks"][b]["stmts"]:
            d = s["dst"]
            if d is not None and d["p"] and isinstance(d["p"][-1], dict) and d["p"][-1].get("name") == "turn":
                flip_b = b if flip_b is None else flip_b
        t = f["blocks"][b]["term"]
        if t["k"] == "call" and (t["callee"].get("key") or "").endswith("get_active_and_passive_mut"):
            players_b = b if players_b is None else players_b
    if flip_b is None or players_b is None:
        return None
    flipped = cfg.dominates(flip_b, players_b)
    is_make = f["key"].endswith("::make")
    # make is entered with turn = mover, unmake with turn = opponent
    mover_idx = ("1" if flipped else "0") if is_make else ("0" if flipped else "1")

    def role(player):
        pl = player
        while pl[0] in ("&", "*"):
            pl = pl[1]
        if pl[0] == "f" and pl[1][0] == "call" and pl[1][1].endswith("get_active_and_passive_mut"):
            return "mover" if pl[2] == mover_idx else "opponent"
        return "?" + show(pl)[:40]
    return role


def classify_conds(prog, pe, white_atoms):
    """move-kind class of a make/unmake/xor path and the equalities it has established"""
    kind = {"castle": None, "ep": None, "promo": None, "target": None, "white": None}
    eqs = {}
    for (d, c, b, ty) in pe.conds:
        truth = c != ("in", (0,))
        d0 = d
        if d0[0] == "call" and d0[1] == MF.MOVE + "is_castle_move":
            kind["castle"] = truth
        elif d0[0] == "call" and d0[1] == MF.MOVE + "is_en_passant_attack":
            kind["ep"] = truth
        elif d0[0] == "call" and d0[1] == MF.MOVE + "is_promotion":
            kind["promo"] = truth
        elif d0[0] == "call" and d0[1] == MF.MOVE + "get_target_square" and c[0] == "in" and len(c[1]) == 1:
            kind["target"] = c[1][0]
        elif d0 in white_atoms:
            kind["white"] = truth
        elif strip_cast(d0)[0] == "call" and strip_cast(d0)[1] == MF.MOVE + "get_side_to_move" and c[0] in ("in", "notin") and len(c[1]) == 1 and c[1][0] in (0, 1):
            # `match colour { WHITE => .., _ => .. }`: a switch on the recorded side itself (WHITE = 0)
            is_val = c[0] == "in"
            kind["white"] = (c[1][0] == 0) == is_val
        elif d0[0] == "bin" and d0[1] in ("Eq", "Ne"):
            a, bb_ = strip_cast(d0[2]), strip_cast(d0[3])
            cst = a if a[0] == "c" else bb_ if bb_[0] == "c" else None
            oth = bb_ if a[0] == "c" else a
            if cst is not None and oth[0] == "call" and oth[1].startswith(MF.MOVE + "get_"):
                is_eq = (d0[1] == "Eq") == truth
                g = oth[1].rsplit("::", 1)[-1]
                if is_eq:
                    eqs[g] = cst[1]
                else:
                    eqs.setdefault("ne:" + g, set()).add(cst[1])
            if cst is not None and oth in white_atoms_inner(white_atoms):
                pass
    return kind, eqs


def white_atoms_inner(white_atoms):
    return white_atoms


def make_like_table(prog, key, acc_idx, helper_fx):
    """{class: effects} for make or unmake; raises FxError when a class is ambiguous"""
    f = prog.fns[key]
    role = role_resolver(f)
    if role is None:
        raise FxError("turn flip / get_active_and_passive_mut not found in %s" % key)
    try:
        pes = returning_paths(f, limit=100000, keep_mem=ACCESSOR)
    except (NotLoopFree, OverflowError) as e:
        raise FxError("%s: %s" % (key, e))
    # the side-to-move atom: a local assigned from is_white_turn(self) at entry
    white_atoms = {("call", BB + "is_white_turn", (("param", 1),), "board::Bitboard::is_white_turn")}
    table = {}
    for pe in pes:
        wa = set(white_atoms)
        for (d, c, b, ty) in pe.conds:
            if d[0] == "call" and d[1] == BB + "is_white_turn":
                wa.add(d)
        kind, eqs = classify_conds(prog, pe, wa)
        if kind["castle"]:
            cls = ("castle", kind["target"])
        elif kind["ep"]:
            cls = ("ep", "white" if kind["white"] else "black")
        elif kind["promo"]:
            cls = ("promo",)
        else:
            cls = ("normal",)
        fx = placement_effects(prog, f, pe, acc_idx, helper_fx=helper_fx, role_of=role)
        fxs = sorted(fx, key=repr)
        if cls in table and table[cls] != fxs:
            raise FxError("%s: two paths of move kind %s have different placement effects: %s vs %s" % (key, cls, table[cls], fxs))
        table[cls] = fxs
    return table, len(pes)


def xor_terms(t):
    """flatten an XOR chain into a list of terms"""
    t = strip_cast(t)
    if t[0] == "bin" and t[1] == "BitXor":
        return xor_terms(t[2]) + xor_terms(t[3])
    return [t]


def cancel(terms):
    out = []
    for t in terms:
        if t in out:
            out.remove(t)
        else:
            out.append(t)
    return out


def xor_table(prog, acc_idx, fn=None):
    """paths of zobrist_xor: [(kind, equalities, full toggles, pawn toggles)] with toggles normalised to
    ('piece', role, piece, square) | ('right', role, side) | ('ep', getter) | ('side',).
    With `fn` (a function of a Move returning one hash): the same for that function, its value in both slots."""
    f = fn if fn is not None else prog.fns[BB + "zobrist_xor"]
    try:
        pes = returning_paths(f, limit=200000)
    except (NotLoopFree, OverflowError) as e:
        raise FxError("zobrist_xor: %s" % e)
    SIDE = ("call", MF.MOVE + "get_side_to_move")
    consts = {n: prog.const_value(B + "constants::" + n) for n in ("WHITE", "QUEEN", "KING", "NO_SQUARE")}
    side_key = prog.const_value(Z + "BLACK_TO_MOVE_HASH")

    def role_of_colour(t):
        t = strip_cast(t)
        if t[0] == "call" and t[1] == MF.MOVE + "get_side_to_move":
            return "mover"
        if t[0] == "call" and t[1].endswith("::opposite_color") and role_of_colour(t[2][0]) == "mover":
            return "opponent"
        return "?" + show(t)[:40]

    def norm_term(t):
        t = strip_cast(t)
        if t[0] == "c" and t[1] == 0:
            return None
        if t[0] == "c" and t[1] == side_key:
            return ("side",)
        if t[0] == "call" and t[1] == Z + "piece_square_hash":
            return ("piece", role_of_colour(t[2][2]), piece_norm(prog, t[2][0], acc_idx), shift_norm(t[2][1]))
        if t[0] == "call" and t[1] == Z + "castle_hash":
            side = strip_cast(t[2][0])
            role_ = role_of_colour(t[2][1]) if len(t[2]) > 1 else "?"
            flag_ = {consts["QUEEN"]: "queen_side_castle", consts["KING"]: "king_side_castle"}.get(side[1] if side[0] == "c" else None, "?")
            if role_.startswith("?") or flag_ == "?":
                return ("?", show(t)[:120])     # (arguments in another order / of another type: not read; kept distinct so that two of them do not cancel)
            return ("right", role_, flag_)
        if t[0] == "call" and t[1] == Z + "en_passant_square_hash":
            a = strip_cast(t[2][0])
            return ("ep", a[1].rsplit("::", 1)[-1] if a[0] == "call" else show(a))
        return ("?", show(t)[:80])
    out = []
    for pe in pes:
        r = pe.ret()
        if fn is not None:
            r = ("agg", "tuple", "", (r, r))
        if not (r[0] == "agg" and r[1] == "tuple" and len(r[3]) == 2):
            raise FxError("zobrist_xor does not return a pair")
        full = cancel([x for x in (norm_term(t) for t in xor_terms(r[3][0])) if x is not None])
        pawn = cancel([x for x in (norm_term(t) for t in xor_terms(r[3][1])) if x is not None])
        white_atoms = set()
        for (d, c, b, ty) in pe.conds:
            if d[0] == "bin" and d[1] == "Eq":
                a, bb_ = strip_cast(d[2]), strip_cast(d[3])
                if any(x[0] == "c" and x[1] == consts["WHITE"] and (x[3] or "").endswith("WHITE") for x in (a, bb_)) and any(x[0] == "call" and x[1] == MF.MOVE + "get_side_to_move" for x in (a, bb_)):
                    white_atoms.add(d)
        kind, eqs = classify_conds(prog, pe, white_atoms)
        preds = {}
        for (d, c, b, ty) in pe.conds:
            if d[0] == "call" and d[1].startswith(MF.MOVE + "is_") and "lost" in d[1]:
                preds[d[1].rsplit("::", 1)[-1]] = c != ("in", (0,))
        out.append((kind, eqs, full, pawn, preds))
    return out, len(pes)


def base_name_sq(sq):
    """(getter name | None, offset) of a normalised square"""
    b, off = sq
    if b is None:
        return (None, off)
    if isinstance(b, str):
        return (b, off)
    return (b[1].rsplit("::", 1)[-1] if b[0] == "call" else show(b), off)


def compatible_paths(a, b):
    """can one move satisfy the conditions of both paths? a, b = (kind, eqs, ...) as produced by xor_table"""
    ka, ea = a[0], a[1]
    kb, eb = b[0], b[1]
    for k in ("castle", "ep", "promo", "white", "target"):
        if ka.get(k) is not None and kb.get(k) is not None and ka[k] != kb[k]:
            return False
    for g, v in ea.items():
        if g.startswith("ne:"):
            if g[3:] in eb and eb[g[3:]] in v:
                return False
        else:
            if g in eb and eb[g] != v:
                return False
            if "ne:" + g in eb and v in eb["ne:" + g]:
                return False
    pa, pb = a[4], b[4]
    for n, v in pa.items():
        if n in pb and pb[n] != v:
            return False
    return True
