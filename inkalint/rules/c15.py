"""C15 — UCI command text is parsed faithfully and never crashes the reader."""
from .common import run_panic_inventory

SCOPE = "engine"
LEVEL = "other"
PANIC_PROFILES = True
EXPLANATION = (
    "Static analysis of the resolved MIR. R1: panic-site inventory of everything reachable from "
    "CommandParser::{new,parse}, UciMove::from_str and UciMove::fmt (call graph over resolved callees, closures and "
    "lazy_static initialisers included): every Assert terminator (overflow, bounds, division), every panic!/unwrap/"
    "index/RefCell API call must fold to 'cannot fail', or carry a reviewed guard argument keyed by exact site. "
    "R2-R6: dispatch keyword set, GO_TOKENS vs. arms, field pairing, duplicate detection, move text. Decided: "
    "'no input line makes the parser panic' up to the reviewed guard arguments and the assumed-total extern "
    "callees listed in the evidence; the structural clauses of faithful parsing. Not decided: numeric value faithfulness.")

P = "inkayaku_uci::uci::parser::CommandParser::"


def entries(prog):
    return [P + "new", P + "parse", "inkayaku_uci::uci::<UciMove as FromStr>::from_str", "inkayaku_uci::uci::<UciMove as Display>::fmt"]


def run_panics(ctx):
    run_panic_inventory(ctx, "C15.R1", entries(ctx.prog),
                        "no unreviewed panic site (overflow/bounds/div assert, panic!, unwrap, indexing, RefCell) is reachable from the UCI command parser and the move parser",
                        fn_floor=45, site_floor=12, declared_invariants_undecided="asserts")


def run(ctx):
    run_panics(ctx)
    from . import c15_struct
    c15_struct.run(ctx)
