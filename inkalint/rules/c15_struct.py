"""C15 structural rules R2-R6: dispatch keyword set, GO_TOKENS vs. arms, field pairing, duplicate detection, move text."""
import json
from ..cfg import Cfg
from ..expr import Exprs, PathEval, fold, Unfoldable, show, leaves, resolve_promoted
from ..paths import returning_paths, NotLoopFree
from .common import table

P = "inkayaku_uci::uci::parser::CommandParser::"
STR_EQ = "core::str::traits::<str as PartialEq<str>>::eq"


def str_match_arms(f, cfg, ex, subject=None):
    """[(keyword, eq block, arm head block, other block)] for `match s { "kw" => .. }` and for `if s == "kw"`:
    both are lowered to an equality call on strings followed by a switch"""
    from . import common
    from ..expr import resolve_promoted
    out = []
    for b in sorted(cfg.reach):
        t = f["blocks"][b]["term"]
        if t["k"] != "call":
            continue
        key = t["callee"].get("key") or ""
        kw = []
        if key == STR_EQ:
            kw = [a.get("v") for a in t["args"] if a.get("k") == "const" and isinstance(a.get("v"), str)]
        elif key.endswith("::eq") and "PartialEq" in key and len(t["args"]) == 2:
            # `&str == &str` (and String == &str ...): the literal sits behind references / a promoted constant
            prog = getattr(common, "CURRENT_PROG", None)
            for a in t["args"]:
                tr = ex.operand(a)
                if prog is not None:
                    tr = resolve_promoted(prog, tr)
                while tr[0] in ("&", "*"):
                    tr = tr[1]
                if tr[0] == "c" and isinstance(tr[1], str) and tr[2] != "char":
                    kw.append(tr[1])
        if len(kw) != 1:
            continue
        nb = t["target"]
        sw = f["blocks"][nb]["term"]
        if sw["k"] == "switch" and len(sw["targets"]) == 1:
            out.append((kw[0], b, sw["otherwise"], sw["targets"][0][1]))
    return out


def arm_region(cfg, head, others):
    return {x for x in cfg.reachable_from(head) if cfg.dominates(head, x)}


def r2_dispatch(ctx):
    rid = "C15.R2"
    ctx.rule(rid, "the first token is compared with exactly the 11 UCI command words; each word leads to the command variant / sub-parser of the same name", floor=12)
    spec = table("spec_uci.json")
    f = ctx.fn(rid, P + "parse_root")
    cfg, ex = Cfg(f), Exprs(f)
    arms = str_match_arms(f, cfg, ex)
    kws = sorted({a[0] for a in arms})       # (a word may be looked at twice: classified for a statistic, then dispatched)
    ok = kws == sorted(spec["gui_to_engine_commands"])
    ctx.ob(rid, "keyword-set", ok, "" if ok else "dispatch keywords %s differ from the UCI command set (missing %s, extra %s)" % (sorted(kws), sorted(set(spec["gui_to_engine_commands"]) - set(kws)), sorted(set(kws) - set(spec["gui_to_engine_commands"]))),
           ctx.where(f), sample={"keywords": sorted(kws)})
    per_kw = {}
    for kw, eqb, head, _ in arms:
        region = arm_region(cfg, head, None)
        acts = []
        for x in sorted(region):
            blk = f["blocks"][x]
            for s in blk["stmts"]:
                rv = s["rv"]
                if rv["op"] == "agg" and rv["kind"] == "adt" and rv["adt"].endswith("::UciCommand"):
                    acts.append(("variant", rv["variant"]))
            t = blk["term"]
            if t["k"] == "call" and (t["callee"].get("key") or "").startswith(P + "parse_"):
                acts.append(("parser", t["callee"]["key"][len(P):]))
        per_kw.setdefault(kw, []).append((acts, eqb))
    for kw, lst in sorted(per_kw.items()):
        # arms of the same word that lead to no command at all (they classify the word for something else) do not count
        acting = [(acts, eqb) for acts, eqb in lst if acts] or lst[:1]
        acts, eqb = acting[0]
        ok = len(acting) == 1 and len(acts) == 1 and ((acts[0][0] == "variant" and acts[0][1].lower() == kw) or (acts[0][0] == "parser" and acts[0][1] == "parse_" + kw))
        ctx.ob(rid, "command|%s" % kw, ok, "" if ok else "the command word %r leads to %s (expected the variant / parse_ function named after it)" % (kw, [a for a, _ in acting]), ctx.where(f, f["blocks"][eqb]["term"]["line"]),
               sample={"keyword": kw, "action": acts})


def r3_r4_r5_go(ctx):
    spec = table("spec_uci.json")
    prog = ctx.prog
    ctx.rule("C15.R3", "GO_TOKENS equals the set of tokens matched in parse_go and the UCI go parameters; searchmoves stops at GO_TOKENS", floor=3)
    ctx.rule("C15.R4", "each go token assigns the Go field the UCI specification pairs with it, through the parser of the right kind", floor=12)
    ctx.rule("C15.R5", "duplicate detection precedes every arm and every accepted token is recorded before the next one is read", floor=2)
    f = ctx.fn("C15.R3", P + "parse_go")
    cfg, ex = Cfg(f), Exprs(f)
    arms = str_match_arms(f, cfg, ex)
    kws = [a[0] for a in arms]
    gt = prog.const_value(P + "GO_TOKENS")
    if not isinstance(gt, list):
        ctx.lost("C15.R3", P + "GO_TOKENS")
        return
    ok = sorted(gt) == sorted(kws) and len(set(gt)) == len(gt)
    if not kws:
        # parse_go does not compare the token with literals itself (it looks the token up in a table and
        # dispatches on the index): the arms are not read here
        ctx.lost("C15.R3", "the tokens parse_go dispatches on (no comparison with a literal found)")
    else:
      ctx.ob("C15.R3", "GO_TOKENS=arms", ok, "" if ok else "GO_TOKENS %s vs. tokens matched in parse_go %s" % (sorted(gt), sorted(kws)), ctx.where(f), sample={"GO_TOKENS": gt})
    ok = sorted(gt) == sorted(spec["go_tokens"])
    ctx.ob("C15.R3", "GO_TOKENS=uci", ok, "" if ok else "GO_TOKENS %s vs. UCI go parameters %s" % (sorted(gt), sorted(spec["go_tokens"])), ctx.where(f))
    go_local = None
    for kw, eqb, head, _ in arms:
        region = arm_region(cfg, head, None)
        writes, helpers, stopset = [], [], None
        for x in sorted(region):
            blk = f["blocks"][x]
            for s in blk["stmts"]:
                d = s["dst"]
                if d is not None and d["p"] and isinstance(d["p"][-1], dict) and (d["p"][-1].get("of") or "").endswith("::Go") and all(e == "deref" for e in d["p"][:-1]):
                    # `go.field = ..` on the local Go, or `(*go).field = ..` through a `&mut Go` handed to a helper
                    writes.append(d["p"][-1]["name"])
                    if len(d["p"]) == 1:
                        go_local = d["l"]
            t = blk["term"]
            if t["k"] == "call":
                k = t["callee"].get("key") or ""
                if k.startswith(P + "parse_"):
                    helpers.append(k[len(P):])
                    if k.endswith("parse_moves_until_one_of_or_end"):
                        a = resolve_promoted(prog, ex.operand(t["args"][1]))
                        for y in leaves(a):
                            if y[0] == "c" and y[3] and y[3].endswith("GO_TOKENS"):
                                stopset = "GO_TOKENS"
                            elif y[0] == "c" and isinstance(y[1], tuple) and stopset is None:
                                stopset = list(y[1])
                if t["dest"]["p"] and isinstance(t["dest"]["p"][-1], dict) and (t["dest"]["p"][-1].get("of") or "").endswith("::Go") and all(e == "deref" for e in t["dest"]["p"][:-1]):
                    writes.append(t["dest"]["p"][-1]["name"])
        want_field = spec["go_fields"].get(kw)
        kind = {"wtime": "parse_duration", "btime": "parse_duration", "winc": "parse_duration", "binc": "parse_duration", "movetime": "parse_duration",
                "movestogo": "parse_u64", "depth": "parse_u64", "nodes": "parse_u64", "mate": "parse_u64", "searchmoves": "parse_moves_until_one_of_or_end"}.get(kw)
        ok = sorted(set(writes)) == [want_field] and (helpers == [kind] if kind else not helpers)
        if not writes:
            ctx.lost("C15.R4", "go token %r: no assignment to a field of Go is visible in its arm (the value is stored some other way)" % kw)
            continue
        ctx.ob("C15.R4", "go|%s" % kw, ok, "" if ok else "go token %r writes field(s) %s via %s (expected field %s via %s)" % (kw, sorted(set(writes)), helpers, want_field, kind or "a constant"),
               ctx.where(f, f["blocks"][eqb]["term"]["line"]), sample={"token": kw, "field": sorted(set(writes)), "parser": helpers})
        if kw == "searchmoves":
            ok = stopset == "GO_TOKENS" or (isinstance(stopset, list) and sorted(stopset) == sorted(gt))
            ctx.ob("C15.R3", "searchmoves-stops-at-GO_TOKENS", ok, "" if ok else "searchmoves reads moves until %s" % (stopset,), ctx.where(f, f["blocks"][eqb]["term"]["line"]))
    # R5
    contains = [b for b in sorted(cfg.reach) if f["blocks"][b]["term"]["k"] == "call" and (f["blocks"][b]["term"]["callee"].get("key") or "").endswith("HashSet::contains")]
    inserts = [b for b in sorted(cfg.reach) if f["blocks"][b]["term"]["k"] == "call" and (f["blocks"][b]["term"]["callee"].get("key") or "").endswith("HashSet::insert")]
    nexts = [b for b in sorted(cfg.reach) if f["blocks"][b]["term"]["k"] == "call" and f["blocks"][b]["term"]["callee"].get("key") == P + "next"]
    if len(contains) != 1 or len(inserts) != 1 or len(nexts) != 1:
        ctx.lost("C15.R5", "one HashSet::contains, one insert and one next() in parse_go (found %d/%d/%d)" % (len(contains), len(inserts), len(nexts)))
        return
    cb, ib, nb = contains[0], inserts[0], nexts[0]
    ok = all(cfg.dominates(cb, eqb) for _, eqb, _, _ in arms)
    # and the duplicate branch (contains == true) returns an error without reaching an arm
    csw = f["blocks"][f["blocks"][cb]["term"]["target"]]["term"]
    dup_arm = csw["otherwise"] if csw["k"] == "switch" else None
    ok = ok and dup_arm is not None and not any(eqb in cfg.reachable_from(dup_arm) - {x for x in cfg.reachable_from(nb)} for _, eqb, _, _ in arms) and nb not in cfg.reachable_from(dup_arm)
    ctx.ob("C15.R5", "duplicate-test-before-every-arm", ok, "" if ok else "the duplicate test does not dominate every token arm, or its positive branch continues parsing", ctx.where(f, f["blocks"][cb]["term"]["line"]))
    bad = [kw for kw, eqb, head, _ in arms if nb in cfg.reachable_from(head, avoid={ib})]
    ctx.ob("C15.R5", "accepted-token-recorded", not bad, "" if not bad else "after accepting %s the next token can be read without recording the token as visited (a repeated parameter would be accepted)" % bad, ctx.where(f, f["blocks"][ib]["term"]["line"]))
    # the token recorded and tested is the token matched
    t_c, t_i = f["blocks"][cb]["term"], f["blocks"][ib]["term"]
    a_c, a_i = ex.operand(t_c["args"][1]), ex.operand(t_i["args"][1])
    def base(t):
        while t[0] in ("&", "*"):
            t = t[1]
        return t
    ok = base(a_c) == base(a_i)
    ctx.ob("C15.R5", "same-token-tested-and-recorded", ok, "" if ok else "contains(%s) but insert(%s)" % (show(a_c), show(a_i)), ctx.where(f))


def r6_move_text(ctx):
    rid = "C15.R6"
    ctx.rule(rid, "Piece::from_char(p.fen) == p for all six pieces; UciMove's Display writes source, target, promotion in the order FromStr reads them", floor=7)
    prog = ctx.prog
    f = ctx.fn(rid, "inkayaku_core::constants::piece::Piece::from_char")
    try:
        pes = returning_paths(f)
    except NotLoopFree:
        ctx.lost(rid, "Piece::from_char has a loop")
        return
    pieces = {k.rsplit("::", 1)[-1]: c["value"] for k, c in prog.consts.items() if k.startswith("inkayaku_core::constants::piece::Piece::") and isinstance(c["value"], dict) and "fen" in c["value"]}
    if len(pieces) != 6:
        ctx.lost(rid, "six Piece constants (found %d)" % len(pieces))
        return
    for name, val in sorted(pieces.items()):
        for ch in (val["fen"], val["fen"].upper()):
            env = {("param", 1): ord(ch)}
            res = None
            for pe in pes:
                good = True
                for (d, c, b, ty) in pe.conds:
                    try:
                        v = fold(d, env)
                    except Unfoldable:
                        good = False
                        break
                    if (v in c[1]) != (c[0] == "in"):
                        good = False
                        break
                if good:
                    res = pe.ret()
            got = None
            if res is not None and res[0] == "agg" and res[2].endswith("Option::Some") and res[3] and res[3][0][0] == "c":
                v = res[3][0][1]
                if isinstance(v, tuple) and v and v[0] == "json":
                    got = json.loads(v[1])
            ok = got == val
            ctx.ob(rid, "from_char(%r)" % ch, ok, "" if ok else "Piece::from_char(%r) yields %s, expected %s" % (ch, got, name), ctx.where(f), sample={"char": ch, "piece": got["name"] if got else None} if ch == "q" else None)
    # Display order
    g = ctx.fn(rid, "inkayaku_uci::uci::<UciMove as Display>::fmt")
    cfg, ex = Cfg(g), Exprs(g)
    order = []
    for b in sorted(cfg.reach):
        t = g["blocks"][b]["term"]
        if t["k"] == "call" and (t["callee"].get("key") or "").startswith("core::fmt::rt::Argument::new_display"):
            a = ex.operand(t["args"][0])
            names = [x[2] for x in leaves(a) if x[0] == "f" and x[2] in ("source", "target", "promote_to")]
            order.append((t["dest"]["l"], names[0] if names else "?"))
    # the argument array fixes the order
    arr = None
    for b in sorted(cfg.reach):
        for s in g["blocks"][b]["stmts"]:
            if s["rv"]["op"] == "agg" and s["rv"]["kind"] == "array" and len(s["rv"]["a"]) == 3:
                arr = [a["pl"]["l"] if a.get("k") in ("copy", "move") else None for a in s["rv"]["a"]]
    seq = [dict(order).get(l, "?") for l in arr] if arr else []
    ok = seq == ["source", "target", "promote_to"]
    if not seq or "?" in seq:
        # Display does not format the three fields through one `write!` argument array (it writes piece by piece)
        ctx.lost(rid, "the order in which UciMove's Display writes its fields")
    else:
      ctx.ob(rid, "display-order", ok, "" if ok else "UciMove is written as %s, FromStr reads source, target, promotion" % seq, ctx.where(g), sample={"written": seq})
    h = ctx.fn(rid, "inkayaku_uci::uci::<UciMove as FromStr>::from_str")
    hcfg, hex_ = Cfg(h), Exprs(h)
    # the Ok aggregate's fields come from the first / second Square::from_chars call and from Piece::from_char
    sq_calls = [b for b in sorted(hcfg.reach) if h["blocks"][b]["term"]["k"] == "call" and (h["blocks"][b]["term"]["callee"].get("key") or "").endswith("Square::from_chars")]
    ok = len(sq_calls) == 2 and hcfg.dominates(sq_calls[0], sq_calls[1])
    agg = None
    for b in sorted(hcfg.reach):
        for s in h["blocks"][b]["stmts"]:
            if s["rv"]["op"] == "agg" and s["rv"]["kind"] == "adt" and s["rv"]["adt"].endswith("::UciMove"):
                agg = (s["rv"], b)
    if agg and ok:
        from ..slice import Slicer
        sl = Slicer(h)
        fields = agg[0]["fields"]
        src = {}
        for name, a in zip(fields, agg[0]["a"]):
            if a.get("k") in ("copy", "move"):
                _, calls = sl.data_backward({a["pl"]["l"]})
                src[name] = [cb for cb, t in calls if cb in sq_calls]
        ok = src.get("source") == [sq_calls[0]] and src.get("target") == [sq_calls[1]]
    if len(sq_calls) != 2 or not agg or not hcfg.dominates(sq_calls[0], sq_calls[1]):
        # not two Square::from_chars calls one after the other feeding one UciMove literal (a helper parses a square,
        # a loop fills both): which characters become which square is not read here
        ctx.lost(rid, "UciMove::from_str: two consecutive Square::from_chars calls feeding the UciMove (found %d)" % len(sq_calls))
    else:
        ctx.ob(rid, "from_str-order", bool(ok), "" if ok else "UciMove::from_str does not take source from the first and target from the second pair of characters", ctx.where(h))


def run(ctx):
    r2_dispatch(ctx)
    r3_r4_r5_go(ctx)
    r6_move_text(ctx)


def r7_numeric_tokens(ctx):
    """a numeric go parameter is accepted only through the integer parser"""
    rid = "C15.R7"
    ctx.rule(rid, "every value-returning path of the numeric token parsers (parse_u64, parse_duration) obtains its value from str::parse of the token; no path accepts a token without parsing it", floor=2)
    from ..paths import returning_paths, NotLoopFree
    prog = ctx.prog
    for name in ("parse_u64", "parse_duration"):
        f = ctx.fn(rid, P + name)
        try:
            pes = returning_paths(f)
        except NotLoopFree:
            ctx.lost(rid, "%s has a loop" % name)
            continue
        bad = []
        n_ok = 0
        for pe in pes:
            r = pe.ret()
            # error exits: `?` residuals and explicit Err(..)
            if r[0] == "call" and r[1].endswith("::from_residual"):
                continue
            if r[0] == "agg" and r[2].endswith("Result::Err"):
                continue
            calls = [x[1] for x in leaves(r) if x[0] == "call"]
            if any(c.endswith("core::str::<str>::parse") for c in calls):
                n_ok += 1
            else:
                bad.append(show(r)[:120])
        ctx.ob(rid, "%s|value-comes-from-parse" % name, not bad and n_ok >= 1,
               "" if not bad and n_ok >= 1 else "%s can return %s without parsing the token as an integer: an ill-typed value is accepted instead of yielding InvalidInt" % (name, bad[:2] or "no parsed value at all"),
               ctx.where(f), sample={"function": name, "paths": len(pes), "value_paths_through_parse": n_ok})


_run_before_r7 = run


def run(ctx):
    _run_before_r7(ctx)
    r7_numeric_tokens(ctx)


def r8_no_truncating_char_casts(ctx):
    """a character of the input is never narrowed before it is classified"""
    rid = "C15.R8"
    ctx.rule(rid, "no function reachable from the command parser or the move-text parser narrows a `char` to an 8/16-bit integer (`c as u8` keeps only the low byte: U+0165 would read as 'e'); the matcher is exercised on every run by a known narrowing cast elsewhere in the workspace", floor=2)
    from ..callgraph import CallGraph
    from ..expr import operand_ty
    prog = ctx.prog
    cg = CallGraph(prog)
    entries = [k for k in ("inkayaku_uci::uci::<UciMove as FromStr>::from_str", "inkayaku_core::constants::square::Square::from_chars",
                           P + "parse", "inkayaku_core::constants::piece::Piece::from_char") if k in prog.fns]
    if len(entries) < 3:
        ctx.lost(rid, "UciMove::from_str / Square::from_chars / CommandParser::parse")
        return
    reach, _ = cg.reachable(entries)
    # the FEN sub-reader is C12's domain (its square text is pre-filtered by the FEN pattern)
    narrow = ("u8", "i8", "u16", "i16")
    sites, control = [], 0
    for k, f in prog.fns.items():
        if not k.startswith("inkayaku_") or f.get("test"):
            continue
        for b in f["blocks"]:
            if b["cleanup"]:
                continue
            for s in b["stmts"]:
                rv = s["rv"]
                if rv["op"] == "cast" and operand_ty(f, rv["a"][0]) == "char" and rv["cast_ty"] in narrow:
                    control += 1
                    if k in reach and not k.startswith("inkayaku_core::fen::") and "fen" not in k.rsplit("::", 1)[-1]:
                        sites.append((k, s["line"], rv["cast_ty"], f))
    ctx.ob(rid, "matcher-control", control >= 1, "" if control >= 1 else "the cast matcher found no narrowing char cast anywhere in the workspace (the known one in square_shift_from_fen_unchecked is gone: re-confirm the matcher)", "")
    seen = set()
    for k, line, ty, f in sites:
        if k in seen:
            continue
        seen.add(k)
        ctx.ob(rid, "narrowing|%s" % k, False, "%s narrows an input character with `as %s`: every code point congruent to the expected letter modulo 256 is accepted as that letter (non-ASCII text is misread instead of rejected)" % (f["display"], ty), ctx.where(f, line))
    ctx.ob(rid, "no-narrowing-cast-in-parsers", not sites, "" if not sites else "%d narrowing cast(s) of input characters" % len(sites), "", sample={"functions_scanned": len(reach), "narrowing_casts_elsewhere": control})


_run_before_r8 = run


def run(ctx):
    _run_before_r8(ctx)
    r8_no_truncating_char_casts(ctx)


def r9_setoption_sections(ctx):
    """setoption: the name runs to the word `value`, the value runs to the end of the line"""
    rid = "C15.R9"
    ctx.rule(rid, "parse_setoption takes the option name up to the token `value` (or the end) and the option value up to the end of the line: the value section is not cut at any keyword, and the name section is cut only at `value`", floor=3)
    f = ctx.fn(rid, P + "parse_setoption")
    cfg, ex = Cfg(f), Exprs(f)
    calls = []
    for b in sorted(cfg.reach):
        t = f["blocks"][b]["term"]
        if t["k"] == "call" and not f["blocks"][b]["cleanup"]:
            k = t["callee"].get("key") or ""
            if k.startswith(P):
                consts = [x[1] for a in t["args"] for x in leaves(ex.operand(a)) if x[0] == "c" and isinstance(x[1], str)]
                calls.append((b, k[len(P):], consts, t["line"]))
    names = [c[1] for c in calls]
    consume_name = [c for c in calls if c[1] == "consume" and c[2] == ["name"]]
    consume_value = [c for c in calls if c[1] == "consume" and c[2] == ["value"]]
    ok = len(consume_name) == 1 and len(consume_value) == 1 and cfg.dominates(consume_name[0][0], consume_value[0][0])
    if not consume_name and not consume_value and not any(c[2] == ["name"] or c[2] == ["value"] for c in calls):
        # the two keywords are not consumed through CommandParser::consume with a literal (renamed helper, a match on
        # the token): not read here
        ctx.lost(rid, "parse_setoption: the consume(\"name\") / consume(\"value\") calls")
        return
    ctx.ob(rid, "keywords", ok, "" if ok else "parse_setoption does not consume `name` and then `value` (calls: %s)" % [(c[1], c[2]) for c in calls], ctx.where(f))
    if not ok:
        return
    vb = consume_value[0][0]
    before = [c for c in calls if c[1].startswith("until") and cfg.dominates(c[0], vb)]
    after = [c for c in calls if c[1].startswith("until") and cfg.dominates(vb, c[0])]
    ok = len(before) == 1 and before[0][1] == "until_token_or_end" and before[0][2] == ["value"]
    ctx.ob(rid, "name-section-ends-at-value", ok,
           "" if ok else "the option name is read with %s: it must run up to the token `value` only (an option name may contain any other word, also `name`)" % [(c[1], c[2]) for c in before],
           ctx.where(f, before[0][3] if before else None), sample={"call": [(c[1], c[2]) for c in before]})
    ok = len(after) == 1 and after[0][1] == "until_end"
    ctx.ob(rid, "value-section-runs-to-the-end", ok,
           "" if ok else "the option value is read with %s: it must run to the end of the line (a value may contain the words `name` or `value`); the rest of the line is silently dropped otherwise" % [(c[1], c[2]) for c in after],
           ctx.where(f, after[0][3] if after else None), sample={"call": [(c[1], c[2]) for c in after]})


_run_before_r9 = run


def run(ctx):
    _run_before_r9(ctx)
    r9_setoption_sections(ctx)


def r10_only_the_token_reader_ends_the_go_loop(ctx):
    """`go depth` (a keyword whose value is missing) is an error, not an unlimited go"""
    rid = "C15.R10"
    ctx.rule(rid, "parse_go leaves its loop successfully only when the token reader itself reports the end of the command: the UnexpectedEndOfCommand that is turned into `done` is the error of CommandParser::next(), not the error of anything that also reads a parameter's value", floor=1)
    prog = ctx.prog
    f = ctx.fn(rid, P + "parse_go", positional=False)
    cfg, ex = Cfg(f), Exprs(f)
    adt = prog.adts.get("inkayaku_uci::uci::parser::ParserError")
    names = [v.get("name") for v in adt["variants"]] if adt else []
    if "UnexpectedEndOfCommand" not in names:
        ctx.lost(rid, "ParserError::UnexpectedEndOfCommand")
        return
    eoc = names.index("UnexpectedEndOfCommand")
    READERS = ("next", "parse_u64", "parse_duration", "parse_moves_until_one_of_or_end", "until_one_of_or_end", "until_end", "until_token_or_end", "consume")

    def reads_tokens(key, seen=None):
        # the function / closure (transitively, through workspace functions) pulls tokens
        seen = seen if seen is not None else set()
        if key in seen:
            return False
        seen.add(key)
        g = prog.fns.get(key) or getattr(prog, "helper_bodies", {}).get(key)
        if g is None:
            return False
        for bb in g["blocks"]:
            t = bb["term"]
            if t["k"] == "call":
                ck = t["callee"].get("key") or ""
                if ck.startswith(P) and ck[len(P):] in READERS:
                    return True
                if ck.startswith("inkayaku_") and reads_tokens(ck, seen):
                    return True
            for st in bb["stmts"]:
                rv = st["rv"]
                if rv.get("op") == "agg" and rv.get("kind") == "closure" and reads_tokens(rv.get("closure") or rv.get("def") or "", seen):
                    return True
        return False

    found = 0
    for b in sorted(cfg.reach):
        t = f["blocks"][b]["term"]
        if t["k"] != "switch" or f["blocks"][b]["cleanup"]:
            continue
        d = ex.operand(t["discr"])
        if not (d[0] == "discr" and d[1][0] == "f" and d[1][1][0] == "dc" and d[1][1][2] == "Err"):
            continue
        if not any(v == eoc for v, _ in t["targets"]):
            continue
        x = d[1][1][1]
        while x[0] in ("&", "*"):
            x = x[1]
        found += 1
        if x[0] == "call" and x[1] == P + "next":
            ctx.ob(rid, "end-of-command|from-next", True, "", ctx.where(f, t["line"]), sample={"scrutinee": show(x)[:100]})
            continue
        # a combinator / helper around next(): does what it runs read a value?
        inner = [y for y in leaves(x) if y is not x]
        keys = [y[1] for y in inner if y[0] == "call"] + [y[2] for y in inner if y[0] == "agg" and y[1] == "closure"] + ([x[1]] if x[0] == "call" and x[1].startswith("inkayaku_") else [])
        readers = [k for k in keys if (k.startswith(P) and k[len(P):] in READERS and k != P + "next") or reads_tokens(k)]
        if x[0] == "call" and readers:
            ctx.ob(rid, "end-of-command|from-next", False,
                   "parse_go ends its loop successfully on UnexpectedEndOfCommand of %s, which also covers %s: a keyword whose value is missing at the end of the line (`go depth`) is accepted and the parameter silently dropped (an unlimited search instead of an error)" % (
                       show(x)[:100], ", ".join(sorted({k.rsplit("::", 2)[-1] if "{closure" not in k else k.rsplit("::", 2)[-2] + "::" + k.rsplit("::", 1)[-1] for k in readers}))),
                   ctx.where(f, t["line"]))
        else:
            ctx.lost(rid, "where the UnexpectedEndOfCommand that ends parse_go's loop comes from (%s)" % show(x)[:80])
    if not found:
        ctx.lost(rid, "the test for UnexpectedEndOfCommand that ends parse_go's loop")


_run_before_r10 = run


def run(ctx):
    _run_before_r10(ctx)
    r10_only_the_token_reader_ends_the_go_loop(ctx)


def r11_binary_search_over_sorted_tables(ctx):
    """a keyword looked up with binary_search is found only if the table is sorted"""
    rid = "C15.R11"
    ctx.rule(rid, "every constant table the parser searches with binary_search is sorted ascending in the order binary_search compares (byte order of the strings): an out-of-order neighbour pair makes a keyword unfindable, and a token list that should stop at it swallows it", floor=0)
    from ..expr import resolve_promoted
    prog = ctx.prog

    def const_list(t):
        t = resolve_promoted(prog, t)
        while t[0] in ("&", "*", "cast"):
            t = t[1] if t[0] != "cast" else t[2]
        if t[0] == "c" and isinstance(t[1], (tuple, list)):
            return list(t[1]), (t[3] or "?")
        return None, None
    for k, f in sorted(prog.fns.items()):
        if not k.startswith("inkayaku_uci::") or f.get("test"):
            continue
        ex = None
        for bb in f["blocks"]:
            t = bb["term"]
            if t["k"] != "call" or bb["cleanup"] or "binary_search" not in (t["callee"].get("key") or ""):
                continue
            if not (t["callee"]["key"].startswith("core::slice::") or "Vec" in t["callee"]["key"]):
                continue
            ex = ex or Exprs(f)
            recv = ex.operand(t["args"][0])
            tables = []
            base = recv
            while base[0] in ("&", "*", "cast"):
                base = base[1] if base[0] != "cast" else base[2]
            if base[0] == "param":
                # the table is an argument: look at what the callers pass
                for ck, g in prog.fns.items():
                    gx = None
                    for b2 in g["blocks"]:
                        t2 = b2["term"]
                        if t2["k"] == "call" and t2["callee"].get("key") == k and len(t2["args"]) >= base[1]:
                            gx = gx or Exprs(g)
                            tables.append(const_list(gx.operand(t2["args"][base[1] - 1])))
            else:
                tables.append(const_list(recv))
            if not tables:
                ctx.lost(rid, "the table %s searches with binary_search" % f["display"])
            for vals, name in tables:
                if vals is None or not all(isinstance(v, (str, int)) for v in vals):
                    ctx.lost(rid, "the table %s searches with binary_search (not a constant list)" % f["display"])
                    continue
                keyed = [v.encode() if isinstance(v, str) else v for v in vals]
                bad = [(vals[i], vals[i + 1]) for i in range(len(vals) - 1) if not keyed[i] < keyed[i + 1]]
                ctx.ob(rid, "%s|%s|sorted" % (k.rsplit("::", 1)[-1], name.rsplit("::", 1)[-1]), not bad,
                       "" if not bad else "%s looks tokens up in %s with binary_search, but the table is not sorted: %r stands before %r - the search can miss entries (%r is never found), so a token list that should end at that keyword reads it as a move / the keyword is rejected" % (
                           f["display"], name.rsplit("::", 1)[-1], bad[0][0], bad[0][1], bad[0][1]),
                       ctx.where(f, t["line"]), sample={"table": name, "entries": len(vals)})


_run_before_r11 = run


def run(ctx):
    _run_before_r11(ctx)
    r11_binary_search_over_sorted_tables(ctx)
