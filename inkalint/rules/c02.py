"""C02 — playing a move produces exactly the successor position the rules define."""
from ..cfg import Cfg
from ..expr import Exprs, PathEval, Inliner, fold, Unfoldable, show, leaves
from ..paths import NotLoopFree
from . import movefields as MF
from . import c03
from .common import BB
from .. import geometry as G

SCOPE = "engine"
LEVEL = "other"
EXPLANATION = (
    "Static analysis of the resolved MIR. R1: the packed-move layout is derived from the getters; every field is "
    "contiguous, starts at its shift, fits its getter's return type, and fields are pairwise disjoint. R2: every "
    "setter can reach all bits of its field (bit-level may-analysis with integer widths). R3: every effect recorded "
    "at generation has its reader in make / unmake / zobrist_xor; make resets or increments the clock under the "
    "reset flag, takes the e.p. square from the move, adds the mover's colour to the move number before flipping the "
    "side. R4: the reset flag is set exactly for 'pawn move or capture' (all paths of make_move enumerated). R5: the "
    "castling-right-lost flags are set exactly when the right is held and the source (own right) / target "
    "(opponent's right) square is the rook's or king's home square of that colour (geometry oracle), for both "
    "colours. Decided: these necessary conditions for every position and move; not decided: successor equality.")

A1_TABLE = {  # field -> functions that must read it (Appendix A.1 of DESIGN.md; one reason each)
    "get_piece_moved": ("make", "unmake", "zobrist_xor"),            # placement
    "get_piece_attacked": ("make", "unmake", "zobrist_xor"),         # capture removal / restore
    "get_self_lost_king_side_castle": ("make", "unmake", "zobrist_xor"),
    "get_self_lost_queen_side_castle": ("make", "unmake", "zobrist_xor"),
    "get_opponent_lost_king_side_castle": ("make", "unmake", "zobrist_xor"),
    "get_opponent_lost_queen_side_castle": ("make", "unmake", "zobrist_xor"),
    "get_castle_move": ("make", "unmake", "zobrist_xor"),            # rook relocation
    "get_en_passant_attack": ("make", "unmake", "zobrist_xor"),      # victim removal
    "get_source_square": ("make", "unmake", "zobrist_xor"),
    "get_target_square": ("make", "unmake", "zobrist_xor"),
    "get_halfmove_reset": ("make",),                                 # clock
    "get_previous_halfmove": ("unmake",),                            # undo only
    "get_previous_en_passant_square": ("unmake", "zobrist_xor"),     # undo + hash of the old e.p. file
    "get_next_en_passant_square": ("make", "zobrist_xor"),
    "get_promotion_piece": ("make", "unmake", "zobrist_xor"),
    "get_side_to_move": ("zobrist_xor",),                            # colour of the keys
}


def r1_layout(ctx, fields):
    rid = "C02.R1"
    ctx.rule(rid, "Move fields (derived from the getters): mask contiguous, shift = trailing zeros of mask, fits the getter's type, pairwise disjoint, below bit 64", floor=17)
    from ..expr import INT_BITS
    items = sorted(fields.items(), key=lambda kv: kv[1]["shift"])
    for n, v in items:
        m, s = v["mask"], v["shift"]
        tz = (m & -m).bit_length() - 1 if m else -1
        width = (m >> s).bit_length() if s >= 0 else 0
        contiguous = m != 0 and ((m >> tz) + 1) & (m >> tz) == 0
        rb = INT_BITS.get(v["ret_ty"], 64)
        ok = contiguous and tz == s and m < (1 << 64) and width <= rb
        ctx.ob(rid, "field|%s" % n, ok,
               "" if ok else "Move::%s: mask %#x, shift %d (contiguous: %s, trailing zeros: %d, width %d, return type %s)" % (n, m, s, contiguous, tz, width, v["ret_ty"]),
               "%s:%d" % (v["file"], v["line"]), sample={"field": n, "mask": hex(m), "shift": s, "width": width})
    overlap = [(a, b) for i, (a, va) in enumerate(items) for b, vb in items[i + 1:] if va["mask"] & vb["mask"]]
    ctx.ob(rid, "pairwise-disjoint", not overlap, "" if not overlap else "overlapping Move fields: %s" % overlap, "")
    # every field is wide enough for its domain; the setters OR their value in unmasked, so a value that does not fit
    # spills into the neighbouring field (for the undo clock: into the previous e.p. square, which the hash delta reads)
    DOMAIN_BITS = {"get_source_square": 6, "get_target_square": 6, "get_next_en_passant_square": 6, "get_previous_en_passant_square": 6,
                   "get_piece_moved": 3, "get_piece_attacked": 3, "get_promotion_piece": 3, "get_previous_halfmove": 12, "get_side_to_move": 1}
    for n, v in items:
        need = DOMAIN_BITS.get(n)
        if need is None:
            continue
        width = (v["mask"] >> v["shift"]).bit_length() if v["shift"] >= 0 else 0
        ok = width >= need
        ctx.ob(rid, "domain|%s" % n, ok,
               "" if ok else "Move::%s has %d bits but its values need %d (squares 0..63, pieces 0..6, the half-move clock 0..4095 of the property's quantifier): larger values are OR-ed in unmasked and corrupt the field above it" % (n, width, need),
               "%s:%d" % (v["file"], v["line"]), sample={"field": n, "width": width, "needed": need})


def r2_reach(ctx, fields, setters, pairing):
    rid = "C02.R2"
    ctx.rule(rid, "every Move setter can write every bit of its field: may(E) ⊇ mask", floor=10)
    unpaired = sorted(s for s in setters if s not in pairing)
    for sname, fld in sorted(pairing.items()):
        s = setters[sname]
        e = s["tree"]
        m = fields[fld]["mask"]
        if e[0] == "c":
            ok, may = e[1] == m, e[1]
        else:
            may = MF.maybits(e, s["fn"])
            ok = may is not None and (may & m) == m
        ctx.ob(rid, "%s->%s" % (sname, fld), ok,
               "" if ok else "Move::%s can only write bits %#x of field %s (mask %#x); written expression: %s" % (sname, (may or 0) & m, fld, m, show(e)),
               "%s:%d" % (s["file"], s["line"]), sample={"setter": sname, "field": fld, "mask": hex(m), "may_write": hex(may) if may is not None else None})
    # setters that OR a caller-supplied mask: their callers must pass the field's mask or zero
    gen = ctx.prog.fns.get(BB + "make_move")
    ctx.extra["unpaired_setters"] = unpaired
    by_mask = {v["mask"]: n for n, v in fields.items()}
    for sname in unpaired:
        e = setters[sname]["tree"]
        if e != ("param", 2):
            ctx.lost(rid, "setter %s writes %s and pairs with no field" % (sname, show(e)))
            continue
        # the values that flow into the generator parameter handed to this setter
        vals = set()
        from ..callgraph import call_sites
        param_idx = None
        if gen:
            ex = Exprs(gen)
            for b in gen["blocks"]:
                t = b["term"]
                if t["k"] == "call" and t["callee"].get("key") == setters[sname]["key"]:
                    a = ex.operand(t["args"][1])
                    if a[0] == "param":
                        param_idx = a[1]
        if param_idx is None:
            ctx.lost(rid, "%s is not called from make_move with a parameter" % sname)
            continue
        for caller, bi, t in call_sites(ctx.prog, lambda k, o, c: k == BB + "make_move"):
            f2 = ctx.prog.fns[caller]
            ex2 = Exprs(f2)
            a = ex2.operand(t["args"][param_idx - 1])
            if a[0] == "c":
                vals.add(a[1])
            elif a[0] == "param":
                # one level up (make_castle_move / generate_* pass constants on)
                for c2, b2, t2 in call_sites(ctx.prog, lambda k, o, c: k == caller):
                    a2 = Exprs(ctx.prog.fns[c2]).operand(t2["args"][a[1] - 1])
                    vals.add(a2[1] if a2[0] == "c" else show(a2))
            else:
                # a two-valued local (if e.p. {TRUE} else {FALSE}): collect its constant definitions
                if a[0] == "local":
                    for d in ex2.defs.get(a[1], []):
                        if d[0] == "stmt" and d[3]["op"] == "use" and d[3]["a"][0]["k"] == "const":
                            vals.add(d[3]["a"][0]["v"])
                        else:
                            vals.add("non-constant")
                else:
                    vals.add(show(a))
        nz = {v for v in vals if v != 0}
        ok = len(nz) == 1 and all(isinstance(v, int) for v in vals) and list(nz)[0] in by_mask
        ctx.ob(rid, "%s|callers-pass-field-mask" % sname, ok,
               "" if ok else "Move::%s ORs a caller-supplied value; callers pass %s, expected 0 or exactly one field mask" % (sname, sorted(vals, key=str)),
               "%s:%d" % (setters[sname]["file"], setters[sname]["line"]), sample={"setter": sname, "values": sorted(vals, key=str), "field": by_mask.get(list(nz)[0]) if len(nz) == 1 else None})


def r3_effects(ctx, fields, setters, pairing):
    rid = "C02.R3"
    ctx.rule(rid, "every effect recorded in the move at generation has its reader (make / unmake / zobrist_xor); make applies clock, e.p. square, move number and side", floor=20)
    prog = ctx.prog
    gen = ctx.fn(rid, BB + "make_move")
    set_in_gen = set()
    for b in gen["blocks"]:
        t = b["term"]
        if not b["cleanup"] and t["k"] == "call":
            k = t["callee"].get("key") or ""
            if k.startswith(MF.MOVE + "set_"):
                sname = k[len(MF.MOVE):]
                if sname in pairing:
                    set_in_gen.add(pairing[sname])
    # unpaired setters (castle / e.p. flag) are paired through the mask their callers pass (R2)
    by_mask = {v["mask"]: n for n, v in fields.items()}
    for cname in ("CASTLE_MOVE_TRUE_MASK", "EN_PASSANT_ATTACK_TRUE_MASK"):
        v = prog.const_value("inkayaku_board::board::constants::" + cname)
        if v in by_mask:
            set_in_gen.add(by_mask[v])
    readers = {fn: MF.getter_callers(ctx, fields, BB + fn) for fn in ("make", "unmake", "zobrist_xor")}
    if any(v is None for v in readers.values()):
        ctx.lost(rid, "make / unmake / zobrist_xor")
        return
    for fld in sorted(set_in_gen):
        want = A1_TABLE.get(fld)
        if want is None:
            ctx.lost(rid, "move field %s is recorded at generation but has no entry in the reviewed reader table (renamed or new field)" % fld)
            continue
        missing = [fn for fn in want if fld not in readers[fn]]
        ctx.ob(rid, "readers|%s" % fld, not missing,
               "" if not missing else "move field %s is recorded by make_move but no longer read by %s: that effect of the move is not applied" % (fld, missing),
               ctx.where(prog.fns[BB + (missing[0] if missing else "make")]), sample={"field": fld, "read_by": [fn for fn in readers if fld in readers[fn]]})
    ok = len(set_in_gen) >= 16
    if len(set_in_gen) < 8:
        # the move word is assembled without Move's setters (terms OR-ed together in one expression): what it
        # records cannot be read off setter calls
        ctx.lost(rid, "make_move records the move's fields through Move's setters (%d found)" % len(set_in_gen))
    else:
      ctx.ob(rid, "all-fields-recorded", ok, "" if ok else "make_move records only %d of the 16 fields: %s" % (len(set_in_gen), sorted(set_in_gen)), ctx.where(gen))
    # make: clock, e.p., move number, side
    mk = ctx.fn(rid, BB + "make")
    cfg, ex = Cfg(mk), Exprs(mk)
    getter_of = {v["getter"]: n for n, v in fields.items()}
    clock_writes = []
    ep_ok = turn_ok = full_ok = False
    turn_block = None
    full_block = None
    for b in sorted(cfg.reach):
        for si, s in enumerate(mk["blocks"][b]["stmts"]):
            d = s["dst"]
            if d is None or len(d["p"]) != 2 or d["p"][0] != "deref" or d["l"] != 1:
                continue
            name = d["p"][1]["name"]
            v = ex.rvalue(s["rv"], d["p"][1].get("ty"))
            if name == "halfmove_clock":
                # which edge of the reset predicate?
                edge = None
                for (a, sb) in cfg.control_deps().get(b, ()):
                    sw = mk["blocks"][a]["term"]
                    if sw["k"] == "switch":
                        dt = ex.operand(sw["discr"])
                        if dt[0] == "call" and dt[1] == MF.MOVE + "is_halfmove_reset":
                            edge = sb == sw["otherwise"]
                clock_writes.append((edge, v, s["line"]))
            elif name == "en_passant_square_shift":
                ep_ok = v[0] == "call" and getter_of.get(v[1]) == "get_next_en_passant_square"
            elif name == "turn":
                turn_ok = v[0] == "call" and v[1] == BB + "opposite_turn"
                turn_block = (b, si)
            elif name == "fullmove_clock":
                full_ok = v[0] == "bin" and v[1] == "Add" and {("f", ("*", ("param", 1)), "fullmove_clock"), ("f", ("*", ("param", 1)), "turn")} == {v[2], v[3]}
                full_block = (b, si)
    # the half-move clock and the e.p. square after make, read off a decision table over the reset flag
    # (inkalint/semtable.py): whichever way the update is written (two assignments under an if, one conditional
    # assignment, a multiplication by a flag ...)
    from ..semtable import explore, evaluate, TooBig, NeedVar, Opaque
    from ..slice import Slicer
    CLOCK = ("f", ("*", ("param", 1)), "halfmove_clock")
    EP = ("f", ("*", ("param", 1)), "en_passant_square_shift")

    def var_of(t):
        if t[0] == "call" and t[1] == MF.MOVE + "is_halfmove_reset":
            return "reset"
        if t == CLOCK:
            return "clock"
        return None
    seeds = [b for b in sorted(cfg.reach) for st in mk["blocks"][b]["stmts"] if st["dst"] is not None and st["dst"]["p"] and isinstance(st["dst"]["p"][-1], dict) and st["dst"]["p"][-1].get("name") in ("halfmove_clock", "en_passant_square_shift")]
    sl = Slicer(mk)
    sl.backward_from_blocks(seeds)
    lvs = None
    try:
        lvs = explore(mk, var_of, {"reset": [0, 1], "clock": [10]}, relevant=set(sl.last_blocks), max_leaves=4000)
    except TooBig as e:
        ctx.lost(rid, "make as a decision table over the reset flag (%s)" % e)
    if lvs:
        res = {0: set(), 1: set()}
        eps = set()
        for lf in lvs:
            wv = [v for (pl, v, b) in lf.pe.writes if pl == CLOCK]
            we = [v for (pl, v, b) in lf.pe.writes if pl == EP]
            eps.add(we[-1] if we else None)
            for r_ in ([lf.env["reset"]] if "reset" in lf.env else [0, 1]):
                if not wv:
                    res[r_].add("unchanged")
                    continue
                try:
                    res[r_].add(evaluate(wv[-1], var_of, {"reset": r_, "clock": 10}))
                except (NeedVar, Opaque):
                    res[r_].add("?")
        for r_, want, key, text in ((1, 0, "make|clock-reset-to-zero", "a move flagged as a half-move reset"), (0, 11, "make|clock-incremented-by-one", "a move without the reset flag")):
            if "?" in res[r_]:
                # a value this table cannot evaluate: if it is not even computed from the board's clock (for a move
                # that does not reset it) it cannot be clock + 1; otherwise no verdict
                foreign = [v for lf in lvs for (pl, v, b) in lf.pe.writes if pl == CLOCK and lf.env.get("reset", r_) == r_ and CLOCK not in list(leaves(v)) and v[0] != "c"]
                if r_ == 0 and foreign:
                    ctx.ob(rid, key, False, "for %s make sets the half-move clock to %s, which is not computed from the board's clock (expected halfmove_clock + 1)" % (text, show(foreign[0])[:120]), ctx.where(mk))
                else:
                    ctx.lost(rid, "the value make gives the half-move clock for %s" % text)
                continue
            ok = res[r_] == {want}
            ctx.ob(rid, key, ok, "" if ok else "for %s make turns a half-move clock of 10 into %s (expected %d)" % (text, sorted(map(str, res[r_])), want), ctx.where(mk))
        ep_ok = all(e is not None and e[0] == "call" and getter_of.get(e[1]) == "get_next_en_passant_square" for e in eps)
        if not ep_ok and all(e is not None and any(x[0] == "call" and getter_of.get(x[1]) == "get_next_en_passant_square" for x in [e] + list(leaves(e))) for e in eps):
            ctx.lost(rid, "the e.p. square make stores (derived from the move's next-e.p. field through a computation)")
        else:
            ctx.ob(rid, "make|ep-square-from-move", ep_ok, "" if ep_ok else "make does not assign en_passant_square_shift from the move's next-e.p. field", ctx.where(mk))
    from . import c03
    run_fn = c03.side_number_runner(ctx, rid, ("make",))
    if run_fn is not None:
        for t in (0, 1):
            # "any full-move number": also beyond the ranges of narrower integer types an intermediate value might take
            r1, n0 = None, 1000
            for n0 in (1000, 1, 40000, 70000, 3000000000):
                r1 = run_fn("make", t, n0)
                if set(r1) != {(1 - t, n0 + t)}:
                    break
            ok = set(r1) == {(1 - t, n0 + t)}
            ctx.ob(rid, "make|side-flipped-and-number-adds-mover-colour|turn=%d" % t, ok,
                   "" if ok else ("at full-move number %d: " % n0) + "make with turn=%d (%s to move): over its feasible paths (side, change of the full-move number) becomes %s; expected exactly (%d, %+d): the side flips on every move and the number grows after black's move only" % (
                       t, "black" if t else "white", sorted((a, b - n0 if isinstance(b, int) else b) for a, b in r1), 1 - t, t), ctx.where(mk))


UNCONDITIONAL_SETTERS = ("set_en_passant_attack", "set_next_en_passant_square", "set_piece_moved", "set_piece_attacked", "set_source_square",
                         "set_target_square", "set_castle_move", "set_previous_halfmove", "set_previous_en_passant_square", "set_promotion_piece", "set_side_to_move")


ALWAYS_REQUIRED = ("set_piece_moved", "set_source_square", "set_target_square", "set_side_to_move", "set_previous_halfmove", "set_previous_en_passant_square")


def move_producers(ctx, rid):
    """every function of the board crate that pushes a Move into a vector, with its push blocks"""
    prog = ctx.prog
    from ..expr import operand_ty
    out = []
    for k, f in prog.fns.items():
        if f.get("test") or f["crate"] != "inkayaku_board" or f["kind"] == "promoted":
            continue
        pushes = []
        for bi, b in enumerate(f["blocks"]):
            t = b["term"]
            if b["cleanup"] or t["k"] != "call":
                continue
            key = t["callee"].get("key") or ""
            if key.rsplit("::", 1)[-1] in ("push", "push_back", "insert") and "Vec" in key or key.endswith("VecDeque::push_back"):
                tys = [operand_ty(f, a) or "" for a in t["args"]]
                if any(ty.endswith("board::Move") or ty == "inkayaku_board::Move" or ty.endswith("::Move") for ty in tys[1:]):
                    mv_local = None
                    for a in t["args"][1:]:
                        if a.get("k") in ("copy", "move") and not a["pl"]["p"]:
                            mv_local = a["pl"]["l"]
                    pushes.append((bi, mv_local, t["line"]))
        if pushes:
            out.append((k, f, pushes))
    return out


def r7_every_move_fully_recorded(ctx, rid="C02.R7"):
    ctx.rule(rid, "every function that emits a Move (pushes it into the move list) has, on every path to the push, recorded what the move needs: always the moving piece, both squares, the side and the two undo fields (previous clock, previous e.p. square); and each of the five zero-defaulting fields (captured piece, castle / e.p. marks, promotion, next e.p. square) on every path if it sets it on any path", floor=11)
    prog = ctx.prog
    prods = move_producers(ctx, rid)
    if not prods:
        ctx.lost(rid, "no function of the board crate pushes a Move")
        return
    for k, f, pushes in prods:
        cfg = Cfg(f)
        ex = Exprs(f)
        # a producer that only forwards a Move it received (a parameter or a value read from another list) is not a constructor
        for (pb, mv_local, line) in pushes:
            # the pushed operand is usually a temporary copy of the move being built: follow plain copies back
            for _ in range(6):
                dfs = ex.defs.get(mv_local, ()) if mv_local is not None else ()
                if len(dfs) == 1 and dfs[0][0] == "stmt" and dfs[0][3]["op"] == "use" and dfs[0][3]["a"][0].get("k") in ("copy", "move") and not dfs[0][3]["a"][0]["pl"]["p"]:
                    mv_local = dfs[0][3]["a"][0]["pl"]["l"]
                else:
                    break
            if mv_local is None or mv_local <= f["args"]:
                continue
            # is the move built here? (some Move setter is called on it in this function)
            setter_blocks = {}
            for bi, b in enumerate(f["blocks"]):
                t = b["term"]
                if b["cleanup"] or t["k"] != "call":
                    continue
                key = t["callee"].get("key") or ""
                if key.startswith(MF.MOVE + "set_"):
                    recv = ex.operand(t["args"][0])
                    while recv[0] in ("&", "*"):
                        recv = recv[1]
                    if recv == ("local", mv_local):
                        setter_blocks.setdefault(key[len(MF.MOVE):], set()).add(bi)
            if not setter_blocks:
                init = ex.initial(mv_local) if hasattr(ex, "initial") else None
                if not (init and init[0] == "agg"):
                    continue
            if len(setter_blocks) < 8 and k.endswith("::make_move"):
                ctx.lost(rid, "%s builds the move word without Move's setters (%d called): which fields it records is not read off setter calls" % (k.rsplit("::", 1)[-1], len(setter_blocks)))
                continue
            # a producer that always records PAWN as the moving piece emits pawn moves only: each of them resets the
            # half-move clock, captures or not (make_move's general condition is judged by R4)
            pawn_only = False
            PAWN_V = prog.const_value("inkayaku_board::board::constants::PAWN")
            for bi in setter_blocks.get("set_piece_moved", ()):
                t_ = f["blocks"][bi]["term"]
                a_ = ex.operand(t_["args"][1])
                try:
                    pawn_only = fold(a_) == PAWN_V
                except Unfoldable:
                    pawn_only = False
            if pawn_only:
                via = setter_blocks.get("set_halfmove_reset", set())
                seen, work, reach = set(), [0], False
                while work:
                    x = work.pop()
                    if x in seen or x in via:
                        continue
                    seen.add(x)
                    if x == pb:
                        reach = True
                        break
                    work.extend(y for y in _feasible_succ(f, cfg, ex, x) if not f["blocks"][y]["cleanup"])
                ctx.ob(rid, "%s|pawn-move-resets-the-clock" % k.rsplit("::", 1)[-1], not reach,
                       "" if not reach else "%s emits pawn moves (piece_moved = PAWN) but can do so without set_halfmove_reset: a pawn move that captures nothing (a quiet promotion, a push) then increments the half-move clock instead of resetting it" % f["display"],
                       ctx.where(f, line))
            for sname in UNCONDITIONAL_SETTERS:
                via = setter_blocks.get(sname, set())
                if not via and sname not in ALWAYS_REQUIRED:
                    # a producer that never touches this field leaves it at its zero default (no promotion, no e.p.
                    # mark, nothing captured, no castle mark, no next e.p. square): legitimate for a special-purpose producer
                    continue
                if not via and any(c_ == k and h_.startswith(MF.MOVE) for (c_, h_) in getattr(prog, "inlined", [])):
                    # the producer never calls this setter, but a Move method that is new to the reviewed tree was
                    # spliced into it (the field is recorded through another accessor, e.g. a merged undo field): how
                    # the field gets its value is not read off the setter calls here (C03.R9 evaluates the accessors)
                    ctx.lost(rid, "%s records %s through a new Move method (no call of Move::%s)" % (k.rsplit("::", 1)[-1], sname[4:], sname))
                    continue
                # can the push be reached from the entry without passing a call of this setter?
                seen, work = set(), [0]
                reach = False
                while work:
                    x = work.pop()
                    if x in seen or x in via:
                        continue
                    seen.add(x)
                    if x == pb:
                        reach = True
                        break
                    work.extend(y for y in _feasible_succ(f, cfg, ex, x) if not f["blocks"][y]["cleanup"])
                ctx.ob(rid, "%s|%s" % (k.rsplit("::", 1)[-1], sname), not reach,
                       "" if not reach else "%s can emit a move without having called Move::%s on it: the field keeps its zero default (for the undo fields: unmake restores clock 0 / no e.p. square; for the next e.p. square: the successor has no e.p. target)" % (f["display"], sname),
                       ctx.where(f, line), sample={"producer": k, "setter": sname} if sname == "set_previous_halfmove" else None)


def _feasible_succ(f, cfg, ex, x):
    """successors of block x, without the edges a constant switch discriminant rules out (after a helper was spliced
    in with constant arguments, `if piece == PAWN` is decided)"""
    t = f["blocks"][x]["term"]
    if t["k"] != "switch":
        return cfg.succ[x]
    memo = f.setdefault("_feasible_succ_memo", {})
    if x in memo:
        return memo[x]
    out = cfg.succ[x]
    try:
        v = fold(ex.operand(t["discr"]))
        out = [t["otherwise"]]
        for val, tb in t["targets"]:
            if val == v:
                out = [tb]
    except Unfoldable:
        pass
    memo[x] = out
    return out


def enumerate_generator(ctx, rid):
    """all paths of make_move with, per path: colour, the setter calls made and the path conditions"""
    prog = ctx.prog
    f = ctx.fn(rid, BB + "make_move")
    cfg = Cfg(f)
    if cfg.has_loops():
        raise NotLoopFree("make_move")
    paths = [p for p in cfg.acyclic_paths(limit=100000) if f["blocks"][p[-1]]["term"]["k"] == "return"]
    inl = Inliner(prog, only=lambda k: k in (BB + "is_white_turn",))
    out = []
    for p in paths:
        pe = PathEval(f, p, inliner=inl)
        colour = None
        for (d, c, b, ty) in pe.conds:
            # is_white_turn() inlined: Eq(self.turn, WHITE)
            if d[0] == "bin" and d[1] == "Eq" and ("f", ("*", ("param", 1)), "turn") in (d[2], d[3]):
                colour = "white" if c != ("in", (0,)) else "black"
            if d[0] == "call" and d[1] == BB + "is_white_turn":
                colour = "white" if c != ("in", (0,)) else "black"
        out.append((p, pe, colour))
    return f, cfg, out


def r4_r5_generation(ctx, fields, setters, pairing, roles):
    """make_move read as a decision table (inkalint/semtable.py): for every combination of side to move, castling
    rights, source / target square class, moving and captured piece the setters called on the pushed move are
    compared with the rules. Independent of how the conditions are written."""
    from . import genmove_table as GT
    from ..semtable import judge
    ctx.rule("C02.R4", "the half-move reset flag is set exactly for: piece moved is a pawn, or something is captured", floor=2)
    ctx.rule("C02.R5", "each castling-right-lost flag is set exactly when that right is held and the source (own) / target (opponent) square is the rook's or king's home square of that colour, for both colours", floor=16)
    tb = GT.table(ctx, "C02.R4", ("set_halfmove_reset",))
    if tb is None:
        return
    f, leaves, domains, c, home = tb
    live = [lf for lf in leaves if GT.pushed(lf)]
    if not live:
        ctx.lost("C02.R4", "a path of make_move that pushes the move")
        return
    # ---- R4
    names = ["piece", "attacked"]
    viol, und, n = judge(live, names, domains, lambda lf: GT.setter_called(lf, "set_halfmove_reset"),
                         lambda e: e["piece"] == c["PAWN"] or e["attacked"] != c["NO_PIECE"])
    # a flag test on the move under construction (`mv.bits & MASK != 0`) is opaque to the table; but when a setter whose
    # field lies inside MASK was called earlier on the same path, the test is certainly true there: the path is real
    def certainly_true(lf):
        if not lf.opaque:
            return False
        for d, cc in lf.opaque:
            t = d
            holds_nonzero = None
            if t[0] == "bin" and t[1] in ("Ne", "Eq") and any(x[0] == "c" and x[1] == 0 for x in (t[2], t[3])):
                inner = t[3] if t[2][0] == "c" else t[2]
                want_true = (cc == ("notin", (0,)) or (cc[0] == "in" and 0 not in cc[1])) == (t[1] == "Ne")
                if inner[0] == "bin" and inner[1] == "BitAnd":
                    mask = [x[1] for x in (inner[2], inner[3]) if x[0] == "c" and isinstance(x[1], int)]
                    about_move = any(x[0] == "havoc" or (x[0] == "f" and x[2] == "bits") for x in __import__("inkalint.expr", fromlist=["leaves"]).leaves(inner))
                    if mask and about_move and want_true:
                        called = [t_[1].rsplit("::", 1)[-1] for b_, t_ in lf.calls if t_[0] == "call" and t_[1].startswith(MF.MOVE + "set_")]
                        flag_setters = [s_ for s_ in called if pairing.get(s_) in fields and fields[pairing[s_]]["mask"] & mask[0] and bin(fields[pairing[s_]]["mask"]).count("1") == 1]
                        holds_nonzero = bool(flag_setters)
            if not holds_nonzero:
                return False
        return True
    from ..semtable import completions
    promoted = []
    for lf in live:
        if lf.opaque and GT.setter_called(lf, "set_halfmove_reset") and certainly_true(lf):
            for e in completions(lf.env, names, domains):
                if not (e["piece"] == c["PAWN"] or e["attacked"] != c["NO_PIECE"]):
                    promoted.append(({x: e[x] for x in names}, True, False, lf))
                    break
    if promoted:
        und = []
    viol = viol + promoted[:1]
    wrongly_set = [v for v in viol if v[1]]
    missing = [v for v in viol if not v[1]]
    ctx.ob("C02.R4", "reset-condition", not missing,
           "" if not missing else "a move with %s is generated without set_halfmove_reset: the half-move clock keeps counting over a pawn move / capture" % GT.describe(missing[0][0], c),
           ctx.where(f), sample={"cases": n, "leaves": len(live)})
    ctx.ob("C02.R4", "no-further-condition", not wrongly_set,
           "" if not wrongly_set else "a move with %s is generated with set_halfmove_reset: the half-move clock is reset by a quiet piece move" % GT.describe(wrongly_set[0][0], c), ctx.where(f))
    for u in und[:1]:
        ctx.lost("C02.R4", "reset flag under a condition the table cannot evaluate (%s)" % "; ".join(show(d) for d, cc in u[3].opaque)[:160])
    # ---- R5
    for sname, fld in sorted(pairing.items()):
        if fld not in roles:
            continue
        role, flag = roles[fld]   # ('mover'|'opponent', 'king_side_castle'|'queen_side_castle')
        rook_file = "h" if flag.startswith("king") else "a"
        tb = GT.table(ctx, "C02.R5", (sname,))
        if tb is None:
            continue
        f, leaves, domains, c, home = tb
        live = [lf for lf in leaves if GT.pushed(lf)]
        for col in ("white", "black"):
            other = "black" if col == "white" else "white"
            owner = col if role == "mover" else other
            tv = c["WHITE"] if col == "white" else c["BLACK"]
            fv = "%s.%s" % (owner, flag)
            sqv = "source" if role == "mover" else "target"
            pv = "piece" if role == "mover" else "attacked"
            want_sq = {home[owner][rook_file]} | ({home[owner]["e"]} if role == "mover" else set())
            names = ["turn", fv, sqv, pv]
            def spec(e):
                return bool(e[fv]) and e[sqv] in want_sq
            def constraint(e):
                if e["turn"] != tv:
                    return False
                # a held right implies king and rook on their home squares (make/unmake keep it; the FEN reader
                # establishes it, C12): whatever leaves or is captured on such a square is that piece
                if e[fv] and e[sqv] == home[owner][rook_file] and e[pv] != c["ROOK"]:
                    return False
                if role == "mover" and e[fv] and e[sqv] == home[owner]["e"] and e[pv] != c["KING"]:
                    return False
                return True
            viol, und, n = judge(live, names, domains, lambda lf: GT.setter_called(lf, sname), spec, constraint)
            if n == 0:
                ctx.lost("C02.R5", "make_move paths with %s to move" % col)
                continue
            wrongly_set = [v for v in viol if v[1]]
            missing = [v for v in viol if not v[1]]
            ctx.ob("C02.R5", "%s|%s-to-move|decision-not-skipped" % (sname, col), not missing,
                   "" if not missing else "%s to move: a move with %s is generated without %s although %s holds %s and the %s square is a home square: the right is then kept wrongly"
                   % (col, GT.describe(missing[0][0], c), sname, owner, flag, sqv), ctx.where(f))
            ctx.ob("C02.R5", "%s|%s-to-move" % (sname, col), not wrongly_set,
                   "" if not wrongly_set else "%s to move: %s is set for a move with %s; the rules give %s square(s) %s of %s and flag %s.%s"
                   % (col, sname, GT.describe(wrongly_set[0][0], c), sqv, sorted(G.name_of(x) for x in want_sq), owner, owner, flag),
                   ctx.where(f), sample={"setter": sname, "to_move": col, "squares": sorted(want_sq), "owner": owner, "flag": flag, "cases": n})
            for u in und[:1]:
                ctx.lost("C02.R5", "%s under a condition the table cannot evaluate (%s)" % (sname, "; ".join(show(d) for d, cc in u[3].opaque)[:160]))
    ctx.assumptions += ["C02.R5: a held castling right implies that king and rook stand on their home squares (established by the FEN reader, C12.R7; kept by make/unmake, C03.R3) - a generator may rely on it"]


def B_strip(t):
    while t[0] in ("*", "&"):
        t = t[1]
    return t


def derive_roles(ctx, fields):
    """field -> (mover|opponent, flag) from make's bookkeeping (same derivation as C03.R3)"""
    am, fm = c03.flag_assignments(ctx, BB + "make", "C02.R5", fields)
    if len(am) != 4:
        return {}
    cfg = Cfg(fm)
    # in make the turn is flipped before the players are fetched: tuple element 1 is the mover
    out = {}
    for a in am:
        if len(a["pred"]) != 1:
            continue
        out[a["pred"][0][0]] = ("mover" if a["role"] == "1" else "opponent", a["flag"])
    return out


def run(ctx):
    fields, setters = MF.derive(ctx, "C02.R1")
    if len(fields) < 16 or len(setters) < 16:
        ctx.lost("C02.R1", "Move getters/setters (derived %d fields, %d setters; expected 16/18)" % (len(fields), len(setters)))
        return
    pairing = MF.pair(fields, setters)
    ctx.extra["move_layout"] = {n: {"mask": hex(v["mask"]), "shift": v["shift"]} for n, v in sorted(fields.items(), key=lambda kv: kv[1]["shift"])}
    r1_layout(ctx, fields)
    r2_reach(ctx, fields, setters, pairing)
    r3_effects(ctx, fields, setters, pairing)
    roles = derive_roles(ctx, fields)
    if len(roles) != 4:
        ctx.lost("C02.R5", "castling-right bookkeeping of make (needed to know whose right each flag is)")
    else:
        r4_r5_generation(ctx, fields, setters, pairing, roles)


_run_before_fx = run


def run(ctx):
    _run_before_fx(ctx)
    from . import movefx_rules
    movefx_rules.rule_make_vs_rules(ctx)
    r7_every_move_fully_recorded(ctx)
