"""C13 — a rejected move string changes nothing."""
from .common import run_balance, workspace_fns, table, BB, SEARCH
from .. import balance as B
from ..cfg import Cfg
from ..expr import Exprs, show, leaves

SCOPE = "engine"
LEVEL = "other"
EXPLANATION = (
    "Static all-paths analysis of the resolved MIR. R1: every function of the board crate that probes a move "
    "(make ... unmake) on a borrowed board is explored in the product (block x outstanding makes x return kind: "
    "Ok / Err / `?` exit); obligation: count 0 at every return, in particular at every Err return. R2: make_uci "
    "leaves +1 on Ok and 0 on every error exit. R3: make_all_uci pushes every move it makes on one local list and, "
    "on the error arm, takes the whole list back in reverse before returning Err. R4: the position-command replay "
    "(Search::set_position_from) works on an owned board and writes engine state only on the success path. "
    "Decided: the no-side-effect clause of rejected moves; not decided: that acceptance coincides with legality.")


def scope(tier):
    return "workspace" if tier == "thorough" else "engine"


def contains_local(tree, l):
    return any(t == ("local", l) for t in leaves(tree))


def r3_make_all(ctx):
    rid = "C13.R3"
    ctx.rule(rid, "make_all_uci: every make is pushed on one local list; the Err arm takes that list back in reverse inside a loop before returning; Ok only from normal loop exit (or, snapshot style: the Err arm restores every field Bitboard::make writes)", floor=1)
    f = ctx.fn(rid, BB + "make_all_uci")
    # as written: a lookup helper that is new to the reviewed tree (and was spliced in for the other rules) brings its
    # own probing make / unmake pair into the loop, which is not part of the roll-back protocol judged here
    f = getattr(ctx.prog, "raw_fns", {}).get(BB + "make_all_uci", f)
    cfg, ex = Cfg(f), Exprs(f)
    makes, unmakes, pushes = [], [], []
    for b in sorted(cfg.reach):
        t = f["blocks"][b]["term"]
        if t["k"] != "call":
            continue
        k = t["callee"].get("key") or ""
        if k == B.MAKE:
            makes.append(b)
        elif k == B.UNMAKE:
            unmakes.append(b)
        elif k.endswith("::Vec::push") or k.endswith("::push"):
            pushes.append(b)
    if not unmakes:
        # iterator idiom: the roll-back is a closure that unmakes, driven by for_each / try_for_each / fold over the list
        prog = ctx.prog
        for b in sorted(cfg.reach):
            t = f["blocks"][b]["term"]
            if t["k"] != "call" or f["blocks"][b]["cleanup"]:
                continue
            k = t["callee"].get("key") or ""
            if k.rsplit("::", 1)[-1] not in ("for_each", "try_for_each", "fold", "try_fold", "all", "any", "map"):
                continue
            args = [ex.operand(a) for a in t["args"]]
            cl = [x for a in args for x in leaves(a) if x[0] == "agg" and x[1] == "closure"]
            if not any(any(bb_["term"]["k"] == "call" and (bb_["term"]["callee"].get("key") or "") == B.UNMAKE for bb_ in (prog.fns.get(c[2]) or {"blocks": []})["blocks"]) for c in cl):
                continue
            chain = [x[1].rsplit("::", 1)[-1] for x in leaves(args[0]) if x[0] == "call"]
            backwards = any(n in ("rev", "pop", "next_back", "rfold", "rposition") for n in chain) or k.rsplit("::", 1)[-1] in ("rfold", "try_rfold")
            over_list = any(n in ("iter", "into_iter", "drain", "iter_mut") for n in chain)
            if over_list:
                ctx.ob(rid, "unmake|in-reverse-loop-over-list", backwards,
                       "" if backwards else "make_all_uci takes the made moves back oldest first (%s without rev): unmake restores from the undo information of the move it is given, so only the reverse order leads back to the original position - after a rejected list of three or more moves the board is garbled although Err is returned" % ".".join(reversed(chain)),
                       ctx.where(f, t["line"]))
                return
    if not makes or not unmakes:
        # snapshot style: the Err path assigns saved copies back to the board's fields. It must cover every field
        # Bitboard::make writes (directly or through the players), otherwise a rejected list leaves that field changed
        from . import c03
        made = c03.written_fields(ctx, B.MAKE, rid) if hasattr(c03, "written_fields") else set()
        top = set()
        for n in made:
            top.add({"occupancy": None, "king_side_castle": None, "queen_side_castle": None}.get(n, n))
        top.discard(None)
        top |= {"white", "black"}
        restored = set()
        err_blocks = [b for b in sorted(cfg.reach) for st in f["blocks"][b]["stmts"] if st["dst"] is not None and st["dst"]["l"] == 0 and not st["dst"]["p"] and st["rv"]["op"] == "agg" and st["rv"].get("variant") == "Err"]
        for b in sorted(cfg.reach):
            if not any(cfg.dominates(b, e) or b == e for e in err_blocks):
                continue
            for st in f["blocks"][b]["stmts"]:
                d = st["dst"]
                if d is not None and d["p"] and "deref" in d["p"] and d["l"] == 1:
                    names = [e["name"] for e in d["p"] if isinstance(e, dict) and "name" in e]
                    if names:
                        restored.add(names[0])
        if restored and err_blocks:
            missing = sorted(top - restored)
            ctx.ob(rid, "Err-exit|snapshot-restores-every-field-make-writes", not missing,
                   "" if not missing else "make_all_uci rolls a rejected list back by restoring saved copies of %s, but Bitboard::make also writes %s: after a rejected list that field keeps the value of the last accepted move (a phantom en-passant square, for example)" % (sorted(restored), missing),
                   ctx.where(f), sample={"restored": sorted(restored), "written_by_make": sorted(top)})
            return
        ctx.lost(rid, "make_all_uci has no make/unmake call (roll-back idiom not recognised)")
        return
    # (a) every make is followed, without a branch in between, by a push of the same move on a local Vec
    lists = set()
    for mb in makes:
        t = f["blocks"][mb]["term"]
        mv = ex.operand(t["args"][1])
        nb = t["target"]
        ok, why = False, "the block after make is not a Vec::push"
        if nb in pushes:
            pt = f["blocks"][nb]["term"]
            lst = B.strip_ref(ex.operand(pt["args"][0]))
            pushed = ex.operand(pt["args"][1])
            if pushed == mv and lst[0] == "local":
                ok = True
                lists.add(lst[1])
            else:
                why = "pushed %s on %s but made %s" % (show(pushed), show(lst), show(mv))
        if not ok and nb not in pushes and pushes:
            # the move is recorded, but not in the statement right after make (a helper returned it, it travels
            # through a Result): which push belongs to which make is not read here
            ctx.lost(rid, "make_all_uci: the push that records the move made at line %d" % t["line"])
            continue
        ctx.ob(rid, "make@%s|followed-by-push" % show(mv), ok, "" if ok else "make_all_uci: " + why, ctx.where(f, t["line"]),
               sample={"make": show(mv), "list": sorted(lists)})
    if not lists and pushes:
        return
    ok = len(lists) == 1
    ctx.ob(rid, "single-rollback-list", ok, "" if ok else "moves are pushed on %d different lists" % len(lists), ctx.where(f))
    if not lists:
        return
    L = sorted(lists)[0]
    # (b) every unmake sits in a loop whose iterator walks L backwards (rev over L, or pop from L)
    loops = {}
    for (a, h) in cfg.back_edges():
        body = {h}
        work = [a]
        while work:
            x = work.pop()
            if x in body:
                continue
            body.add(x)
            work.extend(cfg.pred[x])
        loops.setdefault(h, set()).update(body)
    unmake_loops = set()
    for ub in unmakes:
        t = f["blocks"][ub]["term"]
        arg = ex.operand(t["args"][1])
        hs = [h for h, body in loops.items() if ub in body and not any(m in body for m in makes)]
        ok, why = False, "unmake is not inside a roll-back loop separate from the make loop"
        if hs:
            # the value taken back comes from an iterator over L in reverse
            src = None
            for x in leaves(arg):
                if x[0] == "call" and x[1].endswith("::next"):
                    it = B.strip_ref(x[2][0])
                    if it[0] == "local":
                        src = ex.initial(it[1])
                    else:
                        src = it
                if x[0] == "call" and x[1].endswith("::pop"):
                    src = ("pop", x[2][0])
            if src is None:
                why = "the move taken back (%s) does not come from an iterator or pop" % show(arg)
            else:
                names = [x[1] for x in leaves(src) if x[0] == "call"]
                over_l = any(x == ("local", L) for x in leaves(src))
                rev = any(n.endswith("::rev") or n.endswith("::pop") or n.endswith("::next_back") for n in names) or src[0] == "pop"
                if over_l and rev:
                    ok = True
                    unmake_loops.update(hs)
                else:
                    why = "the roll-back iterates %s (over the list: %s, in reverse: %s)" % (show(src), over_l, rev)
        ctx.ob(rid, "unmake|in-reverse-loop-over-list", ok, "" if ok else "make_all_uci: " + why, ctx.where(f, t["line"]),
               sample={"unmake_arg": show(arg), "loop_headers": hs})
    # (c) every block that sets _0 = Err(..) is dominated by a roll-back loop header and reached only after
    # that loop has finished (the header dominates it and the block is outside the loop body)
    err_blocks, ok_blocks = [], []
    for b in sorted(cfg.reach):
        for s in f["blocks"][b]["stmts"]:
            d = s["dst"]
            if d is not None and d["l"] == 0 and not d["p"]:
                k = B.ret_kind_of_rv(s["rv"])
                (err_blocks if k == "Err" else ok_blocks if k == "Ok" else []).append(b)
        t = f["blocks"][b]["term"]
        if t["k"] == "call" and t["dest"]["l"] == 0 and not t["dest"]["p"]:
            err_blocks.append(b)  # `?` exit or any computed result: treated as an error exit
    if not err_blocks or not ok_blocks:
        ctx.lost(rid, "make_all_uci: Ok/Err result construction not found")
        return
    for eb in err_blocks:
        ok = any(cfg.dominates(h, eb) and eb not in loops[h] for h in unmake_loops)
        ctx.ob(rid, "Err-exit|after-rollback-loop", ok,
               "" if ok else "make_all_uci: an error exit is reachable without running the roll-back loop to completion",
               ctx.where(f, f["blocks"][eb]["term"]["line"]))
    for ob_ in ok_blocks:
        # Ok must not be reachable from the error arm: no roll-back loop header dominates or reaches it
        bad = any(ob_ in cfg.reachable_from(h) for h in unmake_loops)
        ctx.ob(rid, "Ok-exit|not-after-error", not bad, "" if not bad else "make_all_uci: Ok is reachable after the roll-back loop",
               ctx.where(f, f["blocks"][ob_]["term"]["line"]))


def r4_callers(ctx):
    rid = "C13.R4"
    ctx.rule(rid, "callers that replay a move list do so on an owned board and touch their own state only on the success path", floor=2)
    targets = [SEARCH + "set_position_from"]
    if ctx.tier == "thorough":
        targets += [k for k in ctx.prog.fns if k.endswith("::bot::Bot::is_my_turn") or k.endswith("::is_my_turn")]
    probes = {BB + "find_uci", BB + "make_uci", BB + "make_all_uci"}
    for key in targets:
        f = ctx.fn(rid, key)
        cfg, ex = Cfg(f), Exprs(f)
        sites = [(b, f["blocks"][b]["term"]) for b in sorted(cfg.reach)
                 if f["blocks"][b]["term"]["k"] == "call" and f["blocks"][b]["term"]["callee"].get("key") in probes]
        if not sites:
            ctx.lost(rid, key + " (no call to find_uci/make_uci/make_all_uci)")
            continue
        for b, t in sites:
            root = B.receiver_root(ex.operand(t["args"][0]))
            owned = B.rootedness(f, root) == "owned"
            ctx.ob(rid, "%s|%s|owned-board" % (key, t["callee"]["key"].rsplit("::", 1)[-1]), owned,
                   "" if owned else "%s replays moves on %s, which is not a board it owns" % (f["display"], show(root)),
                   ctx.where(f, t["line"]), sample={"function": key, "board": show(root)})
            # error arm: the switch on the discriminant of the result, variant 1 = Err
            dest = t["dest"]["l"]
            arm = None
            nb = t["target"]
            sw = f["blocks"][nb]["term"] if nb is not None else None
            if sw and sw["k"] == "switch":
                d = ex.operand(sw["discr"])
                if d == ("discr", ("local", dest)) or d == ("discr", ex.local(dest)):
                    for v, tb in sw["targets"]:
                        if v == 1:
                            arm = tb
            if arm is None:
                # result consumed by unwrap()/`?`: no error arm inside this function
                ctx.notes.append("%s: result of %s is not matched locally (unwrap or ?), no error arm to inspect" % (key, t["callee"]["key"]))
                continue
            writes = []
            for x in sorted(cfg.reachable_from(arm)):
                blk = f["blocks"][x]
                for s in blk["stmts"]:
                    d = s["dst"]
                    if d is not None and d["p"] and d["p"][0] == "deref" and 1 <= d["l"] <= f["args"]:
                        writes.append((x, s["line"], "assignment"))
                tt = blk["term"]
                if tt["k"] == "call":
                    for a in tt["args"]:
                        tr = ex.operand(a)
                        if a["k"] != "const" and B.base_leaf(tr)[0] == "param" and "&mut" in f["locals"][a["pl"]["l"]]["ty"]:
                            writes.append((x, tt["line"], "call " + (tt["callee"].get("key") or "?")))
            ok = not writes
            ctx.ob(rid, "%s|error-arm-writes-no-state" % key, ok,
                   "" if ok else "%s: after a rejected move the error arm still writes engine state: %s" % (f["display"], writes[:3]),
                   ctx.where(f, t["line"]), sample={"error_arm_block": arm, "blocks_reachable": len(cfg.reachable_from(arm))})


def run(ctx):
    committers = {k: v for k, v in table("committers.json").items() if not k.startswith("_")}
    skip = {k for k, v in committers.items() if isinstance(v["contract"], dict) and v["contract"].get("Ok") == "any"}
    comm = {k: v for k, v in committers.items() if k not in skip}
    ctx.rule("C13.R1", "board-crate functions that probe a move leave no move made on the caller's board at any return (Ok, Err or `?`); make_uci: +1 on Ok, 0 on error exits (R2)", floor=6)
    ctx.rule("C13.R1m", "the move taken back is the move that was made (same expression)", floor=5)
    for a in ("find_uci", "uci_to_pgn", "pgn_to_bb", "make_uci", "make_all_uci"):
        ctx.fn("C13.R1", BB + a)
    fns = [(k, f) for k, f in workspace_fns(ctx.prog) if f["crate"] == "inkayaku_board" and k not in skip]
    n = run_balance(ctx, "C13.R1", fns, comm)
    ctx.extra["functions_scanned"] = len(fns)
    ctx.extra["effect_sites"] = n
    for a in ("find_uci", "uci_to_pgn", "make_uci"):
        if not any(o["key"].startswith("C13.R1|" + BB + a + "|") for o in ctx.obligations):
            ctx.lost("C13.R1", BB + a + " (no make/unmake site found in it)")
    r3_make_all(ctx)
    r4_callers(ctx)
    r5_selection(ctx)
    ctx.assumptions += [
        "Bitboard::make/unmake are exact inverses (C03) so 'count 0' means 'position unchanged'",
        "generate_pseudo_legal_moves, is_valid and the other &self helpers do not mutate the board (they take &self; the compiler enforces it)",
    ]


# ---- R5: the candidate selection consults source, target and promotion of the move on every accepting path
def _move_getters_in(tree):
    out = set()
    for x in leaves(tree):
        if x[0] == "call" and x[1].startswith("inkayaku_board::board::Move::get_"):
            out.add(x[1].rsplit("::", 1)[-1])
    return out


def consulted_fields(ctx, key, depth=0, memo=None):
    """for a function taking a Move: list of sets of Move getters consulted, one set per path that can return
    something other than `false` (bool functions), or one set for the whole function (everything else)"""
    from ..paths import returning_paths, NotLoopFree
    from ..expr import fold, Unfoldable
    memo = memo if memo is not None else {}
    if key in memo:
        return memo[key]
    memo[key] = None
    prog = ctx.prog
    f = prog.fns.get(key)
    if f is None or depth > 4:
        return None
    is_bool = f["locals"][0]["ty"] == "bool"

    def expand(trees):
        """getters read directly, plus those read by workspace callees that receive the move"""
        got = set()
        alts = [set()]
        for t in trees:
            got |= _move_getters_in(t)
            for x in leaves(t):
                if x[0] == "call" and x[1] in prog.fns and not x[1].startswith("inkayaku_board::board::Move::get_"):
                    sub = consulted_fields(ctx, x[1], depth + 1, memo)
                    if sub:
                        # a callee with several accepting paths: any of them may be the one taken
                        alts = [a | s for a in alts for s in sub]
        return [got | a for a in alts]
    if is_bool:
        try:
            pes = returning_paths(f, limit=5000)
        except (NotLoopFree, OverflowError):
            pes = None
        if pes is not None:
            out = []
            for pe in pes:
                r = pe.ret()
                try:
                    if fold(r) == 0:
                        continue
                except Unfoldable:
                    pass
                trees = [d for (d, c, b, ty) in pe.conds] + [r]
                out.extend(expand(trees))
            memo[key] = out
            return out
    # flow-insensitive: everything the function calls with the move
    ex = Exprs(f)
    trees = []
    for b in f["blocks"]:
        if b["cleanup"]:
            continue
        t = b["term"]
        if t["k"] == "call":
            trees.append(ex.call(t))
    memo[key] = expand(trees)
    # collapse alternatives of a non-boolean function into one set
    if memo[key]:
        u = set()
        for s in memo[key]:
            u |= s
        memo[key] = [u]
    return memo[key]


def r5_selection(ctx):
    rid = "C13.R5"
    ctx.rule(rid, "the move selected for a UCI string is chosen by a predicate that, on every accepting path, consults source square, target square and promotion piece of the candidate", floor=2)
    prog = ctx.prog
    need = {"get_source_square", "get_target_square", "get_promotion_piece"}
    for name in ("find_uci", "uci_to_pgn"):
        f = ctx.fn(rid, BB + name)
        ex = Exprs(f)
        preds = []
        for b in f["blocks"]:
            t = b["term"]
            if not b["cleanup"] and t["k"] == "call" and (t["callee"].get("key") or "").endswith("Iterator::find") or (t["k"] == "call" and not b["cleanup"] and (t["callee"].get("key") or "").endswith("Iterator>::find")):
                for a in t["args"]:
                    tr = ex.operand(a)
                    if tr[0] == "agg" and tr[1] == "closure":
                        preds.append(tr[2])
        if len(preds) != 1:
            ctx.lost(rid, "%s: the closure passed to Iterator::find (found %d)" % (name, len(preds)))
            continue
        sets = consulted_fields(ctx, preds[0])
        if not sets:
            ctx.lost(rid, "%s: accepting paths of the selection predicate" % name)
            continue
        bad = [sorted(need - s) for s in sets if not need <= s]
        ctx.ob(rid, "%s|selection-reads-source-target-promotion" % name, not bad,
               "" if not bad else "%s: the predicate that matches a UCI string to a move has %d accepting path(s) that never look at %s of the candidate: a string without (or with any) promotion letter then selects a promotion move"
               % (name, len(bad), bad[0]), ctx.where(f), sample={"function": name, "accepting_paths": len(sets), "fields": sorted(sets[0])})


def r6_ok_means_probed(ctx):
    """acceptance equals legality only if every accepted move went through the legality probe"""
    rid = "C13.R6"
    ctx.rule(rid, "find_uci and uci_to_pgn answer Ok only for a move they have made and found valid: every path to an Ok result passes Bitboard::make, then Bitboard::is_valid with a positive outcome (a fast path that accepts a pseudo-legal move unprobed lets pinned pieces and en-passant discoveries through)", floor=2)
    from ..cfg import Cfg
    for name in ("find_uci", "uci_to_pgn", "make_uci"):
        f = ctx.fn(rid, BB + name)
        if name == "make_uci":
            # as written: it delegates the probe; a new lookup helper spliced in would be read path-insensitively
            # (its `Illegal` outcome flows into the same match as `Legal`)
            f = getattr(ctx.prog, "raw_fns", {}).get(BB + name, f)
        cfg, ex = Cfg(f), Exprs(f)
        oks = []
        for b in sorted(cfg.reach):
            if f["blocks"][b]["cleanup"]:
                continue
            for s in f["blocks"][b]["stmts"]:
                d = s["dst"]
                if d is not None and d["l"] == 0 and not d["p"] and s["rv"]["op"] == "agg" and s["rv"].get("variant") == "Ok":
                    oks.append((b, s["line"]))
        makes = {b for b in cfg.reach if f["blocks"][b]["term"]["k"] == "call" and f["blocks"][b]["term"]["callee"].get("key") == BB + "make"}
        # blocks entered on the positive edge of a switch on is_valid()
        valid_edges = set()
        for b in sorted(cfg.reach):
            t = f["blocks"][b]["term"]
            if t["k"] == "switch":
                d = ex.operand(t["discr"])
                neg = False
                while d[0] == "un" and d[1] == "Not":
                    d, neg = d[2], not neg
                if d[0] == "call" and d[1] == BB + "is_valid":
                    pos = t["targets"][0][1] if neg else t["otherwise"]
                    valid_edges.add((b, pos))
        finds = {b for b in cfg.reach if f["blocks"][b]["term"]["k"] == "call" and f["blocks"][b]["term"]["callee"].get("key") == BB + "find_uci"}
        if name == "make_uci" and oks and makes and (finds or valid_edges):
            # make_uci may delegate the probe to find_uci: an Ok path is fine if it passed find_uci (whose Err is
            # propagated) or crossed the positive outcome of is_valid itself
            def reach_unprobed(target):
                seen, work = set(), [0]
                while work:
                    x = work.pop()
                    if x in seen or x in finds:
                        continue
                    seen.add(x)
                    if x == target:
                        return True
                    for y in cfg.succ[x]:
                        if f["blocks"][y]["cleanup"] or (x, y) in valid_edges:
                            continue
                        work.append(y)
                return False
            for b, line in oks:
                unprobed = reach_unprobed(b)
                ctx.ob(rid, "%s|ok-only-after-a-probe" % name, not unprobed,
                       "" if not unprobed else "make_uci can answer Ok (and leave the move made) on a path that neither went through find_uci nor saw is_valid succeed after its own make: the move applied may be illegal (a probe skipped for 'harmless' pieces misses en-passant discoveries)",
                       ctx.where(f, line))
            continue
        if not oks or not makes or not valid_edges:
            ctx.lost(rid, "%s: Ok exits / make call / branch on is_valid" % name)
            continue

        def reach_without(target, forbid_blocks, need_edge):
            """is `target` reachable from the entry without entering forbid_blocks and without crossing need_edge?"""
            seen, work = set(), [0]
            while work:
                x = work.pop()
                if x in seen or x in forbid_blocks:
                    continue
                seen.add(x)
                if x == target:
                    return True
                for y in cfg.succ[x]:
                    if f["blocks"][y]["cleanup"] or (x, y) in need_edge:
                        continue
                    work.append(y)
            return False
        for b, line in oks:
            unprobed = reach_without(b, makes, set()) or reach_without(b, set(), valid_edges)
            ctx.ob(rid, "%s|ok-only-after-make-and-is_valid" % name, not unprobed,
                   "" if not unprobed else "%s can answer Ok for a move it has not made and validated (a path to the Ok result avoids Bitboard::make or the positive outcome of is_valid): acceptance is no longer equivalent to legality" % name,
                   ctx.where(f, line))


_run_before_r6 = run


def run(ctx):
    _run_before_r6(ctx)
    r6_ok_means_probed(ctx)


def r7_lookup_by_the_given_text(ctx):
    """a move string is accepted exactly when it is the UCI spelling of a legal move"""
    rid = "C13.R7"
    ctx.rule(rid, "find_uci looks the candidates up by the text it was given (whitespace-trimmed at most): the value compared with Move::to_uci_string is the argument, not a rewritten spelling - a rewrite to fixed strings accepts texts that are not the UCI form of any legal move (and applies a different move)", floor=1)
    prog = ctx.prog
    f = ctx.fn(rid, BB + "find_uci")
    ex = Exprs(f)
    IDENT = ("trim", "trim_end", "trim_start", "as_str", "as_ref", "deref", "borrow", "to_string", "to_owned", "into", "clone", "from", "as_bytes")
    found = 0
    for bb in f["blocks"]:
        t = bb["term"]
        if t["k"] != "call" or bb["cleanup"]:
            continue
        for a in t["args"]:
            tr = ex.operand(a)
            if not (tr[0] == "agg" and tr[1] == "closure"):
                continue
            g = prog.fns.get(tr[2])
            if g is None or not any(b2["term"]["k"] == "call" and (b2["term"]["callee"].get("key") or "").endswith("Move::to_uci_string") for b2 in g["blocks"]):
                continue
            found += 1
            consts, foreign, from_arg = [], [], False
            seen = set()

            def walk(x, depth=0):
                nonlocal from_arg
                if not isinstance(x, tuple) or depth > 10:
                    return
                if x[0] == "c" and isinstance(x[1], str):
                    consts.append(x[1])
                elif x == ("param", 2):
                    from_arg = True
                elif x[0] == "call":
                    if x[1].rsplit("::", 1)[-1] not in IDENT:
                        foreign.append(x[1].rsplit("::", 1)[-1])
                    for y in x[2]:
                        walk(y, depth + 1)
                elif x[0] == "local":
                    if x[1] in seen:
                        return
                    seen.add(x[1])
                    for dfn in ex.defs.get(x[1], ()):
                        if dfn[0] == "stmt":
                            walk(ex.rvalue(dfn[3]), depth + 1)
                        elif dfn[0] == "call":
                            tt = dfn[3]
                            walk(("call", tt["callee"].get("key") or "?", tuple(ex.operand(a_) for a_ in tt["args"]), ""), depth + 1)
                elif x[0] in ("&", "*", "f", "dc", "cast"):
                    walk(x[1] if x[0] != "cast" else x[2], depth + 1)
                elif x[0] == "agg":
                    for y in x[3]:
                        walk(y, depth + 1)
            for cap in tr[3]:
                if "str" in str(cap) or True:
                    walk(cap)
            if consts:
                ctx.ob(rid, "find_uci|compares-the-given-text", False,
                       "find_uci compares the candidates' UCI strings with a text that can be one of the fixed spellings %s instead of what the caller gave: a string that is not the UCI form of a legal move (`e1a1` with a rook on e1) is accepted and another move is applied" % sorted(set(consts))[:6],
                       ctx.where(f, t["line"]))
            elif foreign or not from_arg:
                ctx.lost(rid, "the text find_uci compares the candidates with (computed through %s)" % (sorted(set(foreign)) or "something that is not the argument"))
            else:
                ctx.ob(rid, "find_uci|compares-the-given-text", True, "", ctx.where(f, t["line"]))
    if not found:
        ctx.lost(rid, "the closure of find_uci that compares Move::to_uci_string with the given text")


_run_before_r7_text = run


def run(ctx):
    _run_before_r7_text(ctx)
    r7_lookup_by_the_given_text(ctx)


def r8_candidates_generated_for_this_position(ctx):
    """a Move carries the undo information of the position it was generated in"""
    rid = "C13.R8"
    ctx.rule(rid, "the candidate moves of find_uci / uci_to_pgn / make_all_uci are generated from the board they are applied to, in the same call: nothing reachable from them keeps moves in thread-local or static storage (a Move packs the half-move clock and e.p. square to restore; taken from a cache filled on another position with the same placement, its unmake writes that other position's clock back)", floor=1)
    from ..callgraph import CallGraph
    prog = ctx.prog
    entries = [BB + n for n in ("find_uci", "uci_to_pgn", "make_uci", "make_all_uci") if BB + n in prog.fns]
    if not entries:
        ctx.lost(rid, "find_uci / uci_to_pgn / make_uci / make_all_uci")
        return
    cg = ctx.__dict__.get("_cg") or CallGraph(prog)
    reach = cg.reachable(entries)[0]
    bad = []
    for k in sorted(reach):
        g = prog.fns.get(k) or getattr(prog, "helper_bodies", {}).get(k)
        if g is None or not k.startswith("inkayaku_board::"):
            continue
        for bb in g["blocks"]:
            t = bb["term"]
            if t["k"] == "call" and not bb["cleanup"]:
                ck = t["callee"].get("key") or ""
                if "thread::local::LocalKey" in ck or "OnceLock" in ck or "LazyLock" in ck and "Regex" not in str(t["callee"].get("generic_args", "")):
                    tys = " ".join(str(x) for x in t["callee"].get("generic_args", []))
                    if "Move" in tys or "Vec" in tys or "RefCell" in tys or "Cell" in tys:
                        bad.append((k, ck.rsplit("::", 2)[-2] + "::" + ck.rsplit("::", 1)[-1], t["line"]))
    ok = not bad
    f = prog.fns[entries[0]]
    ctx.ob(rid, "no-move-cache-across-positions", ok,
           "" if ok else "%s keeps data across calls (%s): candidate moves served from it were generated on another board - their undo fields (previous half-move clock, previous e.p. square) belong to that position, and the legality probe's unmake writes them into this one" % (prog.fns[bad[0][0]]["display"] if bad[0][0] in prog.fns else bad[0][0], bad[0][1]),
           ctx.where(prog.fns.get(bad[0][0], f), bad[0][2]) if bad else ctx.where(f), sample={"functions_reached": len(reach)})


_run_before_r8_cache = run


def run(ctx):
    _run_before_r8_cache(ctx)
    r8_candidates_generated_for_this_position(ctx)
