"""make_move as a decision table (semtable): which inputs make it drop the move, set the half-move reset flag and set
each castling-right-lost flag. Shared by C01.R4 and C02.R4/R5."""
from ..expr import Inliner, show, leaves
from ..semtable import explore, judge, TooBig
from ..slice import Slicer
from .. import geometry as G
from . import movefields as MF

BB = "inkayaku_board::board::Bitboard::"
K = "inkayaku_board::board::constants::"
SELF_TURN = ("f", ("*", ("param", 1)), "turn")
PARAMS = {3: "filter", 4: "source", 5: "target", 6: "piece", 7: "castle", 8: "ep", 9: "promote", 10: "next_ep"}


def _strip(t):
    while t[0] in ("*", "&"):
        t = t[1]
    return t


def var_of(t):
    if t == SELF_TURN:
        return "turn"
    if t[0] == "param" and t[1] in PARAMS:
        return PARAMS[t[1]]
    if t[0] == "call" and t[1].endswith("::get_piece_const_by_square_shift"):
        # what stands on the target (or e.p. victim) square is the captured piece; a look at the source square (an
        # assertion that the moving piece is there) is something else
        lv = list(leaves(t[2][1])) + [t[2][1]] if len(t[2]) > 1 else []
        if ("param", 4) in lv and ("param", 5) not in lv:
            return "on_source"
        return "attacked"
    if t[0] == "f" and t[2] in ("king_side_castle", "queen_side_castle"):
        o = _strip(t[1])
        if o[0] == "f" and _strip(o[1]) == ("param", 1) and o[2] in ("white", "black"):
            return "%s.%s" % (o[2], t[2])
    return None


def table(ctx, rid, observed=()):
    """(f, leaves, domains, consts, home) of make_move for the observed Move setters (plus the push of the move):
    only the decisions in the backward slice of those calls are explored. Cached on the context."""
    cache = ctx.__dict__.setdefault("_genmove_tables", {})
    key = tuple(sorted(observed))
    if key in cache:
        return cache[key]
    cache[key] = None
    prog = ctx.prog
    f = ctx.fn(rid, BB + "make_move")
    c = {n: prog.const_value(K + n) for n in ("NO_PIECE", "PAWN", "KNIGHT", "ROOK", "KING", "QUEEN", "WHITE", "BLACK")}
    if any(v is None for v in c.values()):
        ctx.lost(rid, "piece / colour constants", missing=True)
        return None
    home = {"white": {"a": G.sq_of(0, 7), "e": G.sq_of(4, 7), "h": G.sq_of(7, 7)}, "black": {"a": G.sq_of(0, 0), "e": G.sq_of(4, 0), "h": G.sq_of(7, 0)}}
    squares = sorted({v for d in home.values() for v in d.values()}) + [G.sq_of(3, 3), G.sq_of(6, 4)]
    domains = {
        "turn": [c["WHITE"], c["BLACK"]], "filter": [0, 1], "source": squares, "target": squares,
        "piece": [c["PAWN"], c["KNIGHT"], c["ROOK"], c["KING"]], "castle": [0, 1], "ep": [0, 1],
        "promote": [c["NO_PIECE"], c["QUEEN"]], "next_ep": [64, 20], "attacked": [c["NO_PIECE"], c["PAWN"], c["ROOK"]],
        "on_source": [c["PAWN"], c["KNIGHT"], c["ROOK"], c["KING"]],
        "white.king_side_castle": [0, 1], "white.queen_side_castle": [0, 1], "black.king_side_castle": [0, 1], "black.queen_side_castle": [0, 1],
    }
    n_setters = len({(blk["term"]["callee"].get("key") or "") for blk in f["blocks"] if blk["term"]["k"] == "call" and (blk["term"]["callee"].get("key") or "").startswith(MF.MOVE + "set_")})
    if n_setters < 8:
        # the move word is assembled without (most of) Move's setters (OR-ed together in one expression): which flags a
        # generated move carries cannot be read off setter calls
        ctx.lost(rid, "make_move records the move through Move's setters (only %d different setters are called)" % n_setters)
        return None
    seeds = []
    for bi, blk in enumerate(f["blocks"]):
        t = blk["term"]
        if t["k"] == "call":
            k = t["callee"].get("key") or t["callee"].get("orig") or ""
            if k.endswith("Vec::push") or any(k == MF.MOVE + s for s in observed):
                seeds.append(bi)
    sl = Slicer(f)
    sl.backward([], seeds)       # (whether a setter is called, not what it is given: control dependence only -
    #  the move being built is an argument of every setter and would make every decision relevant)
    inl = Inliner(prog, only=lambda k: k in (BB + "is_white_turn",))
    try:
        leaves = explore(f, var_of, domains, inliner=inl, keep_mem=lambda k: k.startswith(MF.MOVE), max_leaves=60000, relevant=set(sl.last_blocks))
    except TooBig as e:
        ctx.lost(rid, "make_move as a decision table (%s)" % e)
        return None
    cache[key] = (f, leaves, domains, c, home)
    ctx.extra.setdefault("make_move_table_leaves", {})["+".join(key) or "push"] = len(leaves)
    return cache[key]


def pushed(lf):
    return any(t[0] == "call" and t[1].endswith("Vec::push") for b, t in lf.calls)


def setter_called(lf, sname):
    return any(t[0] == "call" and t[1] == MF.MOVE + sname for b, t in lf.calls)


def dropped_expected(e, c):
    return e["attacked"] == c["NO_PIECE"] and e["promote"] == c["NO_PIECE"] and e["filter"] == 1


def describe(e, c):
    inv = {v: k for k, v in c.items() if k not in ("WHITE", "BLACK")}
    out = []
    for k, v in sorted(e.items()):
        if k in ("piece", "attacked", "promote"):
            out.append("%s=%s" % (k, inv.get(v, v)))
        elif k == "turn":
            out.append("turn=%s" % ("white" if v == c["WHITE"] else "black"))
        elif k in ("source", "target"):
            out.append("%s=%s" % (k, G.name_of(v) if hasattr(G, "name_of") else v))
        else:
            out.append("%s=%s" % (k, v))
    return ", ".join(out)
