"""C07 — every go is answered by exactly one bestmove."""
from .common import run_panic_inventory, count_calls_on_paths, SEARCH, UCITX
from .c09 import bestmove_rule

SCOPE = "engine"
LEVEL = "other"
PANIC_PROFILES = True
EXPLANATION = (
    "Static analysis of the resolved MIR. R1: on every returning path of Search::go exactly one call resolves to "
    "UciTx::best_move. R2: no other workspace function calls it. R3: Search::idle reaches go exactly once per "
    "UciGo message and check_messages cannot reach go. R4: panic-site inventory (non-arithmetic kinds: bounds "
    "checks, unwrap/expect, indexing, explicit panics, division by zero, Duration arithmetic) of the whole search "
    "thread, context-sensitive in the generic parameters the engine is instantiated with; every site folds away, "
    "is bounded by mask/shift analysis, or carries a reviewed guard argument. Decided: 'exactly one bestmove line "
    "per go and the search thread cannot die on a bounds check or unwrap'. Not decided: legality / non-nullness "
    "of the move and all timing behaviour (the three confirmed zero-budget / root-repetition defects are value "
    "dependent and are not reported by this check).")


def entries(prog):
    return [SEARCH + "idle"]


def run(ctx):
    bestmove_rule(ctx, "C07.R1")
    from . import c07_struct
    c07_struct.run(ctx)
    run_panics(ctx)
    # the board a later `go` searches is the one the previous search left behind: the answer is legal in the
    # position last set only if every search exit has taken back every move it made (same rule as C09.R1)
    from . import c09
    c09.balance_rule(ctx, "C07.R6")


def run_panics(ctx, rid="C07.R4"):
    run_panic_inventory(ctx, rid, entries(ctx.prog),
                        "no unreviewed non-arithmetic panic site (bounds check, unwrap, index, panic!, div by zero, RefCell, Duration ops) is reachable in the search thread",
                        ctx_sensitive=True, kinds=("contract",), fn_floor=200, site_floor=60, declared_invariants_undecided=True)
