"""C19 — Lichess bot-stream payloads decode to the data they carry."""
import re
from .common import table

SCOPE = ["inkayaku_lichess_api"]
LEVEL = "other"
EXPLANATION = (
    "Static analysis of compiler-evaluated constants. The wire names a serde-derived Deserialize impl accepts are the "
    "string arrays FIELDS / VARIANTS that the derive macro emits; the driver evaluates them with rustc's const "
    "evaluation after macro expansion, so every rename / rename_all attribute is already applied. R1: the variant "
    "tags of BotGameState and BotEvent equal the documented message types and both are internally tagged by the key "
    "'type'. R2: no accepted field or variant name contains '_' or starts with an upper-case letter (the Lichess API "
    "is camelCase/lowercase throughout; a snake_case key never matches a transmitted one, so the field silently "
    "decodes as absent). R3: the game-state record accepts the clock/increment/status/moves keys. Decided: the "
    "name-level necessary conditions of decoding; not decided: value decoding, escapes, optional-field behaviour.")

API = "inkayaku_lichess_api::api::"


def serde_consts(prog):
    """{type name: {"VARIANTS": [...], "FIELDS": [[...], ...], "fn": deserialize fn key}}"""
    out = {}
    for k, c in prog.consts.items():
        m = re.match(r"^(.*)::<(\w+) as Deserialize>::deserialize::(FIELDS|VARIANTS)(#\d+)?$", k)
        if not m or not k.startswith(API):
            continue
        ty = m.group(2)
        e = out.setdefault(ty, {"VARIANTS": None, "FIELDS": [], "fn": "%s::<%s as Deserialize>::deserialize" % (m.group(1), ty), "file": c["file"], "line": c["line"]})
        if not isinstance(c["value"], list):
            e.setdefault("undecodable", []).append(k)
            continue
        if m.group(3) == "VARIANTS":
            e["VARIANTS"] = c["value"]
        else:
            e["FIELDS"].append(c["value"])
    return out


def string_consts_of(prog, fnkey):
    """string constants appearing as operands in a function and its nested items"""
    out = set()
    for k, f in prog.fns.items():
        if k == fnkey or k.startswith(fnkey + "::"):
            for b in f["blocks"]:
                for s in b["stmts"]:
                    for a in s["rv"].get("a", []):
                        if a.get("k") == "const" and isinstance(a.get("v"), str):
                            out.add(a["v"])
                t = b["term"]
                if t["k"] == "call":
                    for a in t["args"]:
                        if a.get("k") == "const" and isinstance(a.get("v"), str):
                            out.add(a["v"])
    return out


def run(ctx):
    prog = ctx.prog
    spec = table("spec_lichess.json")
    sc = serde_consts(prog)
    ctx.rule("C19.R1", "the variant tags accepted for BotGameState / BotEvent are exactly the documented message types, tagged by key 'type'", floor=4)
    ctx.rule("C19.R2", "no wire name (serde FIELDS / VARIANTS after all rename attributes) contains '_' or starts upper-case", floor=30)
    ctx.rule("C19.R3", "the game-state record accepts the documented clock / increment / status / moves keys", floor=1)
    if len(sc) < 15:
        ctx.lost("C19.R2", "serde FIELDS/VARIANTS constants of lichess_api (found %d types, expected about 21)" % len(sc))
    for ty in ("BotGameState", "BotEvent"):
        e = sc.get(ty)
        if e is None or e["VARIANTS"] is None:
            ctx.lost("C19.R1", "VARIANTS constant of <%s as Deserialize>" % ty)
            continue
        want = spec[ty]["variants"]
        ok = sorted(e["VARIANTS"]) == sorted(want)
        ctx.ob("C19.R1", "%s|variant-tags" % ty, ok,
               "" if ok else "%s accepts the type tags %s, the API sends %s (missing: %s, unknown: %s)"
               % (ty, e["VARIANTS"], want, sorted(set(want) - set(e["VARIANTS"])), sorted(set(e["VARIANTS"]) - set(want))),
               "%s:%d" % (e["file"], e["line"]), sample={"type": ty, "accepted": e["VARIANTS"]})
        strs = string_consts_of(prog, e["fn"])
        ok = spec[ty]["tag"] in strs
        ctx.ob("C19.R1", "%s|tag-key" % ty, ok, "" if ok else "%s is not internally tagged by '%s' (string constants in its deserializer: %s)" % (ty, spec[ty]["tag"], sorted(strs)[:12]),
               "%s:%d" % (e["file"], e["line"]), sample={"type": ty, "tag": spec[ty]["tag"]})
    for ty, e in sorted(sc.items()):
        if e.get("undecodable"):
            ctx.lost("C19.R2", "constant %s could not be decoded" % e["undecodable"][0])
        groups = ([("VARIANTS", e["VARIANTS"])] if e["VARIANTS"] is not None else []) + [("FIELDS#%d" % i, fl) for i, fl in enumerate(e["FIELDS"])]
        for gname, names in groups:
            bad = [n for n in names if "_" in n or n[:1].isupper()]
            ctx.ob("C19.R2", "%s|%s" % (ty, gname), not bad,
                   "" if not bad else "%s expects the key(s) %s on the wire; Lichess sends camelCase (%s), so the value is silently dropped (a rename_all attribute is missing on this struct/variant)"
                   % (ty, bad, [re.sub(r"_(\w)", lambda m: m.group(1).upper(), n) for n in bad]),
                   "%s:%d" % (e["file"], e["line"]), sample={"type": ty, "group": gname, "names": names})
    gs = sc.get("GameStateHolder")
    if gs is None or not gs["FIELDS"]:
        ctx.lost("C19.R3", "FIELDS of GameStateHolder")
    else:
        want = spec["GameStateHolder"]["fields_at_least"]
        missing = [w for w in want if w not in gs["FIELDS"][0]]
        ctx.ob("C19.R3", "GameStateHolder|state-keys", not missing, "" if not missing else "GameStateHolder does not accept the keys %s" % missing,
               "%s:%d" % (gs["file"], gs["line"]), sample={"accepted": gs["FIELDS"][0]})
    ctx.rule("C19.R4", "every enumerated key set (status, variant, speed, source, challenge enums ...) equals the documented wire keys", floor=10)
    for ty, want in sorted(spec.get("enums", {}).items()):
        e = sc.get(ty)
        if e is None or e["VARIANTS"] is None:
            # no derived decoder: a hand-written one? Its accepted keys are the string literals it compares the
            # transmitted key with (in <T as FromStr>::from_str / <T as Deserialize>::deserialize and their nested items)
            hand = [k for k in prog.fns if ("<%s as FromStr>::from_str" % ty) in k or ("<%s as Deserialize>::deserialize" % ty) in k or ("<%s as TryFrom" % ty) in k]
            lits = set()
            calls = set()
            for k in hand:
                lits |= string_consts_of(prog, k)
                for b in prog.fns[k]["blocks"]:
                    if b["term"]["k"] == "call":
                        calls.add((b["term"]["callee"].get("key") or "").rsplit("::", 1)[-1])
            lits = {l for l in lits if l and " " not in l and len(l) < 40}
            if not hand or not lits:
                ctx.lost("C19.R4", "VARIANTS constant of <%s as Deserialize> (type renamed or no longer an enum)" % ty)
                continue
            lowered = bool({"to_lowercase", "to_ascii_lowercase", "make_ascii_lowercase"} & calls)
            any_case = "eq_ignore_ascii_case" in calls
            if any_case:
                accepted = lambda w: any(l.lower() == w.lower() for l in lits)
            elif lowered:
                accepted = lambda w: w.lower() in lits        # the key is lower-cased first: only lower-case literals can match
            else:
                accepted = lambda w: w in lits
            missing = sorted(w for w in want if not accepted(w))
            f0 = prog.fns[hand[0]]
            ctx.ob("C19.R4", "%s|keys" % ty, not missing,
                   "" if not missing else "%s is decoded by hand: the transmitted key is %scompared with the literals %s, so the documented key(s) %s match no arm - such a message decodes to the fallback / an error instead of its own variant%s" % (
                       ty, "lower-cased and then " if lowered and not any_case else "", sorted(lits), missing,
                       " (an arm written in wire casing can never equal a lower-cased string)" if lowered and any(w in lits for w in missing) else ""),
                   "%s:%d" % (f0["file"], f0["line"]), sample={"type": ty, "hand_written": True, "literals": sorted(lits)})
            continue
        got = e["VARIANTS"]
        ok = sorted(got) == sorted(want)
        ctx.ob("C19.R4", "%s|keys" % ty, ok,
               "" if ok else "%s accepts %s on the wire; the API sends %s - a message carrying one of these keys no longer decodes (a Rust variant was renamed, added or removed without a matching serde rename)"
               % (ty, sorted(set(got) - set(want)) or "nothing new", sorted(set(want) - set(got)) or "nothing else"),
               "%s:%d" % (e["file"], e["line"]), sample={"type": ty, "keys": got} if ty == "GameStatusKey" else None)
    ctx.extra["deserialize_types"] = sorted(sc)
    ctx.assumptions += ["serde_derive emits the accepted names as the FIELDS / VARIANTS constants of the generated deserialize function (serde 1.x behaviour)",
                        "flattened variants (gameState) have no FIELDS constant; their keys are those of the flattened struct"]


def r5_move_list(ctx):
    """the space-separated move string is split into all of its tokens, in order"""
    rid = "C19.R5"
    ctx.rule(rid, "from_space_sv splits the move string on ' ' and collects every token in order: no iterator adaptor that drops, truncates or reorders tokens (a filter is accepted only when its predicate is `!is_empty()`); the empty-string case yields the empty list; the `moves` field is decoded through it", floor=3)
    prog = ctx.prog
    ks = [k for k in prog.fns if k.endswith("::from_space_sv")]
    if len(ks) != 1:
        ctx.lost(rid, "bot_game_state_response::from_space_sv")
        return
    f = prog.fns[ks[0]]
    from ..expr import Exprs
    ex = Exprs(f)
    SPLITS = ("split", "split_whitespace", "split_ascii_whitespace", "split_terminator")

    def from_split(tree, depth=0):
        """does this value derive from the token iterator (a split call somewhere below it)?"""
        if not isinstance(tree, tuple) or depth > 40:
            return False
        if tree and tree[0] == "call" and isinstance(tree[1], str) and tree[1].rsplit("::", 1)[-1] in SPLITS:
            return True
        return any(from_split(x, depth + 1) for x in tree if isinstance(x, tuple))
    calls = []
    on_tokens = []      # adaptor calls whose receiver is the token stream
    closures = {}
    for b in f["blocks"]:
        t = b["term"]
        if b["cleanup"] or t["k"] != "call":
            continue
        name = (t["callee"].get("orig") or t["callee"].get("key") or "?")
        calls.append(name)
        short = name.rsplit("::", 1)[-1]
        if t["args"] and from_split(ex.operand(t["args"][0])):
            on_tokens.append(short)
            for a in t["args"]:
                tr = ex.operand(a)
                if tr[0] == "agg" and tr[1] == "closure":
                    closures.setdefault(short, []).append(tr[2])
                elif tr[0] == "fn" and short in ("map", "map_while", "filter_map", "flat_map"):
                    closures.setdefault(short + ":fn", []).append(tr[1])
    last = [c.rsplit("::", 1)[-1] for c in calls]
    splits = [c for c in last if c in SPLITS]
    if len(splits) != 1:
        # tokenised some other way (a hand-written scan, two passes): not read by this rule
        ctx.lost(rid, "from_space_sv: exactly one split of the string (found %d)" % len(splits))
    else:
        ok = any(c in last for c in ("collect", "push", "extend", "from_iter"))
        ctx.ob(rid, "split-and-collect", ok, "" if ok else "from_space_sv splits the string but does not gather the tokens (calls: %s)" % last, "%s:%d" % (f["file"], f["line"]), sample={"calls": last})
    last = on_tokens
    DROPPING = {"filter", "filter_map", "take", "skip", "take_while", "skip_while", "step_by", "rev", "nth", "last", "dedup", "truncate", "pop", "remove", "retain", "chunks", "zip", "find", "position", "map_while", "splitn", "rsplitn", "split_once"}
    bad = []
    for c in sorted(set(last) & DROPPING):
        if c == "filter":
            # accepted form: the predicate only tests emptiness
            harmless = True
            for ck in closures.get("filter", []):
                g = prog.fns.get(ck)
                if g is None:
                    harmless = False
                    continue
                gc = [(t["callee"].get("key") or "?").rsplit("::", 1)[-1] for t in (b["term"] for b in g["blocks"] if not b["cleanup"]) if t["k"] == "call"]
                cmps = [s for b in g["blocks"] for s in b["stmts"] if s["rv"]["op"] == "bin"]
                if set(gc) - {"is_empty"} or cmps:
                    harmless = False
            if harmless and closures.get("filter"):
                continue
        bad.append(c)
    # a token is handed on as it was transmitted: what `map` applies to it is a conversion (to_string, String::from,
    # UciMove::from_str ...), not a function of the repository that compares it with literals and substitutes others
    rewriting = []
    for ck in closures.get("map", []) + closures.get("map:fn", []):
        keys = [ck] + [k for k in prog.fns if k.startswith(ck + "::")]
        todo, seen_k = list(keys), set()
        while todo:
            k = todo.pop()
            if k in seen_k or k not in prog.fns:
                continue
            seen_k.add(k)
            g = prog.fns[k]
            for bb in g["blocks"]:
                tt = bb["term"]
                if tt["k"] == "call" and (tt["callee"].get("key") or "").startswith("inkayaku_lichess_api::"):
                    todo.append(tt["callee"]["key"])
        lits = set()
        for k in seen_k:
            lits |= {l for l in string_consts_of(prog, k) if 3 < len(l) < 7 and l.isalnum()}
        if lits and any(k.startswith("inkayaku_lichess_api::") for k in seen_k):
            rewriting.append((ck, sorted(lits)))
    if "map" in on_tokens or closures.get("map:fn"):
        ctx.ob(rid, "tokens-handed-on-unchanged", not rewriting,
               "" if not rewriting else "from_space_sv maps every token through %s, which compares it with / substitutes the literals %s: a transmitted move that happens to have one of these spellings (a rook or queen move e1h1) is decoded as another move" % (rewriting[0][0].rsplit("::", 1)[-1], rewriting[0][1][:8]),
               "%s:%d" % (f["file"], f["line"]))
    ctx.ob(rid, "no-token-dropped", not bad, "" if not bad else "from_space_sv applies %s to the token stream: tokens that do not pass (for example five-character promotions such as h7g8q under a length test) silently vanish from the decoded move list" % bad,
           "%s:%d" % (f["file"], f["line"]))
    # the `moves` fields are decoded through it: the deserialize_with shim calls from_space_sv
    users = [k for k, g in prog.fns.items() if any(t["k"] == "call" and (t["callee"].get("key") or "").endswith("::from_space_sv") for t in (b["term"] for b in g["blocks"]))]
    ok = len(users) >= 1
    ctx.ob(rid, "moves-field-uses-it", ok, "" if ok else "no derived deserializer calls from_space_sv any more (the `moves` field lost its deserialize_with attribute?)", "%s:%d" % (f["file"], f["line"]), sample={"users": users[:3]})


_run_before_r5 = run


def run(ctx):
    _run_before_r5(ctx)
    r5_move_list(ctx)


def r6_optional_fields(ctx):
    """a field declared optional (Option<..>) may be absent"""
    rid = "C19.R6"
    ctx.rule(rid, "no derived deserializer of the API types demands the presence of a field whose Rust type is Option<..>: the generated visit_map falls back to the absent-is-None helper for it, not to Error::missing_field (a deserialize_with attribute without `default` turns an optional field into a required one)", floor=2)
    from ..expr import Exprs, leaves
    prog = ctx.prog
    def camel(n):
        parts = n.split("_")
        return parts[0] + "".join(p[:1].upper() + p[1:] for p in parts[1:])
    optional = {}      # wire name -> [(type, rust field)]
    nfields = 0
    for k, a in prog.adts.items():
        if not k.startswith("inkayaku_lichess_api::"):
            continue
        for v in a.get("variants", []):
            for fld in v.get("fields", []):
                nfields += 1
                if (fld.get("ty") or "").replace("core::", "std::").startswith("std::option::Option<"):
                    for w in {fld["name"], camel(fld["name"])}:
                        optional.setdefault(w, []).append((k.rsplit("::", 1)[-1] + "::" + (v.get("name") or ""), fld["name"]))
    hard, soft = [], 0
    for k, f in prog.fns.items():
        if not k.startswith(API) or "Deserialize" not in k:
            continue
        ex = None
        for b in f["blocks"]:
            t = b["term"]
            if b["cleanup"] or t["k"] != "call":
                continue
            key = (t["callee"].get("orig") or t["callee"].get("key") or "")
            if not key.endswith("missing_field"):
                continue
            ex = ex or Exprs(f)
            names = [x[1] for a_ in t["args"] for x in leaves(ex.operand(a_)) if x[0] == "c" and isinstance(x[1], str)]
            if "::private::" in key or "__private" in key:
                soft += 1
                continue
            for n in names:
                hard.append((n, k))
    ctx.ob(rid, "matcher-control", soft >= 10 and nfields >= 30 and len(optional) >= 5,
           "" if (soft >= 10 and nfields >= 30 and len(optional) >= 5) else "the derived deserializers / ADT facts were not recognised (absent-is-default helper calls %d, fields %d, optional fields %d)" % (soft, nfields, len(optional)), "",
           sample={"helper_calls": soft, "fields": nfields, "optional_fields": len(optional)})
    bad = [(n, k) for n, k in hard if n in optional]
    ctx.ob(rid, "optional-fields-may-be-absent", not bad,
           "" if not bad else "the deserializer %s answers `missing field` when the key %s is absent, although the field is declared %s: a message without it (the API omits optional fields) no longer decodes" % (
               bad[0][1].split("::<")[0].rsplit("::", 1)[-1] if bad else "", sorted({n for n, _ in bad}), sorted({"%s.%s: Option" % o for n, _ in bad for o in optional[n]})[:3]),
           "", sample={"hard_required_keys": sorted({n for n, _ in hard})})


_run_before_r6 = run


def run(ctx):
    _run_before_r6(ctx)
    r6_optional_fields(ctx)


def r7_value_decoders(ctx):
    """hand-written field decoders keep the transmitted value"""
    rid = "C19.R7"
    ctx.rule(rid, "the hand-written (deserialize_with) decoders of the API types do not route an integer through a float (f32/f64 -> integer cast loses values above 2^24 / 2^53) and do not ask for a borrowed &str (fails for any string with a JSON escape) except the two reviewed decoders of escape-free texts (move list, challenge rules)", floor=2)
    from ..expr import operand_ty
    prog = ctx.prog
    float_casts, borrowed, helpers = [], [], 0
    # (a decoder that is new to the reviewed tree has been spliced into the generated code that calls it: it is
    # scanned from its own body, kept aside by the inliner)
    for k, f in sorted(list(prog.fns.items()) + list(getattr(prog, "helper_bodies", {}).items())):
        if not k.startswith(API) or f.get("test") or "Deserialize>::deserialize" in k or "Visitor" in k or "Serialize>::serialize" in k:
            continue
        helpers += 1
        for b in f["blocks"]:
            if b["cleanup"]:
                continue
            for s in b["stmts"]:
                rv = s["rv"]
                if rv["op"] == "cast" and (operand_ty(f, rv["a"][0]) or "") in ("f32", "f64") and rv["cast_ty"] in ("u8", "u16", "u32", "u64", "usize", "i8", "i16", "i32", "i64", "isize"):
                    float_casts.append((k, s["line"], operand_ty(f, rv["a"][0]), rv["cast_ty"], f))
            t = b["term"]
            if t["k"] == "call":
                key = t["callee"].get("key") or ""
                if "<&str as Deserialize>::deserialize" in key or "<&'a str as Deserialize" in key or ("impls::<&" in key and "str as Deserialize" in key):
                    borrowed.append((k, t["line"], f))
    ctx.ob(rid, "matcher-control", helpers >= 1 and any(k.endswith("::from_space_sv") for k, _, _ in borrowed),
           "" if (helpers >= 1 and any(k.endswith("::from_space_sv") for k, _, _ in borrowed)) else "the reviewed borrowed-str decoder from_space_sv was not recognised (helpers scanned: %d)" % helpers, "",
           sample={"functions_scanned": helpers})
    for k, line, ft, it, f in float_casts:
        ctx.ob(rid, "float-to-int|%s" % k.rsplit("::", 1)[-1], False,
               "%s decodes a number as %s and casts it to %s: integers that %s cannot represent exactly (above 2^%d; the unlimited-clock sentinel 2147483647, long correspondence clocks) decode to a different value without an error" % (f["display"], ft, it, ft, 24 if ft == "f32" else 53),
               "%s:%d" % (f["file"], line))
    ctx.ob(rid, "no-float-detour", not float_casts, "" if not float_casts else "%d float-to-integer cast(s) in field decoders" % len(float_casts), "")
    REVIEWED_BORROWED = {"from_space_sv": "the move list consists of UCI move texts: no character that JSON escapes",
                         "from_csv": "the challenge rules are identifiers (noAbort, noRematch, ...): no character that JSON escapes"}
    new_borrowed = [(k, line, f) for k, line, f in borrowed if k.rsplit("::", 1)[-1] not in REVIEWED_BORROWED]
    ctx.ob(rid, "no-borrowed-str-decoder", not new_borrowed,
           "" if not new_borrowed else "%s asks serde for a borrowed &str: a string containing any JSON escape (quote, backslash, newline, unicode escape) cannot be borrowed from the input and the whole message fails to decode" % sorted({f["display"] for k, line, f in new_borrowed}),
           "%s:%d" % (new_borrowed[0][2]["file"], new_borrowed[0][1]) if new_borrowed else "")


_run_before_r7 = run


def run(ctx):
    _run_before_r7(ctx)
    r7_value_decoders(ctx)
