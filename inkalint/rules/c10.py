"""C10 — draw rules in search: threefold repetition and the fifty-move rule."""
from .common import SEARCH, BB
from ..cfg import Cfg
from ..expr import Exprs, fold, Unfoldable, show, leaves, Inliner, subst
from .. import balance as B

SCOPE = "engine"
LEVEL = "other"
EXPLANATION = (
    "Static analysis of the resolved MIR and of compiler-evaluated constants. R1: every comparison in the engine "
    "crates between a read of Bitboard.halfmove_clock and a constant (trait constants are evaluated per implementing "
    "type) must not be satisfiable below 100 plies - make adds exactly 1 per ply (C02.R3), so the constant is the "
    "fifty-move threshold in plies. R2: the position is recorded in the history before repetitions are counted, "
    "with the same ply expression, and the replay of the game history records after every move it makes. R3: the "
    "value returned on the repetition path is built from draw_score, the contempt option and the ply parity only "
    "(no evaluation call in that region). R4: the repetition count is compared with exactly 'at least 3'. "
    "Decided: these necessary conditions; not decided: count_repetitions over arbitrary histories.")

ZH = "inkayaku_engine_core::engine::zobrist_history::ZobristHistory::"
HEUR = "inkayaku_engine_core::engine::heuristic::Heuristic"


def strip_cast(t):
    while t[0] == "cast":
        t = t[2]
    return t


def is_clock_read(t):
    t = strip_cast(t)
    return t[0] == "f" and t[2] == "halfmove_clock"


_INL = {}


def general_comparison(prog, bop, a0, a1):
    """[(label, least clock value at which the comparison holds for some side to move)] per binding of the trait
    constants, or None when the comparison does not involve the half-move clock / cannot be evaluated"""
    inl = _INL.get(id(prog))
    if inl is None:
        inl = _INL[id(prog)] = Inliner(prog, only=lambda k: k.startswith("inkayaku_"))
    t0, t1 = inl.expand(a0), inl.expand(a1)
    def clock_leaves(t):
        return [x for x in leaves(t) if x[0] == "f" and x[2] == "halfmove_clock"]
    if not clock_leaves(t0) and not clock_leaves(t1):
        return None
    tree = ("bin", bop, t0, t1, "bool")
    turn_leaves = [x for x in leaves(tree) if x[0] == "f" and x[2] == "turn"]
    generic = [x for x in leaves(tree) if x[0] == "c" and not isinstance(x[1], (int, bool)) and x[3]]
    strange = [x for x in leaves(tree) if x[0] in ("param", "local", "call", "*") or (x[0] == "f" and x[2] not in ("halfmove_clock", "turn"))]
    strange = [x for x in strange if not any(x is y or x == y[1] for y in clock_leaves(tree) + turn_leaves)]
    strange = [x for x in strange if x[0] in ("call",)]
    if strange:
        return None
    bindings = [("", {})]
    if generic:
        bindings = []
        gpaths = sorted({x[3] for x in generic})
        trait = gpaths[0].rsplit("::", 1)[0]
        impl_types = sorted({i["self_ty"] for i in prog.impls if i.get("trait") == trait}) or [None]
        for it in impl_types:
            m = {}
            for x in generic:
                name = x[3].rsplit("::", 1)[-1]
                ov = [c for ck, c in prog.consts.items() if it and ck.endswith("::" + name) and ("<%s as " % it.rsplit("::", 1)[-1]) in ck]
                v = ov[0]["value"] if ov else prog.const_value(x[3])
                if not isinstance(v, int):
                    return None
                m[x] = ("c", v, x[2], None)
            bindings.append((" for %s" % (it or "").rsplit("::", 1)[-1], m))
    out = []
    for label, m in bindings:
        least = None
        for clock in range(0, 4201):
            hit = False
            for turn in (0, 1):
                env = dict(m)
                for x in clock_leaves(tree):
                    env[x] = ("c", clock, "u32", None)
                for x in turn_leaves:
                    env[x] = ("c", turn, "u8", None)
                try:
                    if fold(subst(tree, env)):
                        hit = True
                except Unfoldable:
                    return None
            if hit:
                least = clock
                break
        if least is None:
            least = 10 ** 9   # never true
        out.append(("%s%s" % (show(tree)[:120], label), least))
    return out


def clock_comparisons(ctx):
    """every comparison between a read of Bitboard.halfmove_clock and a constant in the engine crates:
    yields (function, block, statement, op as seen from the clock, [(label, value)], cfg, exprs)"""
    prog = ctx.prog
    for k, f in prog.fns.items():
        if f.get("test") or f["kind"] == "promoted" or f["crate"] not in ("inkayaku_engine_core", "inkayaku_engine_app"):
            continue
        ex = cfg = None
        for bi, b in enumerate(f["blocks"]):
            if b["cleanup"]:
                continue
            for s in b["stmts"]:
                rv = s["rv"]
                if rv["op"] != "bin" or rv["bop"] not in ("Ge", "Gt", "Le", "Lt", "Eq", "Ne"):
                    continue
                ex = ex or Exprs(f)
                a0, a1 = ex.operand(rv["a"][0]), ex.operand(rv["a"][1])
                if not is_clock_read(a0) and not is_clock_read(a1):
                    # the clock inside an arithmetic expression or behind a helper (`(clock + turn) / 2 >= MAX / 2`):
                    # the comparison is evaluated for every clock value 0..4200 and both sides to move
                    g = general_comparison(prog, rv["bop"], a0, a1)
                    if g is not None:
                        cfg = cfg or Cfg(f)
                        yield f, bi, s, "Ge", g, cfg, ex
                    continue
                if is_clock_read(a0) == is_clock_read(a1):
                    continue
                clock_first = is_clock_read(a0)
                other = a1 if clock_first else a0
                op = rv["bop"]
                if not clock_first:
                    op = {"Ge": "Le", "Gt": "Lt", "Le": "Ge", "Lt": "Gt"}.get(op, op)
                cands = []
                oc = strip_cast(other)
                if oc[0] != "c":
                    # an expression over constants (`MAX - 1`): fold it for every value the constant leaves can take
                    cleaves = [x for x in leaves(oc) if x[0] == "c"]
                    others = [x for x in leaves(oc) if x[0] in ("param", "local", "f", "call", "*")]
                    if others or not cleaves:
                        continue
                    from ..expr import subst
                    generic = [x for x in cleaves if not isinstance(x[1], int) and x[3]]
                    if not generic:
                        try:
                            cands.append((show(oc), fold(oc)))
                        except Unfoldable:
                            continue
                    else:
                        g = generic[0]
                        path = g[3]
                        name = path.rsplit("::", 1)[-1]
                        default = prog.const_value(path)
                        impl_types = sorted({i["self_ty"] for i in prog.impls if i.get("trait") == path.rsplit("::", 1)[0]}) or [None]
                        for it in impl_types:
                            ov = [c for ck, c in prog.consts.items() if it and ck.endswith("::" + name) and ("<%s as " % it.rsplit("::", 1)[-1]) in ck]
                            v = ov[0]["value"] if ov else default
                            if isinstance(v, int):
                                try:
                                    cands.append(("%s for %s" % (show(oc), (it or "").rsplit("::", 1)[-1]), fold(subst(oc, {g: ("c", v, g[2], None)}))))
                                except Unfoldable:
                                    pass
                    if cands:
                        cfg = cfg or Cfg(f)
                        yield f, bi, s, op, cands, cfg, ex
                    continue
                if isinstance(oc[1], int) and not isinstance(oc[1], bool):
                    cands.append(((oc[3] or "literal").rsplit("::", 1)[-1], oc[1]))
                elif oc[3]:
                    path = oc[3]
                    name = path.rsplit("::", 1)[-1]
                    default = prog.const_value(path)
                    impl_types = sorted({i["self_ty"] for i in prog.impls if i.get("trait") == path.rsplit("::", 1)[0]})
                    for it in impl_types:
                        ov = [c for ck, c in prog.consts.items() if ck.endswith("::" + name) and ("<%s as " % it.rsplit("::", 1)[-1]) in ck]
                        v = ov[0]["value"] if ov else default
                        cands.append(("%s for %s" % (name, it.rsplit("::", 1)[-1]), v))
                    if not impl_types:
                        cands.append((name, default))
                cfg = cfg or Cfg(f)
                yield f, bi, s, op, cands, cfg, ex


def least_true(op, v):
    """smallest clock value for which `clock op v` holds (None: holds for small clocks)"""
    return {"Ge": v, "Gt": v + 1, "Eq": v}.get(op)


def true_region(f, cfg, ex, bi, s):
    """blocks dominated by the true successor of the switch that consumes the comparison result"""
    dst = s["dst"]["l"] if s["dst"] is not None and not s["dst"]["p"] else None
    for b in sorted(cfg.reach):
        t = f["blocks"][b]["term"]
        if t["k"] == "switch" and len(t["targets"]) == 1 and t["discr"].get("k") in ("copy", "move") and t["discr"]["pl"]["l"] == dst and cfg.dominates(bi, b):
            head = t["otherwise"]
            return b, head, {x for x in cfg.reachable_from(head) if cfg.dominates(head, x)}
    return None, None, set()


def region_calls(f, region):
    out = []
    for x in sorted(region):
        t = f["blocks"][x]["term"]
        if t["k"] == "call":
            out.append(t["callee"].get("orig") or t["callee"].get("key") or "?")
    return out


def r1_threshold(ctx):
    rid = "C10.R1"
    ctx.rule(rid, "a comparison of Bitboard.halfmove_clock with a constant that selects the draw score (fifty-move rule) can only be true from 100 plies on", floor=1)
    ctx.rule("C10.R5", "a half-move-clock guard in front of the repetition test must let every clock value >= 8 through (a third occurrence needs two 4-ply cycles)", floor=0)
    n = 0
    for f, bi, s, op, cands, cfg, ex in clock_comparisons(ctx):
        sw, head, region = true_region(f, cfg, ex, bi, s)
        calls = region_calls(f, region)
        selects_draw = any(c.endswith("::draw_score") for c in calls)
        guards_repetition = any(c.endswith("ZobristHistory::count_repetitions") for c in calls)
        # also: short-circuit `clock > K && count_repetitions(..) >= 3`: the repetition call sits in the true region
        for label, v in cands:
            if not isinstance(v, int):
                ctx.lost(rid, "constant %s compared with halfmove_clock in %s could not be evaluated" % (label, f["key"]))
                continue
            least = least_true(op, v)
            if guards_repetition:
                ok = least is not None and least <= 8
                ctx.ob("C10.R5", "%s|%s|%s" % (f["key"], op, label), ok,
                       "" if ok else "%s: the repetition test is only reached when `halfmove_clock %s %s` (= %d): %s, but a position can occur for the third time as early as 8 plies after the last capture or pawn move (clock 0, 4, 8)"
                       % (f["display"], {"Ge": ">=", "Gt": ">", "Eq": "==", "Le": "<=", "Lt": "<", "Ne": "!="}[op], label, v, "first true at clock %d" % least if least is not None else "an upper bound on the clock"),
                       ctx.where(f, s["line"]), sample={"function": f["key"], "guard": "%s %s" % (op, v), "first_clock_let_through": least})
                continue
            if not selects_draw:
                ctx.notes.append("%s: comparison `halfmove_clock %s %s` selects neither the draw score nor the repetition test; not judged" % (f["key"], op, label))
                continue
            n += 1
            if least is None:
                least = 0
            ok = least >= 100
            if "halfmove_clock" in label:
                ctx.ob(rid, "%s|%s|%s" % (f["key"], op, label.split(" for ")[-1]), ok,
                       "" if ok else "%s: the comparison `%s`, evaluated for every clock value and both sides to move, first holds at a half-move clock of %d and selects the draw score there; the fifty-move rule needs 100 plies" % (f["display"], label, least),
                       ctx.where(f, s["line"]), sample={"function": f["key"], "comparison": label, "true_from_clock": least})
                continue
            ctx.ob(rid, "%s|%s|%s" % (f["key"], op, label.split(" for ")[-1]), ok,
                   "" if ok else "%s: `halfmove_clock %s %s` with %s = %d selects the draw score already at %d plies (%d moves by each side); the fifty-move rule needs 100 plies"
                   % (f["display"], {"Ge": ">=", "Gt": ">", "Eq": "==", "Le": "<=", "Lt": "<", "Ne": "!="}[op], label, label, v, least, least // 2),
                   ctx.where(f, s["line"]), sample={"function": f["key"], "comparison": op, "constant": label, "value": v, "true_from_clock": least})
    if n == 0:
        ctx.lost(rid, "no comparison of halfmove_clock with a constant that selects the draw score found in the engine crates")


def call_blocks(f, cfg, key):
    return [b for b in sorted(cfg.reach) if f["blocks"][b]["term"]["k"] == "call" and f["blocks"][b]["term"]["callee"].get("key") == key]


def r2_history(ctx):
    rid = "C10.R2"
    ctx.rule(rid, "the history is written before it is counted (same ply expression, window = half-move clock), and the game replay records the start position and every position after a move", floor=4)
    f = ctx.fn(rid, SEARCH + "search_negamax")
    cfg, ex = Cfg(f), Exprs(f)
    sets, counts = call_blocks(f, cfg, ZH + "set"), call_blocks(f, cfg, ZH + "count_repetitions")
    if len(sets) != 1 or len(counts) != 1:
        ctx.lost(rid, "search_negamax: exactly one ZobristHistory::set and one count_repetitions expected, found %d/%d" % (len(sets), len(counts)))
        return
    ts, tc = f["blocks"][sets[0]]["term"], f["blocks"][counts[0]]["term"]
    ok = cfg.dominates(sets[0], counts[0])
    ctx.ob(rid, "negamax|set-dominates-count", ok, "" if ok else "count_repetitions can be reached without recording the current position first", ctx.where(f, tc["line"]))
    # the repetition test comes before every transposition-table probe: a stored value must not answer for a node
    # that is a repetition (the table key knows nothing about the history)
    probes = [b for b in sorted(cfg.reach) if f["blocks"][b]["term"]["k"] == "call" and (f["blocks"][b]["term"]["callee"].get("orig") or f["blocks"][b]["term"]["callee"].get("key") or "").endswith("TranspositionTable::get")]
    # the count may legitimately be skipped at the root (ply_depth_from_root == 0) and under a half-move-clock guard
    # (judged by R5): the edges of such switches that lead around the count are allowed; any other way to a probe
    # that avoids the count is a probe before the repetition test
    skip_edges = set()
    for b_ in sorted(cfg.reach):
        t_ = f["blocks"][b_]["term"]
        if t_["k"] == "switch" and cfg.dominates(b_, counts[0]):
            d_ = ex.operand(t_["discr"])
            lv = list(leaves(d_))
            if ("param", 3) in lv or any(is_clock_read(x) for x in lv) or any(x[0] == "f" and x[2] == "halfmove_clock" for x in lv):
                for y in cfg.succ[b_]:
                    if counts[0] not in cfg.reachable_from(y) or not cfg.dominates(b_, counts[0]):
                        skip_edges.add((b_, y))
                    else:
                        # the successor that can still reach the count is the guarded way; the other one skips it
                        pass
                others = [y for y in cfg.succ[b_] if not cfg.dominates(y, counts[0]) and y != counts[0]]
                for y in others:
                    skip_edges.add((b_, y))
    def reachable_avoiding(target):
        seen, work = set(), [0]
        while work:
            x = work.pop()
            if x in seen or x == counts[0]:
                continue
            if x == target:
                return True
            seen.add(x)
            for y in cfg.succ[x]:
                if f["blocks"][y]["cleanup"] or (x, y) in skip_edges:
                    continue
                work.append(y)
        return False
    late = [p_ for p_ in probes if reachable_avoiding(p_)]
    ok = bool(probes) and not late
    ctx.ob(rid, "negamax|repetition-test-before-table-probe", ok,
           "" if ok else ("search_negamax probes the transposition table before it has tested for repetition: a third occurrence with a stored entry returns the stored (material) value instead of the draw value" if probes else "no transposition-table probe found in search_negamax"),
           ctx.where(f, tc["line"]), sample={"probes": len(probes)})
    makes = call_blocks(f, cfg, B.MAKE)
    undominated = [m for m in makes if not cfg.dominates(sets[0], m)]
    ok = bool(makes) and not undominated
    ctx.ob(rid, "negamax|every-expanded-node-recorded", ok,
           "" if ok else "search_negamax can make a child move without having recorded the current position in the history (the recording is conditional): a node that is the first or second occurrence of a position is then invisible to the repetition count deeper in the line",
           ctx.where(f, ts["line"]), sample={"make_sites": len(makes)})
    ply_s, ply_c = ex.operand(ts["args"][1]), ex.operand(tc["args"][1])
    ok = ply_s == ply_c and any(x[0] == "call" and x[1] == BB + "ply_clock" for x in leaves(ply_s))
    ctx.ob(rid, "negamax|same-ply-index", ok, "" if ok else "set uses index %s but count_repetitions starts at %s" % (show(ply_s), show(ply_c)),
           ctx.where(f, tc["line"]), sample={"set_index": show(ply_s), "count_index": show(ply_c)})
    win = ex.operand(tc["args"][2])
    ok = is_clock_read(win)
    ctx.ob(rid, "negamax|window-is-halfmove-clock", ok, "" if ok else "repetition window is %s, not the half-move clock" % show(win), ctx.where(f, tc["line"]),
           sample={"window": show(win)})
    hs = ex.operand(ts["args"][2])
    ok = hs == ("param", 7) or hs[0] == "param"
    ctx.ob(rid, "negamax|records-node-hash", ok, "" if ok else "the hash recorded is %s, not the node's hash parameter" % show(hs), ctx.where(f, ts["line"]),
           sample={"hash": show(hs)})
    # replay
    g = ctx.fn(rid, SEARCH + "set_position_from")
    cg_, exg = Cfg(g), Exprs(g)
    gsets, gmakes = call_blocks(g, cg_, ZH + "set"), call_blocks(g, cg_, B.MAKE)
    if not gsets or not gmakes:
        ctx.lost(rid, "set_position_from: ZobristHistory::set / Bitboard::make calls")
        return
    # the replay starts from an empty history: the history the entries are written to is a fresh ZobristHistory
    # (a local initialised by Default::default, or the state field reassigned / cleared before the first entry)
    fresh = False
    for b in sorted(cg_.reach):
        t = g["blocks"][b]["term"]
        if t["k"] == "call" and (t["callee"].get("key") or "").endswith("<ZobristHistory as Default>::default") and all(cg_.dominates(b, s_) for s_ in gsets):
            dest = t.get("dest")
            recv = set()
            for s_ in gsets:
                r = exg.operand(g["blocks"][s_]["term"]["args"][0])
                while r[0] in ("&", "*"):
                    r = r[1]
                recv.add(r)
            if dest is not None and (("local", dest["l"]) in recv or any(x[0] == "call" and x[1].endswith("<ZobristHistory as Default>::default") for x in recv)):
                fresh = True
            if dest is not None and dest["p"] and isinstance(dest["p"][-1], dict) and dest["p"][-1].get("name") == "zobrist_history":
                fresh = True
    ctx.ob(rid, "replay|starts-from-an-empty-history", fresh,
           "" if fresh else "set_position_from records the replayed positions into a history that is not freshly created: entries of an earlier position command stay in the window that count_repetitions scans (a position that occurred once is valued as a threefold repetition)",
           ctx.where(g))
    loops = cg_.back_edges()
    first_outside = [b for b in gsets if not cg_.in_loop(b)]
    ok = bool(first_outside) and all(cg_.dominates(first_outside[0], m) for m in gmakes)
    ctx.ob(rid, "replay|initial-position-recorded", ok, "" if ok else "the start position is not recorded before the first move is replayed", ctx.where(g))
    heads_ = {h for (a_, h) in cg_.back_edges()}
    for m in gmakes:
        # from the make, can the next iteration or a return be reached without recording? (paths into a failed
        # assertion end the program and are no such path)
        seen_, work_ = set(), list(cg_.succ[m])
        escaped = False
        while work_:
            x = work_.pop()
            if x in seen_ or x in gsets or g["blocks"][x]["cleanup"]:
                continue
            seen_.add(x)
            if g["blocks"][x]["term"]["k"] == "return" or (x in heads_ and cg_.dominates(x, m)):
                escaped = True
                break
            work_.extend(cg_.succ[x])
        ok = not escaped
        ctx.ob(rid, "replay|set-after-make", ok, "" if ok else "a replayed move is not followed by recording the new position on every path",
               ctx.where(g, g["blocks"][m]["term"]["line"]))
    for s_ in gsets:
        t = g["blocks"][s_]["term"]
        idx, h = exg.operand(t["args"][1]), exg.operand(t["args"][2])
        ok = (idx[0] == "call" and idx[1] == BB + "ply_clock") and (h[0] == "call" and h[1] == BB + "calculate_zobrist_hash") and idx[2] == h[2]
        ctx.ob(rid, "replay|set(ply_clock, hash)-of-same-board@bb-order-%d" % gsets.index(s_), ok,
               "" if ok else "history entry is (%s, %s), expected (board.ply_clock(), board.calculate_zobrist_hash()) of the same board" % (show(idx), show(h)),
               ctx.where(g, t["line"]), sample={"index": show(idx), "hash": show(h)})


def r3_r4_repetition(ctx):
    f = ctx.fn("C10.R4", SEARCH + "search_negamax")
    cfg, ex = Cfg(f), Exprs(f)
    ctx.rule("C10.R4", "the repetition count is compared with 'at least 3' (>= 3 or > 2) at its only use", floor=1)
    ctx.rule("C10.R3", "the value returned on the repetition path depends on draw_score, the contempt option and ply parity only: no evaluation or search call in that region", floor=1)
    sw = None
    for b in sorted(cfg.reach):
        t = f["blocks"][b]["term"]
        if t["k"] != "switch":
            continue
        d = ex.operand(t["discr"])
        if d[0] == "bin" and any(x[0] == "call" and x[1] == ZH + "count_repetitions" for x in leaves(d)):
            sw = (b, t, d)
    if sw is None:
        ctx.lost("C10.R4", "comparison of count_repetitions' result in search_negamax")
        return
    b, t, d = sw
    op, a0, a1 = d[1], d[2], d[3]
    call_first = a0[0] == "call"
    other = a1 if call_first else a0
    if not call_first:
        op = {"Ge": "Le", "Gt": "Lt", "Le": "Ge", "Lt": "Gt"}.get(op, op)
    try:
        v = fold(other)
    except Unfoldable:
        ctx.lost("C10.R4", "repetition threshold is not a constant")
        return
    # which edge is taken for many repetitions, and from which count on (whatever way round the test is written)
    cmpf = {"Ge": lambda n: n >= v, "Gt": lambda n: n > v, "Le": lambda n: n <= v, "Lt": lambda n: n < v, "Eq": lambda n: n == v, "Ne": lambda n: n != v}.get(op)
    if cmpf is None:
        ctx.lost("C10.R4", "comparison operator %s of the repetition count" % op)
        return
    many = cmpf(1000)
    same = [n for n in range(0, 12) if cmpf(n) == many]
    least = same[0] if same == list(range(same[0], 12)) else None
    ok = least == 3
    ctx.ob("C10.R4", "negamax|repetition-threshold", ok, "" if ok else "repetitions are compared with `%s %d`: a draw is assumed from %s occurrences, the rule says 3" % (op, v, least if least is not None else "a non-contiguous set of"),
           ctx.where(f, t["line"]), sample={"op": op, "constant": v, "draw_from": least})
    # region of the arm taken for three or more repetitions
    true_edge = t["otherwise"] if t["targets"] and t["targets"][0][0] == 0 else None
    false_edge = t["targets"][0][1] if t["targets"] and t["targets"][0][0] == 0 else None
    arm = true_edge if many else false_edge
    if arm is None:
        ctx.lost("C10.R3", "true arm of the repetition test")
        return
    region = {x for x in cfg.reachable_from(arm) if cfg.dominates(arm, x)}
    called = []
    for x in sorted(region):
        tt = f["blocks"][x]["term"]
        if tt["k"] == "call":
            called.append(tt["callee"].get("orig") or tt["callee"].get("key") or "?")
    bad = [c for c in called if c.rsplit("::", 1)[-1] in ("evaluate", "evaluate_ongoing", "search_negamax", "search_quiescence", "piece_square_value", "piece_value")]
    has_draw = any(c.endswith("::draw_score") for c in called)
    returns = any(f["blocks"][x]["term"]["k"] == "goto" or f["blocks"][x]["term"]["k"] == "return" for x in region)
    ok = not bad and has_draw
    ctx.ob("C10.R3", "negamax|repetition-value", ok,
           "" if ok else "the repetition path calls %s (draw_score called: %s): its value is not a pure draw score" % (bad, has_draw),
           ctx.where(f, f["blocks"][arm]["term"]["line"]), sample={"region_blocks": len(region), "calls": [c.split("::", 1)[-1] for c in called]})
    # field reads in the region: only options.contempt_factor (and the heuristic object)
    reads = set()
    for x in sorted(region):
        for s in f["blocks"][x]["stmts"]:
            for a in s["rv"].get("a", []):
                if a.get("k") in ("copy", "move"):
                    names = [e["name"] for e in a["pl"]["p"] if isinstance(e, dict) and "f" in e]
                    if names and a["pl"]["l"] == 1:
                        reads.add(".".join(names))
    # values flowing into the region from outside: the receiver and the distance from the root (the parity of the contempt sign) only
    from ..slice import _rv_locals, _operand_locals
    names = f.get("names") or {}
    params_read, defined = set(), set()
    for x in sorted(region):
        for s in f["blocks"][x]["stmts"]:
            params_read |= _rv_locals(s["rv"])
            if s["dst"] is not None:
                defined.add(s["dst"]["l"])
        tt = f["blocks"][x]["term"]
        if tt["k"] == "call":
            for a in tt["args"]:
                params_read |= _operand_locals(a)
            defined.add(tt["dest"]["l"])
        elif tt["k"] == "switch":
            params_read |= _operand_locals(tt["discr"])
    params_read -= defined
    foreign = sorted(names.get(str(l), "_%d" % l) for l in params_read if names.get(str(l)) not in ("self", "ply_depth_from_root"))
    ctx.ob("C10.R3", "negamax|repetition-value-parameters", not foreign,
           "" if not foreign else "the repetition value depends on %s of search_negamax: it must be the draw score with the contempt offset signed by the distance from the root only (a value that follows the colour, the window or the hash is not a fixed offset from the draw score)" % foreign,
           ctx.where(f, f["blocks"][arm]["term"]["line"]), sample={"parameters_read": sorted(names.get(str(l), str(l)) for l in params_read)})
    ok = all(r.startswith("options.") or r.startswith("heuristic") for r in reads)
    ctx.ob("C10.R3", "negamax|repetition-value-reads", ok, "" if ok else "the repetition value reads engine state %s" % sorted(reads),
           ctx.where(f, f["blocks"][arm]["term"]["line"]), sample={"self_fields_read": sorted(reads)})


def run(ctx):
    r1_threshold(ctx)
    r2_history(ctx)
    r3_r4_repetition(ctx)
    ctx.assumptions += ["Bitboard::make increments halfmove_clock by exactly 1 per ply unless it resets it (checked by C02.R3)"]


def r6_counter_walk(ctx):
    """count_repetitions looks at exactly the plies with the same side to move inside the window"""
    rid = "C10.R6"
    ctx.rule(rid, "ZobristHistory::count_repetitions walks from start - 4 downwards in steps of 2 (same side to move, a position cannot recur earlier) while the index is >= max(0, start - half-move clock), compares each entry with the entry at start, starts its count at 1 and answers 3 as soon as the count reaches 3", floor=5)
    f = ctx.fn(rid, ZH + "count_repetitions")
    cfg, ex = Cfg(f), Exprs(f)
    START, CLOCK = ("param", 2), ("param", 3)
    be = cfg.back_edges()
    if len(be) == 0:
        # the walk as an iterator chain: `.step_by(k)` over a window of the history
        steps = []
        for b in sorted(cfg.reach):
            t = f["blocks"][b]["term"]
            if t["k"] == "call" and (t["callee"].get("key") or "").endswith("Iterator::step_by"):
                steps.append((b, t))
        if len(steps) == 1:
            b, t = steps[0]
            recv, k = ex.operand(t["args"][0]), ex.operand(t["args"][1])
            try:
                kv = fold(k)
            except Unfoldable:
                kv = None
            if kv is not None:
                ctx.ob(rid, "steps-by-two", kv == 2, "" if kv == 2 else "the walk steps by %s (expected 2: entries with the same side to move)" % kv, ctx.where(f, t["line"]), sample={"step": kv})
                sub = list(leaves(recv))
                reversed_ = any(x[0] == "call" and x[1].rsplit("::", 1)[-1] in ("rev", "rposition", "rfind", "next_back") for x in sub)
                parity_fix = any(x[0] == "bin" and x[1] in ("BitAnd", "BitOr", "Rem", "Mul", "Div", "Shl", "Shr") for x in sub)
                if not reversed_ and not parity_fix and kv == 2:
                    ctx.ob(rid, "stride-anchored-at-the-newest-entry", False,
                           "count_repetitions steps by two over a forward iteration of the window (%s): the stride is anchored at the window's oldest entry, whose distance from the current position is the half-move clock - with an odd clock the entries of the other side to move are compared and real repetitions are not counted (the walk must be anchored at start - 4: reverse the iteration or correct the lower bound's parity)" % show(recv)[:120],
                           ctx.where(f, t["line"]))
                    return
        ctx.lost(rid, "count_repetitions without a loop: the walk over the history is written as an iterator chain")
        return
    if len(be) != 1:
        ctx.lost(rid, "count_repetitions: exactly one loop (found %d back edges): the walk over the history is written in another idiom" % len(be))
        return
    # induction variable: two definitions, one of them `iv - c`
    iv = None
    for l, defs in ex.defs.items():
        if len(defs) == 2 and all(d[0] == "stmt" for d in defs):
            trees = [ex.rvalue(d[3]) for d in defs]
            for init, upd in (trees, trees[::-1]):
                if upd[0] == "bin" and upd[1] in ("Sub", "SubWithOverflow") and upd[2] == ("local", l):
                    # the step as a literal, a named constant or a cast of one
                    try:
                        iv = (l, init, upd[3][1] if upd[3][0] == "c" else fold(upd[3]))
                    except Unfoldable:
                        pass
    if iv is None:
        ctx.lost(rid, "count_repetitions: a loop index that decreases by a constant")
        return
    l, init, step = iv
    def strip(t):
        while t[0] == "cast":
            t = t[2]
        return t
    # `start - 4` with the 4 written as a literal, a named constant or a cast of one
    sub_const = None
    if init[0] == "bin" and init[1].startswith("Sub") and strip(init[2]) == START:
        try:
            sub_const = fold(init[3])
        except Unfoldable:
            sub_const = None
    if not (init[0] == "bin" and init[1].startswith("Sub") and strip(init[2]) == START) or sub_const is None:
        # the first index visited is not written as `start - <constant>` (a window computed by a helper, an iterator)
        ctx.lost(rid, "the first history index the walk visits (found %s)" % show(init)[:80])
        return
    ok = sub_const == 4
    ctx.ob(rid, "starts-four-plies-back", ok, "" if ok else "the walk starts at %s (expected start - 4)" % show(init), ctx.where(f), sample={"init": show(init)})
    ctx.ob(rid, "steps-by-two", step == 2, "" if step == 2 else "the walk steps by %s (expected 2: entries with the same side to move)" % step, ctx.where(f), sample={"step": step})
    # loop test
    cond = None
    for b in sorted(cfg.reach):
        t = f["blocks"][b]["term"]
        if t["k"] == "switch" and cfg.in_loop(b):
            d = ex.operand(t["discr"])
            if d[0] == "bin" and d[1] in ("Ge", "Gt", "Le", "Lt") and ("local", l) in (d[2], d[3]):
                cond = d
    ok = False
    if cond is not None:
        other = cond[3] if cond[2] == ("local", l) else cond[2]
        op = cond[1] if cond[2] == ("local", l) else {"Ge": "Le", "Le": "Ge", "Gt": "Lt", "Lt": "Gt"}[cond[1]]
        if op == "Ge" and other[0] == "call" and other[1].endswith("cmp::max"):
            args = [strip(a) for a in other[2]]
            zero = [a for a in args if a[0] == "c" and a[1] == 0]
            diff = [a for a in args if a[0] == "bin" and a[1].startswith("Sub") and strip(a[2]) == START and strip(a[3]) == CLOCK]
            ok = len(zero) == 1 and len(diff) == 1
    recognised = cond is not None and (cond[2] == ("local", l) or cond[3] == ("local", l))
    if not recognised:
        ctx.lost(rid, "the condition under which the walk over the history continues (a comparison of the index with a bound)")
    else:
        ctx.ob(rid, "window-lower-bound", ok, "" if ok else "the walk continues while %s (expected index >= max(0, start - half-move clock))" % (show(cond) if cond else "?"), ctx.where(f), sample={"condition": show(cond) if cond else None})
    # comparison with the entry at start
    cmp_ok = False
    cmp_seen = False
    for b in sorted(cfg.reach):
        t = f["blocks"][b]["term"]
        if t["k"] == "switch" and cfg.in_loop(b):
            d = ex.operand(t["discr"])
            if d[0] == "bin" and d[1] == "Eq":
                idxs = []
                for side in (d[2], d[3]):
                    for x in leaves(side):
                        if x[0] == "call" and x[1].endswith("::index"):
                            idxs.append(strip(x[2][1]))
                if idxs:
                    cmp_seen = True
                if ("local", l) in idxs and START in idxs:
                    cmp_ok = True
    if not cmp_ok and not cmp_seen:
        # no `history[..] == history[..]` test in the loop itself (it sits in a closure, a helper, an iterator
        # adaptor): not read by this rule
        ctx.lost(rid, "the comparison of two history entries inside the walk")
    else:
        ctx.ob(rid, "compares-with-the-current-entry", cmp_ok, "" if cmp_ok else "the loop does not compare history[index] with history[start]", ctx.where(f))
    # count starts at 1
    cnt_ok = False
    for l2, defs in ex.defs.items():
        if len(defs) == 2 and all(d[0] == "stmt" for d in defs):
            trees = [ex.rvalue(d[3]) for d in defs]
            for init2, upd in (trees, trees[::-1]):
                if upd[0] == "bin" and upd[1].startswith("Add") and ("local", l2) in (upd[2], upd[3]) and any(x[0] == "c" and x[1] == 1 for x in (upd[2], upd[3])) and init2[0] == "c" and init2[1] == 1:
                    cnt_ok = True
    ctx.ob(rid, "count-includes-the-current-position", cnt_ok, "" if cnt_ok else "the occurrence count does not start at 1 (the position itself) and grow by 1 per match", ctx.where(f))


_run_before_r6 = run


def run(ctx):
    _run_before_r6(ctx)
    r6_counter_walk(ctx)


MAX_CLOCK = 150      # the property's quantifier: half-move clocks 0..150


def r7_slots_not_shared_inside_the_window(ctx):
    """a history kept as a ring must be longer than the longest look-back"""
    rid = "C10.R7"
    ctx.rule(rid, "if ZobristHistory addresses its slots modulo a capacity (a ring), the capacity exceeds the longest look-back of count_repetitions (the half-move clock, up to %d in the property's domain): otherwise the walk reaches the slot it started from and counts the current position as its own repetition" % MAX_CLOCK, floor=0)
    prog = ctx.prog
    seen = False
    for k in sorted(prog.fns):
        if not k.startswith(ZH) or prog.fns[k].get("test"):
            continue
        f = prog.fns[k]
        ex = Exprs(f)
        idx_trees = []
        for bb in f["blocks"]:
            if bb["cleanup"]:
                continue
            places = [s["dst"] for s in bb["stmts"] if s["dst"] is not None] + [s["rv"]["place"] for s in bb["stmts"] if "place" in s["rv"]]
            places += [a["pl"] for s in bb["stmts"] for a in s["rv"].get("a", []) if a.get("k") in ("copy", "move")]
            for pl in places:
                for e in pl.get("p", []):
                    if isinstance(e, dict) and "idx" in e:
                        idx_trees.append((ex.local(e["idx"]), s_line(bb)))
            t = bb["term"]
            if t["k"] == "call" and (t["callee"].get("key") or "").rsplit("::", 1)[-1] in ("index", "index_mut", "get", "get_mut", "get_unchecked", "get_unchecked_mut") and len(t["args"]) == 2:
                idx_trees.append((ex.operand(t["args"][1]), t["line"]))
        for tr, line in idx_trees:
            for x in leaves(tr):
                if x[0] == "bin" and x[1] in ("Rem", "BitAnd"):
                    try:
                        c = fold(x[3])
                    except Unfoldable:
                        try:
                            c = fold(x[2])
                        except Unfoldable:
                            continue
                    m = c if x[1] == "Rem" else c + 1
                    if m <= 2:
                        continue
                    seen = True
                    ok = m > MAX_CLOCK
                    ctx.ob(rid, "%s|ring-longer-than-the-window" % k.rsplit("::", 1)[-1], ok,
                           "" if ok else "%s addresses the history modulo %d: with a half-move clock of %d or more the walk back from the current position reaches index start - %d, the same slot as start, and the position is counted as a repetition of itself (a second occurrence is scored as a threefold repetition)" % (f["display"], m, m, m),
                           ctx.where(f, line), sample={"modulus": m})
    return seen


def s_line(bb):
    return bb["stmts"][0]["line"] if bb["stmts"] else bb["term"].get("line")


_run_before_r7 = run


def run(ctx):
    _run_before_r7(ctx)
    r7_slots_not_shared_inside_the_window(ctx)
