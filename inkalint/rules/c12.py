"""C12 — FEN reading and writing are exact, inverse to each other, and total."""
from .common import run_panic_inventory

SCOPE = "engine"
LEVEL = "other"
PANIC_PROFILES = True
EXPLANATION = (
    "Static analysis of the resolved MIR and of compiler-evaluated constants. R1: panic-site inventory of everything "
    "reachable from Fen::from_str, Fen::is_valid, Bitboard::from_fen_string, From<&Fen> for Bitboard and "
    "From<&Bitboard> for Fen; each site folds to 'cannot fail' or carries a reviewed guard argument tied to the "
    "FEN grammar. R2-R4: reader/writer letter tables, one square-indexing convention, 4-field defaults. Decided: "
    "'no input string makes the parser panic' up to the reviewed guard arguments; agreement of the reader's and "
    "writer's tables. Not decided: exact decoding of every legal FEN.")


def entries(prog):
    return ["inkayaku_core::fen::<Fen as FromStr>::from_str", "inkayaku_core::fen::Fen::is_valid",
            "inkayaku_board::board::Bitboard::from_fen_string", "inkayaku_board::board::<Bitboard as From<&Fen>>::from",
            "inkayaku_board::board::<Fen as From<&Bitboard>>::from"]


def run_panics(ctx):
    run_panic_inventory(ctx, "C12.R1", entries(ctx.prog),
                        "no unreviewed panic site is reachable from the FEN reader and writer",
                        fn_floor=55, site_floor=30, declared_invariants_undecided="asserts")


def run(ctx):
    run_panics(ctx)
    from . import c12_struct
    c12_struct.run(ctx)
