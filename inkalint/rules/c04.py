"""C04 — precomputed attack tables equal ray/step attacks for every square and occupancy."""
import time
from ..cfg import Cfg
from ..expr import Exprs, PathEval, Inliner, fold, Unfoldable, show, leaves
from .. import geometry as G
from ..callgraph import call_sites
from .common import table

SCOPE = "engine"
LEVEL = "proof"
EXHAUSTIVE = True
TRUSTED_BASE = [
    "rustc const evaluation of the table constants and rustc's MIR of the lookup functions",
    "the fact extractor's layout-driven constant decoder",
    "the expression-tree inliner and integer folder of the checker (wrapping u64 arithmetic)",
    "the 40-line board-geometry oracle (rays, steps) in inkalint/geometry.py",
]
EXPLANATION = (
    "Constant folding over source constants, exhaustively. The index expression of the magic lookup is extracted "
    "from the MIR of UnsafeMagicsExt::get_attacks with MagicConfiguration::get_attacks, hash and magic_hash inlined; "
    "its shape is checked (the table read is attacks[index]; occupancy enters only through occupancy & mask). Then "
    "for each of the 128 table entries, as evaluated by the compiler, mask must contain the relevant-blocker set of "
    "the square and for EVERY subset of the table's own mask the folded index must be < attacks.len() and the entry "
    "must equal the ray attack set with first blocker included. Together these are necessary and sufficient for "
    "equality on all 2^64 occupancies. The four leaper tables are compared entry by entry with the step sets "
    "clipped at the edge. R2 bounds the index by hash_mask independently of the enumeration. R4 inventories every "
    "call site of the unchecked lookups and establishes the provenance of the square argument.")

MAGIC_MOD = "inkayaku_board::board::precalculated::magic::"
NONMAGIC_MOD = "inkayaku_board::board::precalculated::nonmagic::"
EXT_MAGIC = MAGIC_MOD + "<[MagicConfiguration;64] as UnsafeMagicsExt>::get_attacks"
EXT_NONMAGIC = NONMAGIC_MOD + "<[u64;64] as UnsafeNonmagicsExt>::get_attacks"
GET_UNCHECKED = "core::slice::<[T]>::get_unchecked"


def strip_casts(t):
    while t[0] == "cast":
        t = t[2]
    return t


def lookup_tree(ctx, rid):
    """index tree of the magic lookup over (entry fields, occupancy) and the leaf trees it is built from"""
    prog = ctx.prog
    f = ctx.fn(rid, EXT_MAGIC)
    cfg = Cfg(f)
    paths = [p for p in cfg.acyclic_paths() if f["blocks"][p[-1]]["term"]["k"] == "return"]
    if cfg.has_loops() or len(paths) != 1:
        ctx.lost(rid, "UnsafeMagicsExt::get_attacks is not straight-line")
        return None
    inl = Inliner(prog, only=lambda k: k.startswith(MAGIC_MOD))
    t = PathEval(f, paths[0], inliner=inl).ret()
    # expected: *(get_unchecked(ENTRY.attacks, INDEX)) with ENTRY = *(get_unchecked(magics, square as usize))
    if not (t[0] == "*" and t[1][0] == "call" and t[1][1] == GET_UNCHECKED and len(t[1][2]) == 2):
        ctx.lost(rid, "magic lookup does not end in *attacks.get_unchecked(index): %s" % show(t))
        return None
    table_t, index_t = t[1][2]
    table_t = strip_casts(table_t)
    if not (table_t[0] == "f" and table_t[2] == "attacks"):
        ctx.lost(rid, "magic lookup reads %s, not the entry's `attacks` table" % show(table_t))
        return None
    entry = table_t[1]
    e2 = entry[1] if entry[0] == "*" else None
    if not (e2 and e2[0] == "call" and e2[1] == GET_UNCHECKED and strip_casts(e2[2][0]) == ("param", 1) and strip_casts(e2[2][1]) == ("param", 2)):
        ctx.lost(rid, "the entry is not selected as magics.get_unchecked(square): %s" % show(entry))
        return None
    occ = ("param", 3)
    fields = {n: ("f", entry, n) for n in ("mask", "magic", "hash_mask", "hash_shift")}
    return {"index": index_t, "entry": entry, "occ": occ, "fields": fields, "fn": f}


def r1_shape(ctx, lk):
    rid = "C04.R1s"
    ctx.rule(rid, "shape of the lookup: index depends only on the selected entry's fields and on occupancy & mask", floor=2)
    idx, occ, fields, f = lk["index"], lk["occ"], lk["fields"], lk["fn"]
    allowed = set(fields.values()) | {occ}
    bad = []

    def walk(t, parent):
        if t in allowed:
            if t == occ:
                # must sit directly under BitAnd with the entry's mask
                ok = parent is not None and parent[0] == "bin" and parent[1] == "BitAnd" and fields["mask"] in (parent[2], parent[3])
                if not ok:
                    bad.append("occupancy is used outside `occupancy & mask`: %s" % show(parent if parent else t))
            return
        k = t[0]
        if k == "c":
            return
        if k == "bin":
            walk(t[2], t)
            walk(t[3], t)
        elif k in ("un",):
            walk(t[2], t)
        elif k == "cast":
            walk(t[2], t)
        elif k == "call" and t[1].startswith("core::num::"):
            for a in t[2]:
                walk(a, t)
        elif k == "f" and t[1][0] == "call" and t[1][1].startswith("core::num::"):
            walk(t[1], t)
        else:
            bad.append("unexpected leaf %s" % show(t))
    walk(idx, None)
    ctx.ob(rid, "index-leaves", not bad, "; ".join(bad), ctx.where(f), sample={"index_expression": show(idx)})
    # the folder must know every operator: try one evaluation
    env = {fields["mask"]: 0x7e, fields["magic"]: 3, fields["hash_mask"]: 63, fields["hash_shift"]: 58, occ: 0x18}
    try:
        fold(idx, env)
        ok, why = True, ""
    except Unfoldable as e:
        ctx.lost(rid, "the index expression contains an operator the folder does not know (%s)" % e)
        ok, why = None, ""
    if ok is not None:
        ctx.ob(rid, "index-foldable", ok, why, ctx.where(f))
    return not bad and ok


def compile_index(idx, lk):
    """turn the index tree into a python closure over (mask, magic, hash_mask, hash_shift, occ) by folding with an env"""
    fields, occ = lk["fields"], lk["occ"]

    def run(mask, magic, hash_mask, hash_shift, o):
        return fold(idx, {fields["mask"]: mask, fields["magic"]: magic, fields["hash_mask"]: hash_mask, fields["hash_shift"]: hash_shift, occ: o})
    return run


def fast_index(idx, lk):
    """the extracted index tree compiled to a python function (derived from the code, not assumed); the compiled
    form is cross-checked against the generic folder on the first 64 subsets of every entry"""
    from ..expr import compile_int_tree
    names = {lk["fields"]["mask"]: "mask", lk["fields"]["magic"]: "magic", lk["fields"]["hash_mask"]: "hash_mask",
             lk["fields"]["hash_shift"]: "hash_shift", lk["occ"]: "occ"}
    fn, src = compile_int_tree(idx, names)
    return fn, src


def magic_tables(ctx):
    out = []
    for k, c in ctx.prog.consts.items():
        if k.startswith(MAGIC_MOD) and "MagicConfiguration" in c["ty"] and c["ty"].rstrip().endswith("; 64]") and isinstance(c["value"], list):
            out.append((k, c))
    return out


def r1_tables(ctx, lk, shape_ok):
    rid = "C04.R1"
    ctx.rule(rid, "for every table entry: mask ⊇ relevant blockers; for every subset of mask: index < len and attacks[index] = ray attacks (first blocker included)", floor=128)
    ctx.rule("C04.R2", "index <= hash_mask by construction (last operation is `& hash_mask`), and hash_mask < attacks.len() for every entry", floor=128)
    tabs = magic_tables(ctx)
    if len(tabs) != 2:
        ctx.lost(rid, "two [MagicConfiguration; 64] constants in the magic module (found %d)" % len(tabs))
        return {}
    generic = compile_index(lk["index"], lk)
    fast, fast_src = fast_index(lk["index"], lk)
    ctx.extra["compiled_index_expression"] = fast_src
    idx = lk["index"]
    core = strip_casts(idx)
    last_and = core[0] == "bin" and core[1] == "BitAnd" and lk["fields"]["hash_mask"] in (core[2], core[3])
    kinds = {}
    total_cfg = 0
    for key, c in tabs:
        entries = c["value"]
        if len(entries) != 64:
            ctx.lost(rid, "%s has %d entries" % (key, len(entries)), missing=True)
            continue
        # which ray kind does this table implement? decided on the empty board of a centre square, verified everywhere
        e27 = entries[27]
        i0 = generic(e27["mask"], e27["magic"], e27["hash_mask"], e27["hash_shift"], 0)
        a0 = e27["attacks"][i0] if i0 < len(e27["attacks"]) else None
        kind = "rook" if a0 == G.slide(27, 0, G.ROOK_DIRS) else "bishop" if a0 == G.slide(27, 0, G.BISHOP_DIRS) else None
        if kind is None:
            ctx.ob(rid, "%s|kind" % key, False, "table %s is neither an orthogonal nor a diagonal ray table (entry 27, empty board)" % key, "%s:%d" % (c["file"], c["line"]))
            continue
        kinds[key] = kind
        dirs = G.ROOK_DIRS if kind == "rook" else G.BISHOP_DIRS
        for sq, e in enumerate(entries):
            mask, magic, hmask, hshift, att = e["mask"], e["magic"], e["hash_mask"], e["hash_shift"], e["attacks"]
            n = len(att)
            inst = "%s[%d]" % (key.rsplit("::", 1)[-1], sq)
            rel = G.relevant_mask(sq, dirs)
            problems = []
            if rel & ~mask:
                problems.append("mask %#x misses relevant blocker squares %#x" % (mask, rel & ~mask))
            if hshift >= 64:
                problems.append("hash_shift %d >= 64" % hshift)
            rs = G.rays(sq, dirs)
            cnt = 0
            first_bad = None
            if not problems:
                for occ in G.subsets(mask):
                    i = fast(mask, magic, hmask, hshift, occ)
                    if cnt < 64 and i != generic(mask, magic, hmask, hshift, occ):
                        problems.append("internal: specialised folder disagrees with the generic folder")
                        break
                    cnt += 1
                    if i >= n:
                        first_bad = "occupancy %#x -> index %d >= table length %d (out-of-bounds unchecked read)" % (occ, i, n)
                        break
                    if att[i] != G.slide(sq, occ, _rays=rs):
                        first_bad = "occupancy %#x -> index %d: table has %#x, ray attacks are %#x" % (occ, i, att[i], G.slide(sq, occ, _rays=rs))
                        break
            if first_bad:
                problems.append(first_bad)
            total_cfg += cnt
            ctx.ob(rid, inst, not problems, "; ".join(problems), "%s:%d" % (c["file"], c["line"]),
                   sample={"entry": inst, "kind": kind, "mask": hex(mask), "configurations": cnt, "table_len": n} if sq in (0, 27) else None)
            ok2 = last_and and hmask < n
            ctx.ob("C04.R2", inst, ok2,
                   "" if ok2 else ("hash_mask %d >= attacks.len() %d: an index up to hash_mask would read past the table" % (hmask, n) if last_and else "the index expression does not end in `& hash_mask`"),
                   "%s:%d" % (c["file"], c["line"]))
    ok = sorted(kinds.values()) == ["bishop", "rook"]
    ctx.ob(rid, "one-table-per-ray-kind", ok, "" if ok else "the two magic tables implement %s" % kinds, "")
    ctx.extra["configurations_enumerated"] = total_cfg
    ctx.extra["table_kinds"] = {k.rsplit("::", 1)[-1]: v for k, v in kinds.items()}
    return kinds


LEAPERS = {"king": G.KING_STEPS, "knight": G.KNIGHT_STEPS, "white_pawn": G.WHITE_PAWN_CAPTURES, "black_pawn": G.BLACK_PAWN_CAPTURES}


def leaper_tables(prog):
    out = []
    for k, c in prog.consts.items():
        if k.startswith(NONMAGIC_MOD) and c["ty"].replace(" ", "") == "[u64;64]" and isinstance(c["value"], list) and k.count("::") == NONMAGIC_MOD.count("::"):
            out.append((k, c))
    return out


def classify_leaper(values):
    for name, deltas in LEAPERS.items():
        if values[27] == G.steps(27, deltas):
            return name
    return None


def r3_leapers(ctx):
    rid = "C04.R3"
    ctx.rule(rid, "each of the four leaper tables equals the king / knight / pawn-capture step set clipped at the board edge, for all 64 squares", floor=256)
    tabs = leaper_tables(ctx.prog)
    if len(tabs) != 4:
        ctx.lost(rid, "four [u64; 64] constants in the nonmagic module (found %d)" % len(tabs))
        return {}
    kinds = {}
    for key, c in tabs:
        kind = classify_leaper(c["value"])
        if kind is None:
            ctx.ob(rid, "%s|kind" % key, False, "table %s matches no step pattern on square 27" % key, "%s:%d" % (c["file"], c["line"]))
            continue
        kinds[key] = kind
        for sq, v in enumerate(c["value"]):
            exp = G.steps(sq, LEAPERS[kind])
            ctx.ob(rid, "%s[%d]" % (key.rsplit("::", 1)[-1], sq), v == exp,
                   "" if v == exp else "%s[%d] = %#x, %s steps from that square are %#x" % (key.rsplit("::", 1)[-1], sq, v, kind, exp),
                   "%s:%d" % (c["file"], c["line"]), sample={"table": key.rsplit("::", 1)[-1], "kind": kind, "square": sq, "value": hex(v)} if sq == 27 else None)
    ok = sorted(kinds.values()) == sorted(LEAPERS)
    ctx.ob(rid, "four-kinds", ok, "" if ok else "leaper tables implement %s" % sorted(kinds.values()), "")
    ctx.extra["leaper_kinds"] = {k.rsplit("::", 1)[-1]: v for k, v in kinds.items()}
    return kinds


def square_provenance(f, ex, cfg, b, tree):
    """classify where the square argument of an unchecked lookup comes from"""
    t = strip_casts(tree)
    # lowest set bit of a value guarded non-zero by the enclosing loop / branch
    src = None
    if t[0] == "f" and t[1][0] == "call" and t[1][1].endswith("mask_and_shift_from_lowest_one_bit") and t[2] == "1":
        src = t[1][2][0]
    elif t[0] == "call" and t[1].endswith("::trailing_zeros"):
        src = t[2][0]
    if src is not None:
        # is the call block control dependent on a test `src != 0`?
        for (a, s) in cfg.control_deps_transitive(b):
            sw = f["blocks"][a]["term"]
            if sw["k"] != "switch":
                continue
            d = ex.operand(sw["discr"])
            if d[0] == "bin" and d[1] in ("Ne", "Eq") and ("c", 0, d[2][2] if d[2][0] == "c" else d[3][2], None) in (d[2], d[3]):
                other = d[3] if d[2][0] == "c" else d[2]
                if other == src or (other[0] == "local" and src[0] == "local" and other == src):
                    nonzero_edge = (s == sw["otherwise"]) if d[1] == "Ne" else (s != sw["otherwise"])
                    # Ne: switch on bool: 0 -> false; otherwise -> true
                    if nonzero_edge:
                        return "lowest-set-bit of a value tested non-zero"
        if src[0] == "call" and src[1].endswith("PlayerState::kings"):
            return "king-square (needs: that colour has a king)"
        return "lowest-set-bit (no non-zero guard found)"
    if t[0] == "param":
        return "parameter %d" % t[1]
    if t[0] == "call" and t[1].endswith("MagicConfiguration::hash"):
        return "hash (bounded by C04.R2)"
    return "other: %s" % show(t)


def prov_class(prov):
    return prov.split(" (")[0].split(":")[0].strip()


def r4_sites(ctx):
    rid = "C04.R4"
    ctx.rule(rid, "every call site of the unchecked lookups is inventoried and its square/index argument has a reviewed provenance (followed one level into callers when it is a parameter)", floor=12)
    reviewed = table("unchecked_sites.json")
    prog = ctx.prog
    from ..callgraph import CallGraph
    if not hasattr(ctx, "_cg"):
        ctx._cg = CallGraph(prog)
    cg = ctx._cg
    wrappers = {EXT_MAGIC, EXT_NONMAGIC}
    GEN = MAGIC_MOD + "generator::"
    sites = call_sites(prog, lambda k, o, c: k in wrappers or o in wrappers or "get_unchecked" in k.rsplit("::", 1)[-1])
    counts = {}
    seen_keys = set()

    SAFE = ("lowest-set-bit of a value tested non-zero", "hash", "generator-module")
    RISKY = ("king-square", "lowest-set-bit (no non-zero guard found)", "generator-module-reachable")

    pending = []
    bound_of = {}

    def judge(skey, prov, f, line, what):
        pending.append((skey, prov, f, line, what))

    def judge_now(skey, prov, f, line, what, vanished):
        """a site is judged by where its index comes from, wherever it stands: an index that is the lowest set bit
        of a value tested non-zero, the bounded hash, or inside the table generator is in range by construction; a
        king square or an unguarded lowest-set-bit needs its reviewed entry (exact key); a parameter is followed into
        the callers; anything else is not read by this rule."""
        seen_keys.add(skey)
        r = reviewed.get(skey)
        cls = prov_class(prov)
        if r is not None and r["provenance"] == cls:
            ok, msg = True, ""
        elif cls in SAFE or cls.startswith("parameter"):
            ok, msg = True, ""        # (a parameter is judged at the callers below)
        elif (cls in RISKY or prov.startswith(RISKY)) and [k for k in vanished_all.get(cls, []) if k.split("|")[0] == skey.split("|")[0]]:
            # the same function held a reviewed site of this provenance (a call that passed this very value on): the
            # callee was spliced in / split up, the value and its review are the same
            r = reviewed[[k for k in vanished_all[cls] if k.split("|")[0] == skey.split("|")[0]][0]]
            ok, msg = True, ""
        elif (cls in RISKY or prov.startswith(RISKY)) and [k for k in vanished_all.get(cls, []) if k.split("|")[0] not in prog.fns and k.split("|")[0] not in getattr(prog, "helper_bodies", {})]:
            # the function that held the reviewed site does not exist any more: its code (and the reviewed value) lives
            # in its former callers now
            r = reviewed[[k for k in vanished_all[cls] if k.split("|")[0] not in prog.fns][0]]
            ok, msg = True, ""
        elif (cls in RISKY or prov.startswith(RISKY)) and vanished.get(cls):
            k_old = vanished[cls].pop(0)        # the reviewed site moved (its function was renamed / split / merged)
            r = reviewed[k_old]
            ok, msg = True, ""
        elif cls in RISKY or prov.startswith(RISKY):
            ok = False
            msg = ("new %s in %s (argument: %s): not in tables/unchecked_sites.json" % (what, f["display"], prov)) if r is None else \
                  ("%s in %s: the square/index argument now comes from `%s`, the reviewed provenance was `%s`" % (what, f["display"], prov, r["provenance"]))
        else:
            ub = bound_of.get(skey)
            if ub is not None and ub < 64:
                ok, msg = True, ""
            elif ub is not None:
                ok, msg = False, "%s in %s: the index `%s` can be as large as %d, the tables have 64 entries" % (what, f["display"], prov[:80], ub)
            else:
                ctx.lost(rid, "%s in %s: the index comes from `%s`, which this rule cannot bound" % (what, f["display"], prov[:80]))
                return
        ctx.ob(rid, skey, ok, msg, ctx.where(f, line), sample={"site": skey, "provenance": prov, "reviewed": r["why"] if r else None})

    param_sites = {}
    for caller, b, t in sites:
        f = prog.fns[caller]
        if f.get("test") or f["kind"] == "promoted":
            continue
        cfg, ex = Cfg(f), Exprs(f)
        if b not in cfg.reach:
            continue
        callee = t["callee"].get("key")
        n = counts.get((caller, callee), 0)
        counts[(caller, callee)] = n + 1
        short = callee.rsplit("::", 2)[-2] + "::" + callee.rsplit("::", 1)[-1]
        skey = "%s|%s|#%d" % (caller, short, n)
        if caller.startswith(GEN):
            # table generator: must be unreachable from everything outside its module
            outside = [k for k in cg.callers(caller) if not k.startswith(GEN)]
            work, seen = [caller], set()
            while work:
                x = work.pop()
                if x in seen:
                    continue
                seen.add(x)
                for c in cg.callers(x):
                    if c.startswith(GEN):
                        work.append(c)
                    else:
                        outside.append(c)
            prov = "generator-module (reached from outside: %s)" % sorted(set(outside)) if outside else "generator-module"
            if outside:
                prov = "generator-module-reachable: %s" % sorted(set(outside))[:3]
            judge(skey, prov, f, t["line"], "unchecked read")
            continue
        prov = square_provenance(f, ex, cfg, b, ex.operand(t["args"][1]))
        if prov.startswith("other"):
            from ..panics import upper_bound
            from ..expr import Inliner
            inl_ = Inliner(prog, only=lambda k_: k_.startswith("inkayaku_board::board::Move::"))
            bound_of[skey] = upper_bound(inl_.expand(ex.operand(t["args"][1])), f)
            if bound_of[skey] is not None and bound_of[skey] >= (1 << 31):
                bound_of[skey] = None       # just the type's range: nothing known
        judge(skey, prov, f, t["line"], "call site of an unchecked table lookup")
        if prov.startswith("parameter") and caller not in wrappers:
            param_sites.setdefault(caller, set()).add(int(prov.split()[1]))
    # one level up: who passes the parameter
    for fn, params in sorted(param_sites.items()):
        for pn in sorted(params):
            cnt = {}
            for caller, b, t in call_sites(prog, lambda k, o, c: k == fn):
                f = prog.fns[caller]
                if f.get("test") or f["kind"] == "promoted":
                    continue
                cfg, ex = Cfg(f), Exprs(f)
                if b not in cfg.reach:
                    continue
                n = cnt.get(caller, 0)
                cnt[caller] = n + 1
                prov = square_provenance(f, ex, cfg, b, ex.operand(t["args"][pn - 1]))
                skey = "%s|->%s(arg %d)|#%d" % (caller, fn.rsplit("::", 1)[-1], pn, n)
                judge(skey, prov, f, t["line"], "caller of a function that passes its parameter to an unchecked lookup")
    present = {p_[0] for p_ in pending}
    vanished = {}
    for k, r in reviewed.items():
        if not k.startswith("_") and k not in present:
            vanished.setdefault(r["provenance"], []).append(k)
    vanished_all = {k: list(v) for k, v in vanished.items()}
    for p_ in pending:
        judge_now(*p_, vanished)
    stale = [k for k in reviewed if not k.startswith("_") and k not in seen_keys]
    ctx.extra["unchecked_sites"] = len(seen_keys)
    ctx.extra["reviewed_unchecked_sites_not_met"] = stale
    ctx.assumptions.append("the king-square call site indexes entry 64 only if a colour has no king; legal positions (the property's quantifier) always have both kings")


def run(ctx):
    t0 = time.time()
    lk = lookup_tree(ctx, "C04.R1s")
    if lk is not None:
        shape_ok = r1_shape(ctx, lk)
        if shape_ok:
            r1_tables(ctx, lk, shape_ok)
    r3_leapers(ctx)
    r4_sites(ctx)
    ctx.extra["table_check_s"] = round(time.time() - t0, 1)
