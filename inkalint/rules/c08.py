"""C08 — shallow search scores are exact minimax values (sign and bound discipline only)."""
from ..cfg import Cfg
from ..expr import Exprs, show, leaves
from ..slice import Slicer, _operand_locals
from .common import SEARCH

SCOPE = "engine"
LEVEL = "other"
EXPLANATION = (
    "Static analysis of the resolved MIR of the two recursive searches. R1 (negamax sign discipline, sibling "
    "agreement): the two window arguments of the recursive call are negations; the first derives (data slice) from "
    "the function's own beta bound and not from its alpha bound, the second from alpha and not from beta; every "
    "read of the child's value is negated exactly once. R2 (transposition bounds): on store, Upperbound is chosen "
    "iff best <= original alpha, Lowerbound iff best >= beta, otherwise Exact, and nothing is stored for mate "
    "scores; on probe, a Lowerbound entry raises alpha by max, an Upperbound entry lowers beta by min, an Exact "
    "entry returns. Decided: these necessary conditions of a correct alpha-beta; not decided: exact minimax values, "
    "pruning soundness in general, mate distances.")

NT = "inkayaku_engine_core::engine::table::transposition::NodeType"


def param_local_copy(f, ex, p):
    """the mutable window local of parameter p: a local with several definitions one of which is `= p` or
    `= max/min(p, ..)` (`let mut alpha = alpha_original` / `let mut alpha = max(alpha_original, standing_pat)`)"""
    out = []
    for l, defs in ex.defs.items():
        if (len(defs) < 2 and l not in ex.mutref) or l <= f["args"]:
            continue        # (a local that is only ever borrowed mutably - `&mut beta` handed to a helper - is mutable too)
        for d in defs:
            if d[0] == "stmt" and d[3]["op"] == "use" and d[3]["a"][0].get("k") in ("copy", "move") and d[3]["a"][0]["pl"] == {"l": p, "p": []}:
                out.append(l)
            if d[0] == "call" and (d[3]["callee"].get("key") or "") in ("core::cmp::max", "core::cmp::min"):
                if any(ex.operand(a) == ("param", p) for a in d[3]["args"]):
                    out.append(l)
    return sorted(set(out))


def r1_signs(ctx):
    rid = "C08.R1"
    ctx.rule(rid, "recursive call: window = (-beta', -alpha') with beta' derived from the own beta bound only and alpha' from the own alpha bound only; the child's value is negated exactly once", floor=6)
    for name, (pa, pb), (ia, ib) in (("search_negamax", (5, 6), (4, 5)), ("search_quiescence", (4, 5), (3, 4))):
        f = ctx.fn(rid, SEARCH + name)
        cfg, ex, sl = Cfg(f), Exprs(f), Slicer(f)
        rec = [b for b in sorted(cfg.reach) if f["blocks"][b]["term"]["k"] == "call" and f["blocks"][b]["term"]["callee"].get("key") == SEARCH + name]
        if len(rec) != 1:
            ctx.lost(rid, "%s: exactly one recursive call (found %d)" % (name, len(rec)))
            continue
        t = f["blocks"][rec[0]]["term"]
        al, bl = param_local_copy(f, ex, pa), param_local_copy(f, ex, pb)
        own = {"alpha": {("param", pa)} | {("local", l) for l in al}, "beta": {("param", pb)} | {("local", l) for l in bl}}
        for idx, which, label in ((ia, "beta", "first window argument (the child's alpha)"), (ib, "alpha", "second window argument (the child's beta)")):
            tree = ex.operand(t["args"][idx])
            neg = tree[0] == "un" and tree[1] == "Neg"
            inner = tree[2] if neg else tree
            ok = neg and inner in own[which]
            other = "alpha" if which == "beta" else "beta"
            if neg and not ok and inner not in own[other] and inner[0] not in ("param", "c"):
                # a negated variable that is neither bound as far as this rule can see (assigned on several paths,
                # computed by a helper): no verdict
                ctx.lost(rid, "%s: the %s is the negation of a variable this rule cannot identify (%s)" % (name, label, show(inner)))
                continue
            ctx.ob(rid, "%s|arg%d" % (name, idx), ok,
                   "" if ok else "%s: the %s is %s (expected the negation of the own %s bound%s)"
                   % (name, label, show(tree), which, "; it is the own %s bound" % other if inner in own[other] else ""),
                   ctx.where(f, t["line"]), sample={"function": name, "argument": show(tree), "own_%s" % which: sorted(show(x) for x in own[which])})
        # child value negated exactly once: sign-parity dataflow from every read of child.value through single-definition
        # locals (plain copies keep the parity, Neg flips it); every other use (comparison, argument, copy into a
        # multiply assigned variable such as alpha / best) is a sink and must see the value negated exactly once
        child = t["dest"]["l"]
        ndefs = {}
        for b in sorted(cfg.reach):
            for s in f["blocks"][b]["stmts"]:
                if s["dst"] is not None and not s["dst"]["p"]:
                    ndefs[s["dst"]["l"]] = ndefs.get(s["dst"]["l"], 0) + 1
            tt = f["blocks"][b]["term"]
            if tt["k"] == "call" and tt.get("dest") and not tt["dest"]["p"]:
                ndefs[tt["dest"]["l"]] = ndefs.get(tt["dest"]["l"], 0) + 1

        def is_child_value(a):
            return a.get("k") in ("copy", "move") and a["pl"]["l"] == child and [e.get("name") for e in a["pl"]["p"] if isinstance(e, dict)] == ["value"]

        parity = {}     # local -> +1 / -1 (times the child's value)
        changed = True
        while changed:
            changed = False
            for b in sorted(cfg.reach):
                for s in f["blocks"][b]["stmts"]:
                    rv, d = s["rv"], s["dst"]
                    if d is None or d["p"] or ndefs.get(d["l"]) != 1 or rv["op"] not in ("use", "un") or (rv["op"] == "un" and rv["uop"] != "Neg"):
                        continue
                    a = rv["a"][0]
                    src = None
                    if is_child_value(a):
                        src = 1
                    elif a.get("k") in ("copy", "move") and not a["pl"]["p"] and a["pl"]["l"] in parity:
                        src = parity[a["pl"]["l"]]
                    if src is None:
                        continue
                    val = -src if rv["op"] == "un" else src
                    if parity.get(d["l"]) != val:
                        parity[d["l"]] = val
                        changed = True
        # negation written as a call (`checked_neg().expect(..)`, `wrapping_neg()`, `Neg::neg`) and the unwrapping of its
        # Option flip / keep the parity like the operator does
        changed = True
        while changed:
            changed = False
            for b in sorted(cfg.reach):
                tt = f["blocks"][b]["term"]
                if tt["k"] != "call" or not tt.get("dest") or tt["dest"]["p"] or ndefs.get(tt["dest"]["l"]) != 1 or not tt["args"]:
                    continue
                ck = (tt["callee"].get("key") or "")
                short_ = ck.rsplit("::", 1)[-1]
                a = tt["args"][0]
                src = None
                if is_child_value(a):
                    src = 1
                elif a.get("k") in ("copy", "move") and not a["pl"]["p"] and a["pl"]["l"] in parity:
                    src = parity[a["pl"]["l"]]
                if src is None:
                    continue
                if short_ in ("checked_neg", "wrapping_neg", "saturating_neg", "overflowing_neg", "neg") and (ck.startswith("core::num::") or "Neg" in ck):
                    val = -src
                elif short_ in ("unwrap", "expect", "unwrap_or", "unwrap_or_default", "unwrap_unchecked") and ck.startswith(("core::option::Option", "core::result::Result")):
                    val = src
                else:
                    continue
                if parity.get(tt["dest"]["l"]) != val:
                    parity[tt["dest"]["l"]] = val
                    changed = True
            # plain copies of such results
            for b in sorted(cfg.reach):
                for s_ in f["blocks"][b]["stmts"]:
                    rv, d = s_["rv"], s_["dst"]
                    if d is None or d["p"] or ndefs.get(d["l"]) != 1 or rv["op"] not in ("use", "un") or (rv["op"] == "un" and rv["uop"] != "Neg"):
                        continue
                    a = rv["a"][0]
                    if a.get("k") in ("copy", "move") and not a["pl"]["p"] and a["pl"]["l"] in parity:
                        val = -parity[a["pl"]["l"]] if rv["op"] == "un" else parity[a["pl"]["l"]]
                        if parity.get(d["l"]) != val:
                            parity[d["l"]] = val
                            changed = True
        parity_calls = {"checked_neg", "wrapping_neg", "saturating_neg", "overflowing_neg", "neg", "unwrap", "expect", "unwrap_or", "unwrap_or_default", "unwrap_unchecked"}
        reads = negs = 0
        wrong = []

        def sink(a, line):
            nonlocal reads, negs
            if is_child_value(a):
                par = 1
            elif a.get("k") in ("copy", "move") and not a["pl"]["p"] and a["pl"]["l"] in parity:
                par = parity[a["pl"]["l"]]
            else:
                return
            reads += 1
            if par == -1:
                negs += 1
            else:
                wrong.append(line)

        for b in sorted(cfg.reach):
            for s in f["blocks"][b]["stmts"]:
                rv, d = s["rv"], s["dst"]
                propagates = d is not None and not d["p"] and ndefs.get(d["l"]) == 1 and (rv["op"] == "use" or (rv["op"] == "un" and rv["uop"] == "Neg"))
                if propagates:
                    continue
                if rv["op"] == "bin" and rv["bop"] == "Eq" and any(x.get("k") == "const" and x.get("v") == -2147483648 for x in rv["a"]):
                    continue    # the compiler's overflow check in front of a negation
                for a in rv.get("a", []):
                    sink(a, s["line"])
            tt = f["blocks"][b]["term"]
            if tt["k"] == "call" and (tt["callee"].get("key") or "").rsplit("::", 1)[-1] in parity_calls and tt.get("dest") and not tt["dest"]["p"] and tt["dest"]["l"] in parity:
                continue        # a negation / unwrapping step of the chain, not a use
            for a in tt.get("args", []) if tt["k"] == "call" else []:
                sink(a, tt["line"])
            if tt["k"] == "switch":
                sink(tt["discr"], tt.get("line", 0))
        if reads == 0:
            ctx.lost(rid, "%s: the uses of the child's value (it does not reach a comparison or an assignment through plain copies)" % name)
            continue
        ok = reads >= 1 and reads == negs
        ctx.ob(rid, "%s|child-value-negated" % name, ok, "" if ok else "%s uses the child's value %d time(s) (comparisons, arguments, assignments to alpha/best), of which %d see it negated exactly once; un-negated or doubly negated use at line(s) %s" % (name, reads, negs, sorted(set(wrong))[:4]), ctx.where(f, t["line"]),
               sample={"function": name, "reads": reads, "negations": negs})


def r2_bounds(ctx):
    rid = "C08.R2"
    ctx.rule(rid, "TT store: Upperbound iff best <= alpha_original, Lowerbound iff best >= beta, else Exact, never for mate scores; TT probe: Lowerbound -> alpha = max, Upperbound -> beta = min, Exact -> return", floor=7)
    prog = ctx.prog
    f = ctx.fn(rid, SEARCH + "search_negamax")
    cfg, ex = Cfg(f), Exprs(f)
    adt = prog.adts.get(NT)
    if adt is None:
        ctx.lost(rid, NT)
        return
    variants = [v["name"] for v in adt["variants"]]
    alpha_l = param_local_copy(f, ex, 5)
    beta_l = param_local_copy(f, ex, 6)
    if len(alpha_l) != 1 or len(beta_l) != 1:
        ctx.lost(rid, "the mutable alpha / beta locals initialised from the window parameters (found %s / %s)" % (alpha_l, beta_l))
        return
    ALPHA, BETA = ("local", alpha_l[0]), ("local", beta_l[0])
    # ---- store: the region between the move loop and the table store, read as a decision table over the ordering
    # of the best value against the two bounds (inkalint/semtable.py) - however the classification is written
    from ..semtable import explore, judge, TooBig
    puts = [b for b in sorted(cfg.reach) if f["blocks"][b]["term"]["k"] == "call" and (f["blocks"][b]["term"]["callee"].get("key") or "").endswith("TranspositionTable>::put")]
    rec = [b for b in sorted(cfg.reach) if f["blocks"][b]["term"]["k"] == "call" and f["blocks"][b]["term"]["callee"].get("key") == SEARCH + "search_negamax"]
    heads = sorted({h for (a_, h) in cfg.back_edges() if rec and cfg.dominates(h, rec[0])})
    if len(puts) != 1 or len(rec) != 1 or len(heads) != 1:
        ctx.lost(rid, "one table store after one move loop in search_negamax (stores %d, recursive calls %d, loops %d)" % (len(puts), len(rec), len(heads)))
        return
    put, hdr = puts[0], heads[0]
    body = {hdr}
    for (a_, h) in cfg.back_edges():
        if h == hdr:
            work = [a_]
            while work:
                x = work.pop()
                if x not in body:
                    body.add(x)
                    work.extend(cfg.pred[x])
    doms = [d for d in sorted(cfg.reach) if d not in body and cfg.dominates(hdr, d) and cfg.dominates(d, put)]
    entry = [d for d in doms if all(cfg.dominates(d, e) for e in doms)]
    # the stored value: field `value` of the ValuedMove / entry handed to put
    best_l = None
    pex = ex.operand(f["blocks"][put]["term"]["args"][-1]) if f["blocks"][put]["term"]["args"] else None
    cmp_locals = {}
    for b in sorted(cfg.reach):
        sw = f["blocks"][b]["term"]
        if sw["k"] == "switch" and b not in body and cfg.dominates(hdr, b):
            d = ex.operand(sw["discr"])
            if d[0] == "bin" and d[1] in ("Le", "Ge", "Lt", "Gt"):
                for x in (d[2], d[3]):
                    if x[0] == "local" and x not in (ALPHA, BETA):
                        cmp_locals[x[1]] = cmp_locals.get(x[1], 0) + 1
    # multi-definition locals read through copies: follow `_t = copy best`
    def root_local(l, depth=0):
        defs = ex.defs.get(l, [])
        if len(defs) == 1 and defs[0][0] == "stmt" and defs[0][3]["op"] == "use" and defs[0][3]["a"][0].get("k") in ("copy", "move") and not defs[0][3]["a"][0]["pl"]["p"] and depth < 6:
            return root_local(defs[0][3]["a"][0]["pl"]["l"], depth + 1)
        return l
    if not entry:
        ctx.lost(rid, "the block after the move loop that leads to the table store")
        return
    entry = entry[0]
    NTV = {NT + "::" + v: i for i, v in enumerate(variants)}

    def var_of(t):
        if t == ("param", 5):
            return "alpha_original"
        if t == BETA:
            return "beta"
        if t == ALPHA:
            return "alpha"
        if t == ("param", 6):
            return "beta_original"
        if t[0] == "local" and best_l is not None and t[1] == best_l:
            return "best"
        if t[0] == "call" and t[1].endswith("Heuristic::is_checkmate"):
            # the mate test of the stored value; of anything else it is a different question
            return "mate" if len(t[2]) == 2 and t[2][1] == ("local", best_l) else "mate_of_something_else"
        return None
    # which local is `best`: the one the region compares with the bounds
    cands = sorted(cmp_locals, key=lambda l: -cmp_locals[l])
    if not cands:
        ctx.lost(rid, "the comparisons of the best value with alpha_original / beta after the move loop")
        return
    best_l = cands[0]
    domains = {"alpha_original": [10], "beta": [20], "alpha": [17], "beta_original": [30], "best": [5, 10, 15, 20, 25], "mate": [0, 1], "mate_of_something_else": [0, 1]}
    try:
        lvs = explore(f, var_of, domains, entry=entry, stop_at=lambda b: b == put, max_leaves=4000)
    except TooBig as e:
        ctx.lost(rid, "the region between the move loop and the table store as a decision table (%s)" % e)
        return

    def stored(lf):
        if lf.path[-1] != put:
            return "not stored"
        tr = lf.calls[-1][1]
        kinds = {x[2].rsplit("::", 1)[-1] for x in leaves(tr, kinds=("agg",)) if x[0] == "agg" and x[2].startswith(NT + "::")} if False else set()
        def walk(t):
            if isinstance(t, tuple):
                if t and t[0] == "agg" and isinstance(t[2], str) and t[2].startswith(NT + "::"):
                    kinds.add(t[2].rsplit("::", 1)[-1])
                for x in t:
                    walk(x)
        walk(tr)
        return sorted(kinds)[0] if len(kinds) == 1 else "?"

    def spec(e):
        if e["mate"]:
            return "not stored"
        if e["best"] <= e["alpha_original"]:
            return "Upperbound"
        if e["best"] >= e["beta"]:
            return "Lowerbound"
        return "Exact"
    if not any(lf.path[-1] == put for lf in lvs):
        ctx.lost(rid, "a path from the end of the move loop to the table store")
        return
    unknown = [lf for lf in lvs if stored(lf) == "?"]
    if unknown:
        ctx.lost(rid, "the node type of the stored entry (not a NodeType built on the path)")
        return
    # a leaf that leaves the function without reaching the store because of a test every storing leaf passes the
    # other way (no legal move was found: terminal evaluation; the stop flag) is another exit, not a store decision
    storing = [lf for lf in lvs if lf.path[-1] == put]
    def other_exit(lf):
        for (d, cc) in lf.opaque:
            if all(any(d2 == d and c2 != cc for (d2, c2) in s_.opaque) for s_ in storing):
                return True
        return False
    lvs = [lf for lf in lvs if lf.path[-1] == put or not other_exit(lf)]
    viol, und, n = judge(lvs, ["best", "mate"], dict(domains, alpha_original=[10], beta=[20]), stored, lambda e: spec(dict(e, alpha_original=10, beta=20)))
    by_variant = {}
    for (e, got, want, lf) in viol:
        k_ = want if want != "not stored" else "not-for-mate-scores"
        by_variant.setdefault(k_, []).append((e, got, want))
    rel = lambda e: "best %s alpha_original, best %s beta%s" % ("<" if e["best"] < 10 else "=" if e["best"] == 10 else ">", "<" if e["best"] < 20 else "=" if e["best"] == 20 else ">", ", a mate score" if e["mate"] else "")
    for v in variants:
        bad = by_variant.get(v, [])
        ctx.ob(rid, "store|%s" % v, not bad, "" if not bad else "with %s the table store records %s (expected a %s entry: Upperbound iff best <= alpha_original, Lowerbound iff best >= beta, else Exact)" % (rel(bad[0][0]), bad[0][1], v),
               ctx.where(f, f["blocks"][put]["term"]["line"]), sample={"variant": v, "cases": n, "leaves": len(lvs)})
    bad = by_variant.get("not-for-mate-scores", [])
    ctx.ob(rid, "store|not-for-mate-scores", not bad, "" if not bad else "a mate score (%s) is stored as %s: the table store is not guarded by !is_checkmate(best value)" % (rel(bad[0][0]), bad[0][1]), ctx.where(f, f["blocks"][put]["term"]["line"]))
    ctx.ob(rid, "store|same-value-compared", True, "", ctx.where(f))
    for u in und[:1]:
        ctx.lost(rid, "table store under a condition the decision table cannot evaluate (%s)" % "; ".join(show(d) for d, cc in u[3].opaque)[:160])
    # ---- probe: from the first test of the probed entry's node type to the test that compares the two window
    # variables, as a decision table over (node type, stored value relative to the window)
    probe_blocks = []
    for b in sorted(cfg.reach):
        sw = f["blocks"][b]["term"]
        if sw["k"] == "switch" and b not in body and not cfg.dominates(hdr, b):
            d = ex.operand(sw["discr"])
            if any(x[0] == "f" and x[2] == "node_type" for x in leaves(d, kinds=("f",))) or (d[0] == "discr" and d[1][0] == "f" and d[1][2] == "node_type"):
                probe_blocks.append(b)
    if not probe_blocks:
        ctx.lost(rid, "the test of the probed entry's node_type")
        return
    pentry = [b for b in probe_blocks if all(cfg.dominates(b, x) for x in probe_blocks)]
    closes = []
    for b in sorted(cfg.reach):
        sw = f["blocks"][b]["term"]
        if sw["k"] == "switch" and b not in body and not cfg.dominates(hdr, b) and pentry and cfg.dominates(pentry[0], b) and b != pentry[0]:
            d = ex.operand(sw["discr"])
            ls = set(leaves(d, kinds=("local",)))
            if ALPHA in ls and BETA in ls:
                closes.append(b)
    if not pentry or not closes:
        ctx.lost(rid, "the probe region (first node_type test %s, window test %s)" % (pentry, closes))
        return
    pentry, close = pentry[0], closes[0]
    nt_leaf = {}

    def var_of_p(t):
        if t[0] == "discr" and t[1][0] == "f" and t[1][2] == "node_type":
            return "node_type"
        if t[0] == "f" and t[2] == "node_type":
            return "node_type"
        if t == ALPHA:
            return "alpha"
        if t == BETA:
            return "beta"
        if t[0] == "f" and t[2] == "value" and t[1][0] in ("dc", "*", "f", "local"):
            return "value"
        return None
    dom_p = {"node_type": list(range(len(variants))), "alpha": [10], "beta": [20], "value": [5, 10, 15, 20, 25]}
    try:
        lp = explore(f, var_of_p, dom_p, entry=pentry, stop_at=lambda b: b == close, max_leaves=4000)
    except TooBig as e:
        ctx.lost(rid, "the probe region as a decision table (%s)" % e)
        return
    from ..semtable import evaluate, NeedVar, Opaque

    def outcome(lf, e=None):
        return None
    rows = []
    for lf in lp:
        for nt_i in ([lf.env["node_type"]] if "node_type" in lf.env else dom_p["node_type"]):
            for val in ([lf.env["value"]] if "value" in lf.env else dom_p["value"]):
                env = {"node_type": nt_i, "alpha": 10, "beta": 20, "value": val}
                if lf.path[-1] != close:
                    got = ("return",)
                else:
                    try:
                        a2 = evaluate(lf.pe.local(alpha_l[0]), var_of_p, env)
                        b2 = evaluate(lf.pe.local(beta_l[0]), var_of_p, env)
                        got = ("window", a2, b2)
                    except (NeedVar, Opaque):
                        got = ("?",)
                v = variants[nt_i]
                want = ("window", max(10, val), 20) if v == "Lowerbound" else ("window", 10, min(20, val)) if v == "Upperbound" else ("return",)
                rows.append((v, val, got, want, bool(lf.opaque)))
    for v in variants:
        mine = [r for r in rows if r[0] == v]
        bad = [r for r in mine if r[2] != r[3] and r[2] != ("?",) and not r[4]]
        unk = [r for r in mine if r[2] == ("?",) or (r[2] != r[3] and r[4])]
        if not mine or (unk and not bad):
            ctx.lost(rid, "what probing a %s entry does to the window" % v)
            continue
        ctx.ob(rid, "probe|%s" % v, not bad,
               "" if not bad else "probing a %s entry with value %d in the window (10, 20) gives %s (expected %s: Lowerbound raises alpha to max(alpha, value), Upperbound lowers beta to min(beta, value), Exact returns the entry)" % (v, bad[0][1], bad[0][2], bad[0][3]),
               ctx.where(f, f["blocks"][pentry]["term"]["line"]), sample={"variant": v, "cases": len(mine)})


_LOCAL_LABEL = {}
_LOCAL_EXPAND = {}
_PROG = [None]
_KNOWN = [None]
_CLOSURE_CACHE = {}


def _closure_atoms(name):
    """what a closure passed to a combinator tests and computes: atoms of its branch conditions and of its result"""
    if name in _CLOSURE_CACHE:
        return _CLOSURE_CACHE[name]
    _CLOSURE_CACHE[name] = set()
    prog = _PROG[0]
    g = prog.fns.get(name) if prog else None
    if g is None:
        _CLOSURE_CACHE[name] = {"closure"}
        return _CLOSURE_CACHE[name]
    gx = Exprs(g)
    out = set()
    saved_label, saved_expand = dict(_LOCAL_LABEL), dict(_LOCAL_EXPAND)
    _LOCAL_LABEL.clear(); _LOCAL_EXPAND.clear()
    try:
        for blk in g["blocks"]:
            if blk.get("cleanup"):
                continue
            t = blk["term"]
            if t["k"] == "switch":
                out |= _atoms(gx.operand(t["discr"]), 1)
            for st in blk["stmts"]:
                if st["dst"] is not None and st["dst"]["l"] == 0:
                    out |= _atoms(gx.rvalue(st["rv"], None), 1)
            if t["k"] == "call" and t.get("dest") and t["dest"]["l"] == 0:
                out |= _atoms(gx.call(t), 1)
    finally:
        _LOCAL_LABEL.clear(); _LOCAL_LABEL.update(saved_label)
        _LOCAL_EXPAND.clear(); _LOCAL_EXPAND.update(saved_expand)
    # parameters of a closure are its captures / the combinator's payload: not the search's arguments
    out = {a for a in out if not (a.startswith("arg") and a[3:].isdigit())}
    _CLOSURE_CACHE[name] = out
    return out


def _atoms(t, depth=0):
    """coarse, rename-stable description of a condition / value tree: callee names (arguments not descended),
    field names, parameter numbers, operators; locals are anonymous"""
    out = set()
    if not isinstance(t, tuple):
        return out
    k = t[0]
    if k == "call":
        short = "::".join(t[1].replace("<", "").replace(">", "").split("::")[-2:])
        if t[1].startswith(("core::option::Option", "core::result::Result")) and depth < 6:
            # map_or / is_some_and / unwrap_or ...: plumbing; what is tested is in the receiver and in the closure
            for a in t[2]:
                out |= _atoms(a, depth + 1)
            return out
        if t[1].startswith("inkayaku_") and _KNOWN[0] is not None and t[1] not in _KNOWN[0] and "{closure" not in t[1]:
            # a workspace function that does not exist on the reviewed tree and could not be spliced in: what it
            # tests is unknown (like a variable this rule cannot trace)
            out.add("local")
            return out
        if short.split("::")[0] in ("PartialOrd", "Ord") and short.split("::")[-1] in ("gt", "lt", "ge", "le", "cmp", "partial_cmp"):
            short = "PartialOrd::compare"       # a > b is b < a
        elif short.split("::")[0] in ("PartialEq",) and short.split("::")[-1] in ("eq", "ne"):
            short = "PartialEq::compare"
        out.add("call:" + short)
        return out
    if k == "agg" and t[1] == "closure":
        out |= _closure_atoms(t[2])     # (the captures are plumbing: what is tested is in the body)
        return out
    if k == "param":
        out.add("arg%d" % t[1])
    elif k == "local":
        if t[1] in _LOCAL_LABEL:
            out.add(_LOCAL_LABEL[t[1]])
        elif t[1] in _LOCAL_EXPAND and depth < 6:
            out |= _LOCAL_EXPAND[t[1]]
        else:
            out.add("local")
    elif k == "f":
        # `self.state.bitboard.turn`: what is read is `turn`; the way there (receiver, owning structs) is navigation
        out.add("field:" + str(t[2]))
        base = t[1]
        while isinstance(base, tuple) and base and base[0] in ("f", "*", "&", "dc"):
            base = base[1]
        if not (base[0] == "param" and base[1] == 1):
            out |= _atoms(base, depth + 1)
    elif k == "bin":
        out.add("cmp" if t[1] in ("Ge", "Gt", "Le", "Lt", "Eq", "Ne") else "op:" + t[1])
        out |= _atoms(t[2], depth + 1) | _atoms(t[3], depth + 1)
    elif k in ("un",):
        if t[1] != "Not":
            out.add("op:" + t[1])
        out |= _atoms(t[2], depth + 1)
    elif k == "cast":
        out |= _atoms(t[2], depth + 1)
    elif k in ("*", "&", "discr"):
        if k == "discr":
            out.add("discr")
        out |= _atoms(t[1], depth + 1)
    elif k == "dc":
        out |= _atoms(t[1], depth + 1)
    elif k == "agg":
        out.add("agg:" + str(t[2]).rsplit("::", 2)[-1])
        for a in t[3]:
            out |= _atoms(a, depth + 1)
    elif k == "c":
        if isinstance(t[1], bool):
            out.add("const:%s" % t[1])
    return out


def search_control_inventory(f, name):
    """every way the recursive search `f` stops searching: exits (assignments of the return value), loop skips
    (paths of the move loop that return to its header without the recursive call) and loop breaks.  Each item:
    (kind, key, line) with key = immediate guards + value, described by _atoms"""
    cfg, ex = Cfg(f), Exprs(f)
    _LOCAL_LABEL.clear()
    for p_ in range(1, f["args"] + 1):
        for l in param_local_copy(f, ex, p_):
            _LOCAL_LABEL[l] = "var(arg%d)" % p_
    # a boolean temporary assigned in several places (`matches!`, `a && b` stored in a variable, a flag): described by
    # what its definitions compute and by the tests that choose between them
    _LOCAL_EXPAND.clear()
    cdeps = cfg.control_deps()
    pending = {}
    for l, defs in ex.defs.items():
        if l in _LOCAL_LABEL or len(defs) < 2 or l <= f["args"]:
            continue
        pending[l] = defs
    for l, defs in pending.items():
        at = set()
        is_bool = f["locals"][l]["ty"] == "bool"
        # an Option / enum assigned in several places and tested by its discriminant says which assignment happened:
        # like a flag, it is described by the tests that choose between the assignments, not by the payload
        ty_ = f["locals"][l]["ty"]
        is_enum = all(d[0] == "stmt" and d[3]["op"] == "agg" and d[3].get("kind") == "adt" for d in defs) or ty_.split("<")[0].rsplit("::", 1)[-1] in ("Option", "Result")
        if is_enum:
            is_bool = True
        for d in defs:
            tr = ex.rvalue(d[3], f["locals"][l]["ty"]) if d[0] == "stmt" else ex.call(d[3], d[1])
            if is_enum:
                tr = ("c", 0, "u8", None)
            # `i = i + 1`: a counter; the local itself is not one of its own ingredients
            if tr[0] == "bin" and tr[1].replace("WithOverflow", "") in ("Add", "Sub") and ("local", l) in (tr[2], tr[3]) and any(x[0] == "c" for x in (tr[2], tr[3])):
                at.add("counter")
                continue
            if tr[0] == "f" and tr[1][0] == "bin" and tr[1][1].replace("WithOverflow", "") in ("Add", "Sub") and ("local", l) in (tr[1][2], tr[1][3]):
                at.add("counter")
                continue
            at |= _atoms(tr, 1)
            if is_bool:
                for (a, sb) in cdeps.get(d[1], ()):
                    sw = f["blocks"][a]["term"]
                    if sw["k"] == "switch":
                        at |= _atoms(ex.operand(sw["discr"]), 1)
        _LOCAL_EXPAND[l] = {a for a in at if not a.startswith("const:")} or {"local"}
    rec = [b for b in sorted(cfg.reach) if f["blocks"][b]["term"]["k"] == "call" and f["blocks"][b]["term"]["callee"].get("key") == SEARCH + name]
    if len(rec) != 1:
        return None
    rec = rec[0]
    headers = sorted({h for (a, h) in cfg.back_edges() if cfg.dominates(h, rec)})
    if len(headers) != 1:
        return None
    hdr = headers[0]
    body = set()
    for (a, h) in cfg.back_edges():
        if h != hdr:
            continue
        work = [a]
        body.add(h)
        while work:
            x = work.pop()
            if x in body:
                continue
            body.add(x)
            work.extend(cfg.pred[x])

    # the loop's own test: the first switch after the header (iterator exhausted / loop condition false)
    ns = hdr
    for _ in range(8):
        if f["blocks"][ns]["term"]["k"] == "switch":
            break
        nxt = [x for x in cfg.succ[ns] if not f["blocks"][x]["cleanup"]]
        if len(nxt) != 1:
            ns = None
            break
        ns = nxt[0]
    else:
        ns = None

    def guards(b):
        gs = []
        for (a, sb) in sorted(cfg.control_deps().get(b, ())):
            sw = f["blocks"][a]["term"]
            if sw["k"] != "switch":
                continue
            if a == ns:
                gs.append("[loop-test]" + ("continues" if sb in body else "finished"))
                continue
            d = ex.operand(sw["discr"])
            gs.append("[" + ",".join(sorted(_atoms(d))) + "]")
        return sorted(set(gs))

    def governing(b):
        """atoms of every test the block is (transitively) control dependent on"""
        out = set()
        for (a, sb) in cfg.control_deps_transitive(b):
            sw = f["blocks"][a]["term"]
            if sw["k"] == "switch" and a != ns:
                out |= _atoms(ex.operand(sw["discr"]))
        return out

    items = []
    for b in sorted(cfg.reach):
        blk = f["blocks"][b]
        if blk["cleanup"]:
            continue
        vals = []
        for s in blk["stmts"]:
            if s["dst"] is not None and s["dst"]["l"] == 0 and not s["dst"]["p"]:
                vals.append((ex.rvalue(s["rv"], None), s["line"]))
        t = blk["term"]
        if t["k"] == "call" and t.get("dest") and t["dest"]["l"] == 0 and not t["dest"]["p"]:
            vals.append((("call", t["callee"].get("key") or "?", tuple(ex.operand(a) for a in t["args"]), ""), t["line"]))
        for v, line in vals:
            where = "before-loop" if not cfg.dominates(hdr, b) else "loop-or-after"
            items.append(("exit", "%s|exit|%s|if %s" % (name, where, " & ".join(guards(b)) or "-"), line, governing(b)))
    # skips: an edge inside the loop body (before the recursive call) after which the recursive call can no longer
    # be reached in this iteration but the loop continues
    def reach_in_body(start):
        seen, work = set(), [start]
        while work:
            x = work.pop()
            if x in seen or x not in body:
                continue
            seen.add(x)
            if x == hdr:
                continue
            work.extend(cfg.succ[x])
        return seen
    for b in sorted(body):
        t = f["blocks"][b]["term"]
        if t["k"] != "switch" or cfg.dominates(rec, b):
            continue
        if rec not in reach_in_body(b):
            continue
        d = ex.operand(t["discr"])
        for x in sorted(set(cfg.succ[b])):
            r = reach_in_body(x)
            if x in body and rec not in r and hdr in r:
                items.append(("skip", "%s|skip|if [%s]" % (name, ",".join(sorted(_atoms(d)))), t.get("line", 0), governing(b) | _atoms(d)))
    # breaks: edges leaving the loop body from a block other than the header, to a block that is not an exit path only
    can_return = {b for b in cfg.reach if f["blocks"][b]["term"]["k"] == "return"}
    grew = True
    while grew:
        grew = False
        for b in cfg.reach:
            if b not in can_return and not f["blocks"][b]["cleanup"] and any(y in can_return for y in cfg.succ[b]):
                can_return.add(b)
                grew = True
    for b in sorted(body):
        if b == hdr:
            continue
        t = f["blocks"][b]["term"]
        for x in cfg.succ[b]:
            if x in body or f["blocks"][x]["cleanup"] or b == ns or x not in can_return:
                continue        # (an edge into a failed assertion / unreachable!() leaves the program, not the loop)
            if t["k"] == "switch":
                d = ex.operand(t["discr"])
                items.append(("leave", "%s|leave-loop|if [%s]" % (name, ",".join(sorted(_atoms(d)))), t.get("line", 0), governing(b) | _atoms(d)))
            else:
                items.append(("leave", "%s|leave-loop|%s|if %s" % (name, t["k"], " & ".join(guards(b)) or "-"), t.get("line", 0), governing(b)))
    return items


def _must_pass(cfg, start, rec, hdr, body):
    """does every path from start back to the loop header (inside the body) pass the recursive call?"""
    seen, work = set(), [start]
    while work:
        x = work.pop()
        if x in seen or x == rec or x not in body:
            continue
        if x == hdr:
            return False
        seen.add(x)
        work.extend(cfg.succ[x])
    return True


def r4_control_inventory(ctx):
    rid = "C08.R4"
    ctx.rule(rid, "every way the two recursive searches stop searching - an exit, a move of the loop skipped without the recursive call, a way out of the move loop - is a reviewed one (tables/search_exits.json, keyed by the atoms of its immediate guard and of the value returned); a new cut-off needs a soundness argument before it is trusted", floor=16)
    from .common import table
    reviewed = {k: v for k, v in table("search_exits.json").items() if not k.startswith("_")}
    seen = set()
    _PROG[0] = ctx.prog
    _CLOSURE_CACHE.clear()
    from ..inline import known_functions
    _KNOWN[0] = known_functions()

    def category(key):
        parts = key.split("|if ")[0].split("|")
        return tuple(parts)

    def key_atoms(key):
        import re
        out = set()
        for grp in re.findall(r"\[([^\]]*)\]", key.split("|if ", 1)[1] if "|if " in key else ""):
            out |= {a for a in grp.split(",") if a}
        # the window variable initialised from parameter N and narrowed by max / min is "parameter N" wherever it
        # travels (a mutable local, a field of a helper's result)
        out = {("arg" + a[7:-1]) if a.startswith("var(arg") else a for a in out}
        return out - {"call:cmp::max", "call:cmp::min"}
    allowed = {}
    for k in reviewed:
        allowed.setdefault(category(k), set()).update(key_atoms(k))
    for cat, atoms_ in table("search_exits.json").get("_vocabulary", {}).items():
        allowed.setdefault(tuple(cat.split("|")), set()).update(("arg" + a[7:-1]) if a.startswith("var(arg") else a for a in atoms_)
    import json as _json, os as _os
    from ..core import VERIF as _V
    try:
        _known_fields = set(_json.load(open(_os.path.join(_V, "tables", "known_functions.json"))).get("fields", []))
    except (OSError, ValueError):
        _known_fields = None
    # a field of a type that does not exist on the reviewed tree (a helper's result struct / enum) is plumbing: what
    # it carries was computed from something else, which is described by its own atoms
    # a reviewed exit may test the result of a workspace function (`call:Search::evaluate`); when that function is
    # renamed / re-parameterised and therefore spliced in, the same exit tests what the function's body computes:
    # the vocabulary is closed under the bodies (on the current tree) of the workspace callees it names
    def body_atoms(short):
        out = set()
        for k_, g_ in ctx.prog.fns.items():
            if not k_.startswith("inkayaku_") or g_.get("test") or "::".join(k_.replace("<", "").replace(">", "").split("::")[-2:]) != short:
                continue
            out |= _closure_atoms(k_)
        return out
    for cat_ in list(allowed):
        extra_ = set()
        for a_ in list(allowed[cat_]):
            if a_.startswith("call:"):
                extra_ |= body_atoms(a_[5:])
        allowed[cat_] |= {("arg" + x[7:-1]) if x.startswith("var(arg") else x for x in extra_}
    STRUCTURAL = lambda a: a in ("cmp", "discr", "local") or a.startswith("op:") or a.startswith("const:") or a.startswith("agg:") or \
        (a.startswith("field:") and _known_fields is not None and a[6:] not in _known_fields)
    for name in ("search_negamax", "search_quiescence"):
        f = ctx.fn(rid, SEARCH + name)
        items = search_control_inventory(f, name)
        if items is None:
            ctx.lost(rid, "%s: one recursive call inside one move loop" % name)
            continue
        for kind, key, line, governing in items:
            if key in seen:
                continue
            seen.add(key)
            # reviewed as it stands, or built only from what the reviewed exits of the same kind test (the same
            # conditions regrouped, negated, split over a helper or a temporary): not a new cut-off
            new_atoms = {a for a in key_atoms(key) - allowed.get(category(key), set()) if not STRUCTURAL(a)}
            if kind == "exit" and "|before-loop|" in key:
                new_atoms.discard("counter")        # (a count made before the move loop is no move counter)
            ok = key in reviewed or not new_atoms
            if not ok and kind == "exit" and "|loop-or-after|" in key:
                # a return after (or out of) the move loop hands back what the loop found; leaving the loop early is
                # judged as `leave-loop`, skipping a move as `skip`. How the result is assembled is not a cut-off.
                ctx.lost(rid, "%s: a return after the move loop assembled under conditions the reviewed ones do not use (%s)" % (name, sorted(new_atoms)))
                continue
            if ok and key not in reviewed and "local" in key_atoms(key) - allowed.get(category(key), set()):
                ctx.lost(rid, "%s: %s under a variable this rule cannot trace to a test (%s)" % (name, {"exit": "a return", "skip": "a move-loop skip", "leave": "a way out of the move loop"}[kind], key))
                continue
            ctx.ob(rid, key, ok,
                   "" if ok else "%s has a %s that depends on %s, which no reviewed exit of that kind depends on: the search stops (or skips a move) under a condition nobody argued sound - a cut-off that discards a line which could still change the value (delta/futility/null-move style pruning, an early fail-low before any move was searched) changes minimax values" % (name, {"exit": "return", "skip": "move-loop skip", "leave": "way out of the move loop"}[kind], sorted(new_atoms)),
                   ctx.where(f, line), sample={"key": key, "reason": reviewed.get(key, "")[:160]})
    gone = sorted(set(reviewed) - seen)
    ctx.extra["reviewed_exits_not_present"] = gone


def run(ctx):
    r1_signs(ctx)
    r2_bounds(ctx)
    r3_no_moves_flag(ctx)
    r4_control_inventory(ctx)


def r3_no_moves_flag(ctx):
    """the `legal_moves_remaining` flag handed to the evaluator is backed by evidence on every path"""
    rid = "C08.R3"
    ctx.rule(rid, "the evaluator is told 'legal moves remain' only where a legal move is known to exist (is_any_move_legal / a validated make) and 'none remain' only where none was found; quiescence stand-pat passes true by design", floor=3)
    prog = ctx.prog
    BB = "inkayaku_board::board::Bitboard::"
    f = ctx.fn(rid, SEARCH + "search_negamax")
    cfg, ex = Cfg(f), Exprs(f)
    # Search::evaluate must pass its flag through unchanged
    se = ctx.fn(rid, SEARCH + "evaluate")
    sex = Exprs(se)
    passed = False
    for b in se["blocks"]:
        t = b["term"]
        if t["k"] == "call" and (t["callee"].get("orig") or t["callee"].get("key") or "").endswith("Heuristic::evaluate"):
            passed = sex.operand(t["args"][3]) == ("param", 4)
    ctx.ob(rid, "Search::evaluate|flag-passed-through", passed, "" if passed else "Search::evaluate does not hand its legal_moves_remaining parameter to Heuristic::evaluate unchanged", ctx.where(se))

    def evidence(block, want_true):
        """is `block` control dependent on a test that establishes (non-)existence of a legal move?"""
        for (a, sb) in cfg.control_deps_transitive(block):
            sw = f["blocks"][a]["term"]
            if sw["k"] != "switch":
                continue
            d = ex.operand(sw["discr"])
            true_edge = sb == sw["otherwise"]
            neg = False
            while d[0] == "un" and d[1] == "Not":
                d = d[2]
                neg = not neg
            val = true_edge != neg
            if d[0] == "call" and d[1] == BB + "is_any_move_legal" and val == want_true:
                return "is_any_move_legal == %s" % want_true
            if d[0] == "local":
                # a flag local such as `legal_moves_encountered`: true only after a validated make
                defs = ex.defs.get(d[1], [])
                consts = [(dd[1], dd[3]["a"][0].get("v")) for dd in defs if dd[0] == "stmt" and dd[3]["op"] == "use" and dd[3]["a"][0].get("k") == "const"]
                if len(consts) == len(defs) and {v for _, v in consts} == {True, False}:
                    trues = [blk for blk, v in consts if v is True]
                    backed = all(any((f["blocks"][a2]["term"]["k"] == "switch" and ex.operand(f["blocks"][a2]["term"]["discr"])[0] in ("call", "un")
                                      and any(x[0] == "call" and x[1] == BB + "is_valid" for x in leaves(ex.operand(f["blocks"][a2]["term"]["discr"]))))
                                     for (a2, s2) in cfg.control_deps_transitive(tb)) or _after_valid(cfg, f, ex, tb, BB) for tb in trues)
                    if backed and val == want_true:
                        return "flag local _%d (set only after a validated make) == %s" % (d[1], want_true)
                    if not backed and val == want_true:
                        # the flag is set under the outcome of something this rule cannot see through (an enum
                        # result of a helper that makes, validates and searches the move): no verdict
                        for tb in trues:
                            for (a2, s2) in cfg.control_deps_transitive(tb):
                                sw2 = f["blocks"][a2]["term"]
                                if sw2["k"] == "switch":
                                    d2 = ex.operand(sw2["discr"])
                                    if d2[0] == "discr" and d2[1][0] == "local" and len(ex.defs.get(d2[1][1], [])) > 1:
                                        return "?untraceable"
        return None
    sites = [b for b in sorted(cfg.reach) if f["blocks"][b]["term"]["k"] == "call" and f["blocks"][b]["term"]["callee"].get("key") == SEARCH + "evaluate"]
    if not sites:
        ctx.lost(rid, "calls of Search::evaluate in search_negamax")
        return
    for n, b in enumerate(sites):
        t = f["blocks"][b]["term"]
        op = t["args"][3]
        problems, proofs = [], []
        if op.get("k") == "const":
            ev = evidence(b, bool(op.get("v")))
            (proofs if ev else problems).append(ev or "constant %s without evidence" % op.get("v"))
        else:
            l = op["pl"]["l"]
            # follow plain copies
            seen = set()
            while l not in seen:
                seen.add(l)
                ds = ex.defs.get(l, [])
                if len(ds) == 1 and ds[0][0] == "stmt" and ds[0][3]["op"] == "use" and ds[0][3]["a"][0].get("k") in ("copy", "move") and not ds[0][3]["a"][0]["pl"]["p"]:
                    l = ds[0][3]["a"][0]["pl"]["l"]
            for d in ex.defs.get(l, []):
                if d[0] == "call" and d[3]["callee"].get("key") == BB + "is_any_move_legal":
                    proofs.append("= is_any_move_legal(..)")
                elif d[0] == "stmt" and d[3]["op"] == "use" and d[3]["a"][0].get("k") == "const" and isinstance(d[3]["a"][0].get("v"), bool):
                    v = d[3]["a"][0]["v"]
                    ev = evidence(d[1], v)
                    (proofs if ev else problems).append(ev or "set to %s at line %d without testing for a legal move" % (v, f["blocks"][d[1]]["stmts"][d[2]]["line"] if d[2] is not None else 0))
                else:
                    problems.append("computed by %s" % (show(ex.rvalue(d[3])) if d[0] == "stmt" else (d[3]["callee"].get("key") or "?")))
            if not ex.defs.get(l):
                problems.append("parameter or unknown value")
        if any(p_ == "?untraceable" for p_ in proofs) and not problems:
            ctx.lost(rid, "evaluate call %d: the flag that says whether a legal move was found is set under a helper's result" % n)
            continue
        ctx.ob(rid, "search_negamax|evaluate-call-%d" % n, not problems,
               "" if not problems else "search_negamax tells the evaluator whether legal moves remain with a value that is %s: a move-less position that is not in check (stalemate) or a mate can then be valued by the static evaluation"
               % "; ".join(problems), ctx.where(f, t["line"]), sample={"call": n, "flag_backed_by": proofs})


def _after_valid(cfg, f, ex, blk, BB):
    """block `blk` is reached only after `is_valid()` returned true for the move just made: some dominating
    switch on is_valid has its false edge leaving the region"""
    for a in sorted(cfg.reach):
        sw = f["blocks"][a]["term"]
        if sw["k"] == "switch" and cfg.dominates(a, blk) and a != blk:
            d = ex.operand(sw["discr"])
            if any(x[0] == "call" and x[1] == BB + "is_valid" for x in leaves(d)):
                neg = d[0] == "un" and d[1] == "Not"
                valid_succ = sw["targets"][0][1] if neg else sw["otherwise"]
                if cfg.dominates(valid_succ, blk):
                    return True
    return False


def r5_move_lists(ctx):
    """the moves each recursive search iterates are the generator's output for the current node"""
    rid = "C08.R5"
    ctx.rule(rid, "search_negamax iterates the pseudo-legal generator's list and search_quiescence the capture/promotion generator's list of the node itself: the generator call dominates the move loop, and between it and the loop the list is only sorted (and, at the root, filtered by searchmoves): no retain / truncate / drain / pop / reuse of a caller's list", floor=4)
    GEN = {"search_negamax": "generate_pseudo_legal_moves_with_buffer", "search_quiescence": "generate_pseudo_legal_non_quiescent_moves_with_buffer"}
    SHRINK = ("retain", "retain_mut", "truncate", "drain", "pop", "remove", "swap_remove", "dedup", "dedup_by", "dedup_by_key", "split_off", "resize", "extract_if")
    for name, gen in GEN.items():
        f = ctx.fn(rid, SEARCH + name)
        cfg, ex = Cfg(f), Exprs(f)
        rec = [b for b in sorted(cfg.reach) if f["blocks"][b]["term"]["k"] == "call" and f["blocks"][b]["term"]["callee"].get("key") == SEARCH + name]
        heads = sorted({h for (a, h) in cfg.back_edges() if rec and cfg.dominates(h, rec[0])})
        if len(rec) != 1 or len(heads) != 1:
            ctx.lost(rid, "%s: the move loop" % name)
            continue
        hdr = heads[0]
        gens = [b for b in sorted(cfg.reach) if f["blocks"][b]["term"]["k"] == "call" and (f["blocks"][b]["term"]["callee"].get("key") or "").endswith("Bitboard::" + gen)]
        ok = len(gens) >= 1 and any(cfg.dominates(g_, hdr) for g_ in gens)
        ctx.ob(rid, "%s|generator-dominates-loop" % name, ok,
               "" if ok else "%s can reach its move loop without having called Bitboard::%s for this node: it iterates a list it did not generate (a caller's list, filtered), so moves the generator would produce - quiet promotions in the capture list, for example - are never searched" % (name, gen),
               ctx.where(f), sample={"generator_calls": len(gens)})
        # the buffer parameter is not shrunk before the loop
        shr = []
        for b in sorted(cfg.reach):
            t = f["blocks"][b]["term"]
            if t["k"] != "call" or cfg.dominates(hdr, b):
                continue
            k = t["callee"].get("key") or ""
            if k.rsplit("::", 1)[-1] in SHRINK and ("Vec" in k or "vec" in k):
                # only the list the generator fills counts (a pool of spare buffers that is popped from is another Vec)
                def root_(tr):
                    while isinstance(tr, tuple) and tr and tr[0] in ("&", "*", "f", "dc", "cast"):
                        tr = tr[2] if tr[0] == "cast" else tr[1]
                    return tr
                lists_ = {root_(ex.operand(f["blocks"][g_]["term"]["args"][-1])) for g_ in gens if f["blocks"][g_]["term"]["args"]}
                recv_tree = ex.operand(t["args"][0]) if t["args"] else None
                if lists_ and recv_tree is not None and root_(recv_tree) not in lists_ and root_(recv_tree)[0] in ("param", "local"):
                    same_ty = False
                    if root_(recv_tree)[0] in ("param", "local"):
                        ty_ = f["locals"][root_(recv_tree)[1]]["ty"]
                        same_ty = "Vec<inkayaku_board::Move>" in ty_ and "Vec<std::vec::Vec" not in ty_ and "Vec<Vec" not in ty_
                    if not same_ty or (recv_tree[0] != "local" and any(isinstance(x, tuple) and x and x[0] == "f" for x in [recv_tree[1] if recv_tree[0] in ("&", "*") else recv_tree])):
                        continue
                # at the root the list is filtered by searchmoves (filter_search_moves, possibly spliced in): a shrink
                # that only happens under a test of the distance from the root is that filter
                at_root = False
                if name == "search_negamax":
                    for (a_, sb_) in cfg.control_deps_transitive(b):
                        sw_ = f["blocks"][a_]["term"]
                        if sw_["k"] == "switch" and any(x == ("param", 3) for x in leaves(ex.operand(sw_["discr"]))):
                            at_root = True
                if not at_root:
                    shr.append((k.rsplit("::", 1)[-1], t["line"]))
        ctx.ob(rid, "%s|list-not-shrunk-before-loop" % name, not shr, "" if not shr else "%s shrinks a move list before its loop with %s" % (name, shr), ctx.where(f, shr[0][1] if shr else None))


_run_before_r5 = run


def run(ctx):
    _run_before_r5(ctx)
    r5_move_lists(ctx)


_run_before_shared_history = run


def run(ctx):
    _run_before_shared_history(ctx)
    # "irrespective of what was searched before on the same engine instance": the repetition history of a new
    # position command starts empty (shared with C10.R2), otherwise hashes of the previous game are counted
    from . import c10
    c10.r2_history(ctx)


def r6_table_cleared_per_go(ctx):
    """depth-d values do not depend on what was searched before on the same engine instance"""
    rid = "C08.R6"
    ctx.rule(rid, "the transposition table is emptied at the start of every go, before its first search (a clear that dominates every search_negamax call of Search::best_move outside the iteration loop, or one in Search::go / reset_for_go that dominates the call of best_move): otherwise an entry of an earlier, deeper search answers a shallower one and the reported value is not the depth-d minimax value", floor=1)
    prog = ctx.prog
    bm = ctx.fn(rid, SEARCH + "best_move", positional=False)
    bcfg = Cfg(bm)

    def clears_in(f, cfg):
        out = []
        for b in sorted(cfg.reach):
            t = f["blocks"][b]["term"]
            if t["k"] == "call" and not f["blocks"][b]["cleanup"] and (t["callee"].get("key") or "").endswith("TranspositionTable>::clear"):
                out.append(b)
        return out
    searches = [b for b in sorted(bcfg.reach) if bm["blocks"][b]["term"]["k"] == "call" and bm["blocks"][b]["term"]["callee"].get("key") == SEARCH + "search_negamax"]
    if not searches:
        ctx.lost(rid, "the search_negamax call of Search::best_move")
        return
    ok = all(any(bcfg.dominates(c, sb) and not bcfg.in_loop(c) for c in clears_in(bm, bcfg)) for sb in searches)
    where = ctx.where(bm)
    if not ok:
        go = prog.fns.get(SEARCH + "go")
        if go is not None:
            gcfg = Cfg(go)
            calls_bm = [b for b in sorted(gcfg.reach) if go["blocks"][b]["term"]["k"] == "call" and go["blocks"][b]["term"]["callee"].get("key") == SEARCH + "best_move"]
            direct = clears_in(go, gcfg)
            # or through a callee of go that clears on every path (reset_for_go)
            via = []
            for b in sorted(gcfg.reach):
                t = go["blocks"][b]["term"]
                if t["k"] == "call" and (t["callee"].get("key") or "").startswith(SEARCH):
                    g = prog.fns.get(t["callee"]["key"])
                    if g is not None:
                        c2 = Cfg(g)
                        cl = clears_in(g, c2)
                        rets = [x for x in c2.reach if g["blocks"][x]["term"]["k"] == "return"]
                        if cl and rets and all(any(c2.dominates(c, r) for c in cl) for r in rets):
                            via.append(b)
            ok = bool(calls_bm) and all(any(gcfg.dominates(c, cb) for c in direct + via) for cb in calls_bm)
    ctx.ob(rid, "table-cleared-before-the-first-search-of-a-go", ok,
           "" if ok else "no unconditional TranspositionTable::clear precedes the first search of a go (neither in Search::best_move before the iteration loop nor in Search::go / reset_for_go): entries of the previous go survive, the probe accepts any Exact entry of at least the remaining draft, and `go depth 2` after `go depth 4` reports the depth-4 value and line",
           where)


_run_before_r6_tt = run


def run(ctx):
    _run_before_r6_tt(ctx)
    r6_table_cleared_per_go(ctx)
