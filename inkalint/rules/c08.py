"""C08 — shallow search scores are exact minimax values (sign and bound discipline only)."""
from ..cfg import Cfg
from ..expr import Exprs, show, leaves
from ..slice import Slicer, _operand_locals
from .common import SEARCH

SCOPE = "engine"
LEVEL = "other"
EXPLANATION = (
    "Static analysis of the resolved MIR of the two recursive searches. R1 (negamax sign discipline, sibling "
    "agreement): the two window arguments of the recursive call are negations; the first derives (data slice) from "
    "the function's own beta bound and not from its alpha bound, the second from alpha and not from beta; every "
    "read of the child's value is negated exactly once. R2 (transposition bounds): on store, Upperbound is chosen "
    "iff best <= original alpha, Lowerbound iff best >= beta, otherwise Exact, and nothing is stored for mate "
    "scores; on probe, a Lowerbound entry raises alpha by max, an Upperbound entry lowers beta by min, an Exact "
    "entry returns. Decided: these necessary conditions of a correct alpha-beta; not decided: exact minimax values, "
    "pruning soundness in general, mate distances.")

NT = "inkayaku_engine_core::engine::table::transposition::NodeType"


def param_local_copy(f, ex, p):
    """the mutable window local of parameter p: a local with several definitions one of which is `= p` or
    `= max/min(p, ..)` (`let mut alpha = alpha_original` / `let mut alpha = max(alpha_original, standing_pat)`)"""
    out = []
    for l, defs in ex.defs.items():
        if len(defs) < 2 or l <= f["args"]:
            continue
        for d in defs:
            if d[0] == "stmt" and d[3]["op"] == "use" and d[3]["a"][0].get("k") in ("copy", "move") and d[3]["a"][0]["pl"] == {"l": p, "p": []}:
                out.append(l)
            if d[0] == "call" and (d[3]["callee"].get("key") or "") in ("core::cmp::max", "core::cmp::min"):
                if any(ex.operand(a) == ("param", p) for a in d[3]["args"]):
                    out.append(l)
    return sorted(set(out))


def r1_signs(ctx):
    rid = "C08.R1"
    ctx.rule(rid, "recursive call: window = (-beta', -alpha') with beta' derived from the own beta bound only and alpha' from the own alpha bound only; the child's value is negated exactly once", floor=6)
    for name, (pa, pb), (ia, ib) in (("search_negamax", (5, 6), (4, 5)), ("search_quiescence", (4, 5), (3, 4))):
        f = ctx.fn(rid, SEARCH + name)
        cfg, ex, sl = Cfg(f), Exprs(f), Slicer(f)
        rec = [b for b in sorted(cfg.reach) if f["blocks"][b]["term"]["k"] == "call" and f["blocks"][b]["term"]["callee"].get("key") == SEARCH + name]
        if len(rec) != 1:
            ctx.lost(rid, "%s: exactly one recursive call (found %d)" % (name, len(rec)))
            continue
        t = f["blocks"][rec[0]]["term"]
        al, bl = param_local_copy(f, ex, pa), param_local_copy(f, ex, pb)
        own = {"alpha": {("param", pa)} | {("local", l) for l in al}, "beta": {("param", pb)} | {("local", l) for l in bl}}
        for idx, which, label in ((ia, "beta", "first window argument (the child's alpha)"), (ib, "alpha", "second window argument (the child's beta)")):
            tree = ex.operand(t["args"][idx])
            neg = tree[0] == "un" and tree[1] == "Neg"
            inner = tree[2] if neg else tree
            ok = neg and inner in own[which]
            other = "alpha" if which == "beta" else "beta"
            ctx.ob(rid, "%s|arg%d" % (name, idx), ok,
                   "" if ok else "%s: the %s is %s (expected the negation of the own %s bound%s)"
                   % (name, label, show(tree), which, "; it is the own %s bound" % other if inner in own[other] else ""),
                   ctx.where(f, t["line"]), sample={"function": name, "argument": show(tree), "own_%s" % which: sorted(show(x) for x in own[which])})
        # child value negated exactly once: sign-parity dataflow from every read of child.value through single-definition
        # locals (plain copies keep the parity, Neg flips it); every other use (comparison, argument, copy into a
        # multiply assigned variable such as alpha / best) is a sink and must see the value negated exactly once
        child = t["dest"]["l"]
        ndefs = {}
        for b in sorted(cfg.reach):
            for s in f["blocks"][b]["stmts"]:
                if s["dst"] is not None and not s["dst"]["p"]:
                    ndefs[s["dst"]["l"]] = ndefs.get(s["dst"]["l"], 0) + 1
            tt = f["blocks"][b]["term"]
            if tt["k"] == "call" and tt.get("dest") and not tt["dest"]["p"]:
                ndefs[tt["dest"]["l"]] = ndefs.get(tt["dest"]["l"], 0) + 1

        def is_child_value(a):
            return a.get("k") in ("copy", "move") and a["pl"]["l"] == child and [e.get("name") for e in a["pl"]["p"] if isinstance(e, dict)] == ["value"]

        parity = {}     # local -> +1 / -1 (times the child's value)
        changed = True
        while changed:
            changed = False
            for b in sorted(cfg.reach):
                for s in f["blocks"][b]["stmts"]:
                    rv, d = s["rv"], s["dst"]
                    if d is None or d["p"] or ndefs.get(d["l"]) != 1 or rv["op"] not in ("use", "un") or (rv["op"] == "un" and rv["uop"] != "Neg"):
                        continue
                    a = rv["a"][0]
                    src = None
                    if is_child_value(a):
                        src = 1
                    elif a.get("k") in ("copy", "move") and not a["pl"]["p"] and a["pl"]["l"] in parity:
                        src = parity[a["pl"]["l"]]
                    if src is None:
                        continue
                    val = -src if rv["op"] == "un" else src
                    if parity.get(d["l"]) != val:
                        parity[d["l"]] = val
                        changed = True
        reads = negs = 0
        wrong = []

        def sink(a, line):
            nonlocal reads, negs
            if is_child_value(a):
                par = 1
            elif a.get("k") in ("copy", "move") and not a["pl"]["p"] and a["pl"]["l"] in parity:
                par = parity[a["pl"]["l"]]
            else:
                return
            reads += 1
            if par == -1:
                negs += 1
            else:
                wrong.append(line)

        for b in sorted(cfg.reach):
            for s in f["blocks"][b]["stmts"]:
                rv, d = s["rv"], s["dst"]
                propagates = d is not None and not d["p"] and ndefs.get(d["l"]) == 1 and (rv["op"] == "use" or (rv["op"] == "un" and rv["uop"] == "Neg"))
                if propagates:
                    continue
                if rv["op"] == "bin" and rv["bop"] == "Eq" and any(x.get("k") == "const" and x.get("v") == -2147483648 for x in rv["a"]):
                    continue    # the compiler's overflow check in front of a negation
                for a in rv.get("a", []):
                    sink(a, s["line"])
            tt = f["blocks"][b]["term"]
            for a in tt.get("args", []) if tt["k"] == "call" else []:
                sink(a, tt["line"])
            if tt["k"] == "switch":
                sink(tt["discr"], tt.get("line", 0))
        ok = reads >= 1 and reads == negs
        ctx.ob(rid, "%s|child-value-negated" % name, ok, "" if ok else "%s uses the child's value %d time(s) (comparisons, arguments, assignments to alpha/best), of which %d see it negated exactly once; un-negated or doubly negated use at line(s) %s" % (name, reads, negs, sorted(set(wrong))[:4]), ctx.where(f, t["line"]),
               sample={"function": name, "reads": reads, "negations": negs})


def r2_bounds(ctx):
    rid = "C08.R2"
    ctx.rule(rid, "TT store: Upperbound iff best <= alpha_original, Lowerbound iff best >= beta, else Exact, never for mate scores; TT probe: Lowerbound -> alpha = max, Upperbound -> beta = min, Exact -> return", floor=7)
    prog = ctx.prog
    f = ctx.fn(rid, SEARCH + "search_negamax")
    cfg, ex = Cfg(f), Exprs(f)
    adt = prog.adts.get(NT)
    if adt is None:
        ctx.lost(rid, NT)
        return
    variants = [v["name"] for v in adt["variants"]]
    alpha_l = param_local_copy(f, ex, 5)
    beta_l = param_local_copy(f, ex, 6)
    if len(alpha_l) != 1 or len(beta_l) != 1:
        ctx.lost(rid, "the mutable alpha / beta locals initialised from the window parameters (found %s / %s)" % (alpha_l, beta_l))
        return
    ALPHA, BETA = ("local", alpha_l[0]), ("local", beta_l[0])
    # ---- store
    cd = cfg.control_deps()
    assign = {}
    for b in sorted(cfg.reach):
        for s in f["blocks"][b]["stmts"]:
            rv = s["rv"]
            if rv["op"] == "agg" and rv["kind"] == "adt" and rv["adt"] == NT:
                atoms = []
                work, seen = [b], set()
                while work:
                    x = work.pop()
                    if x in seen:
                        continue
                    seen.add(x)
                    for (a, sb) in cd.get(x, ()):
                        sw = f["blocks"][a]["term"]
                        if sw["k"] != "switch":
                            continue
                        d = ex.operand(sw["discr"])
                        if d[0] == "bin" and d[1] in ("Le", "Ge", "Lt", "Gt"):
                            atoms.append((d, sb == sw["otherwise"]))
                            work.append(a)
                assign[rv["variant"]] = (atoms, s["line"])
    if set(assign) != set(variants):
        ctx.lost(rid, "one NodeType construction per variant in search_negamax (found %s)" % sorted(assign))
        return
    def classify(d):
        # normalise to (best ? bound) with the operator as seen from best
        op, x, y = d[1], d[2], d[3]
        bounds = {("param", 5): "alpha_original", ALPHA: "alpha", BETA: "beta", ("param", 6): "beta_original"}
        if y in bounds:
            return op, x, bounds[y]
        if x in bounds:
            return {"Le": "Ge", "Ge": "Le", "Lt": "Gt", "Gt": "Lt"}[op], y, bounds[x]
        return op, x, show(y)
    def fmt(atoms):
        return sorted(("%s %s %s" % ("best" , classify(d)[0], classify(d)[2]), truth) for d, truth in atoms)
    want = {"Upperbound": [("best Le alpha_original", True)],
            "Lowerbound": sorted([("best Le alpha_original", False), ("best Ge beta", True)]),
            "Exact": sorted([("best Le alpha_original", False), ("best Ge beta", False)])}
    bests = set()
    for v in variants:
        atoms, line = assign[v]
        for d, _ in atoms:
            bests.add(classify(d)[1])
        ok = fmt(atoms) == want[v]
        ctx.ob(rid, "store|%s" % v, ok, "" if ok else "a %s entry is stored under %s (expected %s)" % (v, fmt(atoms), want[v]), ctx.where(f, line), sample={"variant": v, "conditions": fmt(atoms)})
    ok = len(bests) == 1
    ctx.ob(rid, "store|same-value-compared", ok, "" if ok else "the classification compares different values: %s" % [show(b) for b in bests], ctx.where(f))
    best = list(bests)[0] if bests else None
    # the put is guarded by !is_checkmate(best)
    puts = [b for b in sorted(cfg.reach) if f["blocks"][b]["term"]["k"] == "call" and (f["blocks"][b]["term"]["callee"].get("key") or "").endswith("TranspositionTable>::put")]
    guard_ok = False
    for pb in puts:
        for (a, sb) in cfg.control_deps_transitive(pb):
            sw = f["blocks"][a]["term"]
            if sw["k"] == "switch":
                d = ex.operand(sw["discr"])
                if d[0] == "call" and d[1].endswith("Heuristic::is_checkmate") and d[2][1] == best and sb != sw["otherwise"]:
                    guard_ok = True
    ctx.ob(rid, "store|not-for-mate-scores", guard_ok and len(puts) == 1, "" if guard_ok else "the table store is not guarded by !is_checkmate(best value)", ctx.where(f))
    # stored value and type
    # ---- probe
    probe = None
    for b in sorted(cfg.reach):
        sw = f["blocks"][b]["term"]
        if sw["k"] == "switch" and len(sw["targets"]) >= 3:
            d = ex.operand(sw["discr"])
            if d[0] == "discr" and d[1][0] == "f" and d[1][2] == "node_type":
                probe = (b, sw, d[1][1])
    if probe is None:
        ctx.lost(rid, "match on the probed entry's node_type")
        return
    pb, sw, entry = probe
    for vi, tb in sw["targets"]:
        v = variants[vi]
        region = {x for x in cfg.reachable_from(tb) if cfg.dominates(tb, x)}
        region_small = set()
        # only the arm itself: blocks dominated by the arm head up to the join
        for x in sorted(region):
            if (pb, tb) in cfg.control_deps().get(x, ()):
                region_small.add(x)
        calls, writes, returns = [], [], False
        for x in sorted(region_small):
            blk = f["blocks"][x]
            t = blk["term"]
            if t["k"] == "call":
                key = t["callee"].get("key") or ""
                if key in ("core::cmp::max", "core::cmp::min"):
                    args = [ex.operand(a) for a in t["args"]]
                    calls.append((key.rsplit("::", 1)[-1], args, t["dest"]["l"]))
                if t["dest"]["l"] == 0:
                    returns = True
            for s in blk["stmts"]:
                d = s["dst"]
                if d is not None and not d["p"] and d["l"] in (alpha_l[0], beta_l[0]):
                    src = s["rv"]["a"][0]["pl"]["l"] if s["rv"]["op"] == "use" and s["rv"]["a"][0].get("k") in ("copy", "move") else None
                    writes.append((d["l"], src))
        val = ("f", entry, "value")
        if v == "Lowerbound":
            ok = len(calls) == 1 and calls[0][0] == "max" and set(calls[0][1]) == {ALPHA, val} and writes == [(alpha_l[0], calls[0][2])] and not returns
        elif v == "Upperbound":
            ok = len(calls) == 1 and calls[0][0] == "min" and set(calls[0][1]) == {BETA, val} and writes == [(beta_l[0], calls[0][2])] and not returns
        else:
            ok = returns and not calls and not writes
        ctx.ob(rid, "probe|%s" % v, ok,
               "" if ok else "probing a %s entry does: %s, writes %s, returns %s" % (v, [(c[0], [show(a) for a in c[1]]) for c in calls], [("alpha" if w[0] == alpha_l[0] else "beta") for w in writes], returns),
               ctx.where(f, sw["line"]), sample={"variant": v, "action": [(c[0], [show(a) for a in c[1]]) for c in calls] or ("return" if returns else None)})


_LOCAL_LABEL = {}


def _atoms(t, depth=0):
    """coarse, rename-stable description of a condition / value tree: callee names (arguments not descended),
    field names, parameter numbers, operators; locals are anonymous"""
    out = set()
    if not isinstance(t, tuple):
        return out
    k = t[0]
    if k == "call":
        out.add("call:" + "::".join(t[1].replace("<", "").replace(">", "").split("::")[-2:]))
        return out
    if k == "param":
        out.add("arg%d" % t[1])
    elif k == "local":
        out.add(_LOCAL_LABEL.get(t[1], "local"))
    elif k == "f":
        out.add("field:" + str(t[2]))
        out |= _atoms(t[1], depth + 1)
    elif k == "bin":
        out.add("cmp" if t[1] in ("Ge", "Gt", "Le", "Lt", "Eq", "Ne") else "op:" + t[1])
        out |= _atoms(t[2], depth + 1) | _atoms(t[3], depth + 1)
    elif k in ("un",):
        if t[1] != "Not":
            out.add("op:" + t[1])
        out |= _atoms(t[2], depth + 1)
    elif k == "cast":
        out |= _atoms(t[2], depth + 1)
    elif k in ("*", "&", "discr"):
        if k == "discr":
            out.add("discr")
        out |= _atoms(t[1], depth + 1)
    elif k == "dc":
        out |= _atoms(t[1], depth + 1)
    elif k == "agg":
        out.add("agg:" + str(t[2]).rsplit("::", 2)[-1])
        for a in t[3]:
            out |= _atoms(a, depth + 1)
    elif k == "c":
        if isinstance(t[1], bool):
            out.add("const:%s" % t[1])
    return out


def search_control_inventory(f, name):
    """every way the recursive search `f` stops searching: exits (assignments of the return value), loop skips
    (paths of the move loop that return to its header without the recursive call) and loop breaks.  Each item:
    (kind, key, line) with key = immediate guards + value, described by _atoms"""
    cfg, ex = Cfg(f), Exprs(f)
    _LOCAL_LABEL.clear()
    for p_ in range(1, f["args"] + 1):
        for l in param_local_copy(f, ex, p_):
            _LOCAL_LABEL[l] = "var(arg%d)" % p_
    rec = [b for b in sorted(cfg.reach) if f["blocks"][b]["term"]["k"] == "call" and f["blocks"][b]["term"]["callee"].get("key") == SEARCH + name]
    if len(rec) != 1:
        return None
    rec = rec[0]
    headers = sorted({h for (a, h) in cfg.back_edges() if cfg.dominates(h, rec)})
    if len(headers) != 1:
        return None
    hdr = headers[0]
    body = set()
    for (a, h) in cfg.back_edges():
        if h != hdr:
            continue
        work = [a]
        body.add(h)
        while work:
            x = work.pop()
            if x in body:
                continue
            body.add(x)
            work.extend(cfg.pred[x])

    # the loop's own test: the first switch after the header (iterator exhausted / loop condition false)
    ns = hdr
    for _ in range(8):
        if f["blocks"][ns]["term"]["k"] == "switch":
            break
        nxt = [x for x in cfg.succ[ns] if not f["blocks"][x]["cleanup"]]
        if len(nxt) != 1:
            ns = None
            break
        ns = nxt[0]
    else:
        ns = None

    def guards(b):
        gs = []
        for (a, sb) in sorted(cfg.control_deps().get(b, ())):
            sw = f["blocks"][a]["term"]
            if sw["k"] != "switch":
                continue
            if a == ns:
                gs.append("[loop-test]" + ("continues" if sb in body else "finished"))
                continue
            d = ex.operand(sw["discr"])
            taken = [v for v, tb in sw["targets"] if tb == sb]
            pol = "=%s" % taken[0] if taken else "else"
            gs.append("[" + ",".join(sorted(_atoms(d))) + "]" + pol)
        return sorted(set(gs))

    items = []
    for b in sorted(cfg.reach):
        blk = f["blocks"][b]
        if blk["cleanup"]:
            continue
        vals = []
        for s in blk["stmts"]:
            if s["dst"] is not None and s["dst"]["l"] == 0 and not s["dst"]["p"]:
                vals.append((ex.rvalue(s["rv"], None), s["line"]))
        t = blk["term"]
        if t["k"] == "call" and t.get("dest") and t["dest"]["l"] == 0 and not t["dest"]["p"]:
            vals.append((("call", t["callee"].get("key") or "?", tuple(ex.operand(a) for a in t["args"]), ""), t["line"]))
        for v, line in vals:
            where = "before-loop" if not cfg.dominates(hdr, b) else "loop-or-after"
            items.append(("exit", "%s|exit|%s|if %s" % (name, where, " & ".join(guards(b)) or "-"), line))
    # skips: an edge inside the loop body (before the recursive call) after which the recursive call can no longer
    # be reached in this iteration but the loop continues
    def reach_in_body(start):
        seen, work = set(), [start]
        while work:
            x = work.pop()
            if x in seen or x not in body:
                continue
            seen.add(x)
            if x == hdr:
                continue
            work.extend(cfg.succ[x])
        return seen
    for b in sorted(body):
        t = f["blocks"][b]["term"]
        if t["k"] != "switch" or cfg.dominates(rec, b):
            continue
        if rec not in reach_in_body(b):
            continue
        d = ex.operand(t["discr"])
        for x in sorted(set(cfg.succ[b])):
            r = reach_in_body(x)
            if x in body and rec not in r and hdr in r:
                taken = [v for v, tb in t["targets"] if tb == x]
                pol = "=%s" % taken[0] if taken else "else"
                items.append(("skip", "%s|skip|if [%s]%s" % (name, ",".join(sorted(_atoms(d))), pol), t.get("line", 0)))
    # breaks: edges leaving the loop body from a block other than the header, to a block that is not an exit path only
    for b in sorted(body):
        if b == hdr:
            continue
        t = f["blocks"][b]["term"]
        for x in cfg.succ[b]:
            if x in body or f["blocks"][x]["cleanup"] or b == ns:
                continue
            if t["k"] == "switch":
                d = ex.operand(t["discr"])
                taken = [v for v, tb in t["targets"] if tb == x]
                pol = "=%s" % taken[0] if taken else "else"
                items.append(("leave", "%s|leave-loop|if [%s]%s" % (name, ",".join(sorted(_atoms(d))), pol), t.get("line", 0)))
            else:
                items.append(("leave", "%s|leave-loop|%s|if %s" % (name, t["k"], " & ".join(guards(b)) or "-"), t.get("line", 0)))
    return items


def _must_pass(cfg, start, rec, hdr, body):
    """does every path from start back to the loop header (inside the body) pass the recursive call?"""
    seen, work = set(), [start]
    while work:
        x = work.pop()
        if x in seen or x == rec or x not in body:
            continue
        if x == hdr:
            return False
        seen.add(x)
        work.extend(cfg.succ[x])
    return True


def r4_control_inventory(ctx):
    rid = "C08.R4"
    ctx.rule(rid, "every way the two recursive searches stop searching - an exit, a move of the loop skipped without the recursive call, a way out of the move loop - is a reviewed one (tables/search_exits.json, keyed by the atoms of its immediate guard and of the value returned); a new cut-off needs a soundness argument before it is trusted", floor=16)
    from .common import table
    reviewed = {k: v for k, v in table("search_exits.json").items() if not k.startswith("_")}
    seen = set()
    for name in ("search_negamax", "search_quiescence"):
        f = ctx.fn(rid, SEARCH + name)
        items = search_control_inventory(f, name)
        if items is None:
            ctx.lost(rid, "%s: one recursive call inside one move loop" % name)
            continue
        for kind, key, line in items:
            if key in seen:
                continue
            seen.add(key)
            ok = key in reviewed
            ctx.ob(rid, key, ok,
                   "" if ok else "%s has a %s that is not in the reviewed inventory: the search stops (or skips a move) under a condition nobody argued sound - a cut-off that discards a line which could still change the value (delta/futility/null-move style pruning, an early fail-low before any move was searched) changes minimax values" % (name, {"exit": "return", "skip": "move-loop skip", "leave": "way out of the move loop"}[kind]),
                   ctx.where(f, line), sample={"key": key, "reason": reviewed.get(key, "")[:160]})
    gone = sorted(set(reviewed) - seen)
    ctx.extra["reviewed_exits_not_present"] = gone


def run(ctx):
    r1_signs(ctx)
    r2_bounds(ctx)
    r3_no_moves_flag(ctx)
    r4_control_inventory(ctx)


def r3_no_moves_flag(ctx):
    """the `legal_moves_remaining` flag handed to the evaluator is backed by evidence on every path"""
    rid = "C08.R3"
    ctx.rule(rid, "the evaluator is told 'legal moves remain' only where a legal move is known to exist (is_any_move_legal / a validated make) and 'none remain' only where none was found; quiescence stand-pat passes true by design", floor=3)
    prog = ctx.prog
    BB = "inkayaku_board::board::Bitboard::"
    f = ctx.fn(rid, SEARCH + "search_negamax")
    cfg, ex = Cfg(f), Exprs(f)
    # Search::evaluate must pass its flag through unchanged
    se = ctx.fn(rid, SEARCH + "evaluate")
    sex = Exprs(se)
    passed = False
    for b in se["blocks"]:
        t = b["term"]
        if t["k"] == "call" and (t["callee"].get("orig") or t["callee"].get("key") or "").endswith("Heuristic::evaluate"):
            passed = sex.operand(t["args"][3]) == ("param", 4)
    ctx.ob(rid, "Search::evaluate|flag-passed-through", passed, "" if passed else "Search::evaluate does not hand its legal_moves_remaining parameter to Heuristic::evaluate unchanged", ctx.where(se))

    def evidence(block, want_true):
        """is `block` control dependent on a test that establishes (non-)existence of a legal move?"""
        for (a, sb) in cfg.control_deps_transitive(block):
            sw = f["blocks"][a]["term"]
            if sw["k"] != "switch":
                continue
            d = ex.operand(sw["discr"])
            true_edge = sb == sw["otherwise"]
            neg = False
            while d[0] == "un" and d[1] == "Not":
                d = d[2]
                neg = not neg
            val = true_edge != neg
            if d[0] == "call" and d[1] == BB + "is_any_move_legal" and val == want_true:
                return "is_any_move_legal == %s" % want_true
            if d[0] == "local":
                # a flag local such as `legal_moves_encountered`: true only after a validated make
                defs = ex.defs.get(d[1], [])
                consts = [(dd[1], dd[3]["a"][0].get("v")) for dd in defs if dd[0] == "stmt" and dd[3]["op"] == "use" and dd[3]["a"][0].get("k") == "const"]
                if len(consts) == len(defs) and {v for _, v in consts} == {True, False}:
                    trues = [blk for blk, v in consts if v is True]
                    backed = all(any((f["blocks"][a2]["term"]["k"] == "switch" and ex.operand(f["blocks"][a2]["term"]["discr"])[0] in ("call", "un")
                                      and any(x[0] == "call" and x[1] == BB + "is_valid" for x in leaves(ex.operand(f["blocks"][a2]["term"]["discr"]))))
                                     for (a2, s2) in cfg.control_deps_transitive(tb)) or _after_valid(cfg, f, ex, tb, BB) for tb in trues)
                    if backed and val == want_true:
                        return "flag local _%d (set only after a validated make) == %s" % (d[1], want_true)
        return None
    sites = [b for b in sorted(cfg.reach) if f["blocks"][b]["term"]["k"] == "call" and f["blocks"][b]["term"]["callee"].get("key") == SEARCH + "evaluate"]
    if not sites:
        ctx.lost(rid, "calls of Search::evaluate in search_negamax")
        return
    for n, b in enumerate(sites):
        t = f["blocks"][b]["term"]
        op = t["args"][3]
        problems, proofs = [], []
        if op.get("k") == "const":
            ev = evidence(b, bool(op.get("v")))
            (proofs if ev else problems).append(ev or "constant %s without evidence" % op.get("v"))
        else:
            l = op["pl"]["l"]
            # follow plain copies
            seen = set()
            while l not in seen:
                seen.add(l)
                ds = ex.defs.get(l, [])
                if len(ds) == 1 and ds[0][0] == "stmt" and ds[0][3]["op"] == "use" and ds[0][3]["a"][0].get("k") in ("copy", "move") and not ds[0][3]["a"][0]["pl"]["p"]:
                    l = ds[0][3]["a"][0]["pl"]["l"]
            for d in ex.defs.get(l, []):
                if d[0] == "call" and d[3]["callee"].get("key") == BB + "is_any_move_legal":
                    proofs.append("= is_any_move_legal(..)")
                elif d[0] == "stmt" and d[3]["op"] == "use" and d[3]["a"][0].get("k") == "const" and isinstance(d[3]["a"][0].get("v"), bool):
                    v = d[3]["a"][0]["v"]
                    ev = evidence(d[1], v)
                    (proofs if ev else problems).append(ev or "set to %s at line %d without testing for a legal move" % (v, f["blocks"][d[1]]["stmts"][d[2]]["line"] if d[2] is not None else 0))
                else:
                    problems.append("computed by %s" % (show(ex.rvalue(d[3])) if d[0] == "stmt" else (d[3]["callee"].get("key") or "?")))
            if not ex.defs.get(l):
                problems.append("parameter or unknown value")
        ctx.ob(rid, "search_negamax|evaluate-call-%d" % n, not problems,
               "" if not problems else "search_negamax tells the evaluator whether legal moves remain with a value that is %s: a move-less position that is not in check (stalemate) or a mate can then be valued by the static evaluation"
               % "; ".join(problems), ctx.where(f, t["line"]), sample={"call": n, "flag_backed_by": proofs})


def _after_valid(cfg, f, ex, blk, BB):
    """block `blk` is reached only after `is_valid()` returned true for the move just made: some dominating
    switch on is_valid has its false edge leaving the region"""
    for a in sorted(cfg.reach):
        sw = f["blocks"][a]["term"]
        if sw["k"] == "switch" and cfg.dominates(a, blk) and a != blk:
            d = ex.operand(sw["discr"])
            if any(x[0] == "call" and x[1] == BB + "is_valid" for x in leaves(d)):
                neg = d[0] == "un" and d[1] == "Not"
                valid_succ = sw["targets"][0][1] if neg else sw["otherwise"]
                if cfg.dominates(valid_succ, blk):
                    return True
    return False


def r5_move_lists(ctx):
    """the moves each recursive search iterates are the generator's output for the current node"""
    rid = "C08.R5"
    ctx.rule(rid, "search_negamax iterates the pseudo-legal generator's list and search_quiescence the capture/promotion generator's list of the node itself: the generator call dominates the move loop, and between it and the loop the list is only sorted (and, at the root, filtered by searchmoves): no retain / truncate / drain / pop / reuse of a caller's list", floor=4)
    GEN = {"search_negamax": "generate_pseudo_legal_moves_with_buffer", "search_quiescence": "generate_pseudo_legal_non_quiescent_moves_with_buffer"}
    SHRINK = ("retain", "retain_mut", "truncate", "drain", "pop", "remove", "swap_remove", "dedup", "dedup_by", "dedup_by_key", "split_off", "resize", "extract_if")
    for name, gen in GEN.items():
        f = ctx.fn(rid, SEARCH + name)
        cfg, ex = Cfg(f), Exprs(f)
        rec = [b for b in sorted(cfg.reach) if f["blocks"][b]["term"]["k"] == "call" and f["blocks"][b]["term"]["callee"].get("key") == SEARCH + name]
        heads = sorted({h for (a, h) in cfg.back_edges() if rec and cfg.dominates(h, rec[0])})
        if len(rec) != 1 or len(heads) != 1:
            ctx.lost(rid, "%s: the move loop" % name)
            continue
        hdr = heads[0]
        gens = [b for b in sorted(cfg.reach) if f["blocks"][b]["term"]["k"] == "call" and (f["blocks"][b]["term"]["callee"].get("key") or "").endswith("Bitboard::" + gen)]
        ok = len(gens) >= 1 and any(cfg.dominates(g_, hdr) for g_ in gens)
        ctx.ob(rid, "%s|generator-dominates-loop" % name, ok,
               "" if ok else "%s can reach its move loop without having called Bitboard::%s for this node: it iterates a list it did not generate (a caller's list, filtered), so moves the generator would produce - quiet promotions in the capture list, for example - are never searched" % (name, gen),
               ctx.where(f), sample={"generator_calls": len(gens)})
        # the buffer parameter is not shrunk before the loop
        shr = []
        for b in sorted(cfg.reach):
            t = f["blocks"][b]["term"]
            if t["k"] != "call" or cfg.dominates(hdr, b):
                continue
            k = t["callee"].get("key") or ""
            if k.rsplit("::", 1)[-1] in SHRINK and ("Vec" in k or "vec" in k):
                shr.append((k.rsplit("::", 1)[-1], t["line"]))
        ctx.ob(rid, "%s|list-not-shrunk-before-loop" % name, not shr, "" if not shr else "%s shrinks a move list before its loop with %s" % (name, shr), ctx.where(f, shr[0][1] if shr else None))


_run_before_r5 = run


def run(ctx):
    _run_before_r5(ctx)
    r5_move_lists(ctx)
