"""C18 — transposition store is a bounded map: exact lookups, size within capacity."""
from ..cfg import Cfg
from ..expr import Exprs, show, leaves
from ..paths import returning_paths, NotLoopFree

SCOPE = "engine"
LEVEL = "other"
EXPLANATION = (
    "Static analysis of the resolved MIR. R1: the three fields of HashTable (capacity, insertion-order list, map) are "
    "read or written only inside HashTable's own methods. R2: in put, the key is inserted into the map with the given "
    "value, pushed on the list exactly when the map did not contain it (push control dependent on insert(..).is_none()), "
    "the capacity comparison len > capacity is reached on every path after the insert, and under it the key removed "
    "from the map is the value popped from the front of the list. R3: clear empties both containers; len / load_factor "
    "read the map length and capacity; get looks the same key up in the map. R4: the TranspositionTable wrapper "
    "delegates each method 1:1 with unchanged arguments. R5: new stores the capacity argument itself as the bound. Decided: the structural invariants that keep list and map in "
    "step; not decided: map semantics over operation histories.")

HT = "inkayaku_engine_core::engine::table::HashTable"
HTM = HT + "::"
WR = "inkayaku_engine_core::engine::table::transposition::<HashMapTranspositionTable as TranspositionTable>::"

SELF = ("*", ("param", 1))


class _Fld:
    """a field of self in one of the three roles. The map and the queue are identified by the type of the call they
    receive (HashMap::insert can only be called on the map), so any field path rooted at self matches - the fields
    may be renamed or grouped into a private struct; the capacity is the field of that name at any depth."""
    def __init__(self, name):
        self.name = name

    def __eq__(self, t):
        if not (isinstance(t, tuple) and t and t[0] == "f"):
            return False
        b = t
        while isinstance(b, tuple) and b and b[0] in ("f", "*", "&"):
            b = b[1]
        if b != ("param", 1):
            return False
        return t[2] == "capacity" if self.name == "capacity" else t[2] != "capacity"

    def __ne__(self, t):
        return not self.__eq__(t)

    def __hash__(self):
        return hash(self.name)


def fld(name):
    return _Fld(name)


def r1_confinement(ctx):
    rid = "C18.R1"
    ctx.rule(rid, "capacity / entry_list / entry_map of HashTable are touched only by HashTable's own methods", floor=3)
    prog = ctx.prog
    users = {"capacity": set(), "entry_list": set(), "entry_map": set()}
    # (the functions as written: a method of HashTable that is new to the reviewed tree is spliced into its callers
    # for the other rules, but who touches the fields is a question about the source)
    raw = getattr(prog, "raw_fns", {})
    every = {k: raw.get(k, f) for k, f in prog.fns.items()}
    every.update(getattr(prog, "helper_bodies", {}))
    for k, f in every.items():
        if f.get("test") or f["kind"] == "promoted":
            continue
        for b in f["blocks"]:
            def scan(pl):
                for e in pl["p"]:
                    if isinstance(e, dict) and "f" in e and e.get("of") == HT and e["name"] in users:
                        users[e["name"]].add(k)
            for s in b["stmts"]:
                if s["dst"] is not None:
                    scan(s["dst"])
                rv = s["rv"]
                for a in rv.get("a", []):
                    if a.get("k") in ("copy", "move"):
                        scan(a["pl"])
                if "place" in rv:
                    scan(rv["place"])
                if rv["op"] == "agg" and rv["kind"] == "adt" and rv["adt"] == HT:
                    for n in users:
                        users[n].add(k)
            t = b["term"]
            if t["k"] == "call":
                for a in t["args"]:
                    if a.get("k") in ("copy", "move"):
                        scan(a["pl"])
    for n, us in sorted(users.items()):
        outside = sorted(u for u in us if not (u.startswith(HTM) or u.startswith(HT + "::")))
        ok = bool(us) and not outside
        ctx.ob(rid, "field|%s" % n, ok, "" if ok else "HashTable.%s is accessed outside HashTable's methods: %s" % (n, outside) if us else "field %s not found (renamed?)" % n, "",
               sample={"field": n, "accessed_by": sorted(u.rsplit("::", 1)[-1] for u in us)})


def calls_of(f, cfg):
    out = []
    ex = Exprs(f)
    for b in sorted(cfg.reach):
        t = f["blocks"][b]["term"]
        if t["k"] == "call" and t["callee"].get("key"):
            out.append((b, t["callee"]["key"], [ex.operand(a) for a in t["args"]], t))
    return out, ex


def _put_table(ctx, rid, f):
    """put as a decision table (inkalint/semtable.py) over: was the key present, is the map over capacity afterwards.
    The key joins the queue iff it was new; the oldest entry is evicted iff the map is over capacity - whatever way
    round the tests are written, with or without an overwrite-in-place fast path."""
    from ..semtable import explore, judge, TooBig
    LOOKUPS = ("HashMap::insert", "HashMap::get_mut", "HashMap::get", "HashMap::entry")

    def about_key(t):
        return any(x[0] == "call" and x[1].endswith(LOOKUPS) for x in [t] + list(leaves(t)))

    def var_of(t):
        if t[0] == "call" and t[1].endswith("Option::is_none") and about_key(t):
            return "absent"
        if t[0] == "call" and t[1].endswith("Option::is_some") and about_key(t):
            return "present"
        if t[0] == "discr" and any(x[0] == "call" and x[1].endswith("HashMap::entry") for x in [t[1]] + list(leaves(t[1]))):
            return ("present", True)        # Entry: Occupied = 0, Vacant = 1
        if t[0] == "discr" and about_key(t[1]):
            return "present"        # Option: None = 0, Some = 1
        if t[0] == "call" and t[1].endswith("HashMap::contains_key"):
            return "present"
        if t[0] == "call" and (t[1].endswith("HashMap::len") or t[1].endswith("VecDeque::len") or t[1] == HTM + "len"):
            return "len"
        if t[0] == "f" and t[2] == "capacity":
            return "capacity"
        return None
    domains = {"present": [0, 1], "absent": [0, 1], "len": [10, 11], "capacity": [10]}
    try:
        lvs = explore(f, var_of, domains, max_leaves=2000)
    except TooBig as e:
        ctx.lost(rid, "put as a decision table (%s)" % e)
        return

    def outcome(lf):
        pushed = len(lf.called("VecDeque::push_back"))
        popped = len([t for b, t in lf.calls if t[0] == "call" and "VecDeque::pop_" in t[1]])
        removed = len(lf.called("HashMap::remove"))
        return (pushed, "evicted" if popped == 1 and removed == 1 else "kept" if popped == 0 and removed == 0 else "half:%d/%d" % (popped, removed))

    STORES = ("HashMap::insert", "VacantEntry::insert", "OccupiedEntry::insert", "VacantEntry::insert_entry", "Entry::insert_entry", "Entry::or_insert", "Entry::or_insert_with", "HashMap::try_insert")

    def stored(lf):
        # the value parameter reaches the map: through one of the inserting calls, or written through a reference
        # (get_mut / and_modify / OccupiedEntry::get_mut)
        for b, t in lf.calls:
            if t[0] == "call" and t[1].endswith(STORES) and any(x == ("param", 3) for a in t[2] for x in leaves(a)):
                return True
            if t[0] == "call" and t[1].endswith(("Entry::and_modify", "Entry::or_insert_with", "Option::map", "Option::replace", "mem::replace")) and any(x == ("param", 3) or (x[0] == "agg" and x[1] == "closure") for a in t[2] for x in leaves(a)):
                return True
        for w in lf.pe.writes:
            if any(x == ("param", 3) for x in leaves(w[-1] if isinstance(w[-1], tuple) else ())):
                return True
        return False
    unstored = {}
    for lf in lvs:
        if not stored(lf) and not lf.opaque:
            for e in __import__("inkalint.semtable", fromlist=["completions"]).completions(lf.env, ["present", "absent", "len", "capacity"], domains, None):
                if e["absent"] == 1 - e["present"] and not (e["present"] and e["len"] > e["capacity"]):
                    unstored[e["present"]] = lf
    ctx.ob(rid, "value-stored-on-every-path", not unstored,
           "" if not unstored else "when the key was %s, put returns without storing the value: a lookup keeps answering the %s" % (
               "present" if 1 in unstored else "new", "value stored first, not the one stored last" if 1 in unstored else "old state"),
           ctx.where(f), sample={"leaves": len(lvs)})

    def constraint(e):
        if e["absent"] != 1 - e["present"]:
            return False
        if e["present"] and e["len"] > e["capacity"]:
            return False        # overwriting a present key does not grow the map, and it never exceeds its capacity
        return True
    viol, und, n = judge(lvs, ["present", "absent", "len", "capacity"], domains, outcome,
                         lambda e: (0 if e["present"] else 1, "evicted" if e["len"] > e["capacity"] else "kept"), constraint)
    def say(e):
        return "the key was %s and the map is %s capacity afterwards" % ("present" if e["present"] else "new", "over" if e["len"] > e["capacity"] else "within")
    bad_push = [v for v in viol if v[1][0] != v[2][0]]
    bad_evict = [v for v in viol if v[1][1] != v[2][1]]
    ctx.ob(rid, "push-iff-key-was-new", not bad_push,
           "" if not bad_push else "when %s, put queues the key %d time(s) (expected %d): re-inserting a present key would queue it twice, or a new key would not be queued" % (say(bad_push[0][0]), bad_push[0][1][0], bad_push[0][2][0]),
           ctx.where(f), sample={"cases": n, "leaves": len(lvs)})
    ctx.ob(rid, "capacity-check-after-every-insert", not [v for v in bad_evict if v[2][1] == "evicted"],
           "" if not [v for v in bad_evict if v[2][1] == "evicted"] else "when %s, put does not evict the oldest entry (%s): the map grows past its capacity" % (say([v for v in bad_evict if v[2][1] == "evicted"][0][0]), [v for v in bad_evict if v[2][1] == "evicted"][0][1][1]),
           ctx.where(f))
    ctx.ob(rid, "evict-under-capacity-test", not [v for v in bad_evict if v[2][1] == "kept"],
           "" if not [v for v in bad_evict if v[2][1] == "kept"] else "when %s, put evicts (%s) although the map is within its capacity" % (say([v for v in bad_evict if v[2][1] == "kept"][0][0]), [v for v in bad_evict if v[2][1] == "kept"][0][1][1]),
           ctx.where(f))
    for u in und[:1]:
        ctx.lost(rid, "put under a condition the decision table cannot evaluate (%s)" % "; ".join(show(d) for d, cc in u[3].opaque)[:160])


def _bound_reads_a_current_length(ctx, rid, f, cfg, ex):
    """`len > capacity` must be asked of a length that already counts the new key: the map after the insert, or the
    queue after the push. Asked before (with the strict comparison) a full table does not evict and holds capacity + 1"""
    def dominated_by(b, suffixes):
        for x in sorted(cfg.reach):
            t = f["blocks"][x]["term"]
            if t["k"] == "call" and (t["callee"].get("key") or "").endswith(suffixes) and x != b and cfg.dominates(x, b):
                return True
        return False
    for b in sorted(cfg.reach):
        t = f["blocks"][b]["term"]
        if t["k"] != "switch" or f["blocks"][b]["cleanup"]:
            continue
        d = ex.operand(t["discr"])
        if not (d[0] == "bin" and d[1] in ("Gt", "Lt", "Ge", "Le")):
            continue
        l, r = d[2], d[3]
        if d[1] in ("Lt", "Le"):
            l, r = r, l         # normalise to  length  >/>=  capacity
        strict = d[1] in ("Gt", "Lt")
        if not (r == fld("capacity")):
            continue
        if l[0] == "call" and l[1].endswith("VecDeque::len"):
            current = dominated_by(b, ("VecDeque::push_back", "VecDeque::push_front"))
            what = "the queue's length before the key is queued"
        elif l[0] == "call" and (l[1].endswith("HashMap::len") or l[1] == HTM + "len"):
            current = dominated_by(b, ("HashMap::insert", "VacantEntry::insert", "HashMap::entry"))
            what = "the map's length before the insert"
        else:
            continue
        if not current and strict:
            ctx.ob(rid, "bound-reads-a-length-that-counts-the-new-key", False,
                   "put tests `%s` on %s: a table that is exactly full does not evict and ends up with capacity + 1 entries (test after the insert / push, or with >=)" % (show(d)[:90], what),
                   ctx.where(f, t["line"]))
        elif current and strict:
            ctx.ob(rid, "bound-reads-a-length-that-counts-the-new-key", True, "", ctx.where(f, t["line"]))


def r2_put(ctx):
    rid = "C18.R2"
    ctx.rule(rid, "put: insert(key, value); push_back(key) iff the key was new; `len > capacity` checked on every path after the insert; evicted key = popped list head, removed from the map", floor=6)
    f = ctx.fn(rid, HTM + "put")
    cfg = Cfg(f)
    calls, ex = calls_of(f, cfg)
    def find(suffix):
        return [(b, a, t) for b, k, a, t in calls if k.endswith(suffix)]
    ins, push, pop, rem, ln = find("HashMap::insert"), find("VecDeque::push_back"), [x for x in calls_of(f, cfg)[0] if "VecDeque::pop_" in x[1]] and [(b, a, t) for b, k, a, t in calls if "VecDeque::pop_" in k], find("HashMap::remove"), find("HashMap::len")
    peeks = [(b, a, t) for b, k, a, t in calls if k.endswith("VecDeque::front") or k.endswith("VecDeque::back") or k.endswith("VecDeque::get")]
    if len(pop) == 0 and peeks and len(rem) == 1:
        ctx.ob(rid, "evicted-key-leaves-the-queue", False,
               "put removes the oldest key from the map but only looks at the queue's head (front/back/get) instead of popping it: the dead key stays at the head, the next eviction removes nothing (the map grows past its capacity) and a re-inserted key is evicted at once",
               ctx.where(f, peeks[0][2]["line"]))
        return
    _bound_reads_a_current_length(ctx, rid, f, cfg, ex)
    _put_table(ctx, rid, f)
    if not (len(ins) == 1 and len(push) == 1 and len(pop) == 1 and len(rem) == 1 and len(ln) >= 1):
        ctx.lost(rid, "put: one insert / push_back / pop_front / remove and a len (found %d/%d/%d/%d/%d)" % (len(ins), len(push), len(pop), len(rem), len(ln)))
        return
    (ib, ia, it), (pb, pa, pt), (ob, oa, ot), (rb, ra, rt) = ins[0], push[0], pop[0], rem[0]
    KEY, VAL = ("param", 2), ("param", 3)
    def target(a):
        t = a
        while t[0] == "&":
            t = t[1]
        return t
    ok = target(ia[0]) == fld("entry_map") and ia[1] == KEY and ia[2] == VAL
    ctx.ob(rid, "insert(key,value)-into-map", ok, "" if ok else "put inserts (%s, %s) into %s" % (show(ia[1]), show(ia[2]), show(ia[0])), ctx.where(f, it["line"]))
    ok = target(pa[0]) == fld("entry_list") and pa[1] == KEY
    ctx.ob(rid, "push_back(key)-on-list", ok, "" if ok else "put pushes %s on %s" % (show(pa[1]), show(pa[0])), ctx.where(f, pt["line"]))
    popped = None
    for x in leaves(ra[1]):
        if x[0] == "call" and x[1].endswith("VecDeque::pop_front") and target(x[2][0]) == fld("entry_list"):
            popped = x
        elif x[0] == "call" and "VecDeque::pop_" in x[1]:
            popped = None
    ok = target(ra[0]) == fld("entry_map") and popped is not None
    if not ok and target(ra[0]) == fld("entry_map") and not any(x[0] == "call" and "VecDeque::pop_" in x[1] for x in leaves(ra[1])) \
            and not any(x[0] == "param" for x in leaves(ra[1])) and any(x[0] in ("var", "local", "phi") for x in leaves(ra[1])):
        # the key comes out of a local assigned on several paths (a helper returning Option that was spliced in):
        # where it comes from is not readable flow-insensitively
        ctx.lost(rid, "the key removed from the map (%s)" % show(ra[1])[:80])
        return
    ctx.ob(rid, "evicted-key-is-list-head", ok, "" if ok else "the key removed from the map is %s, not the value popped from the front of entry_list" % show(ra[1]), ctx.where(f, rt["line"]),
           sample={"removed": show(ra[1])})


def r3_others(ctx):
    rid = "C18.R3"
    ctx.rule(rid, "clear empties list and map; get looks the key up in the map; len is the map's length; load_factor = len / capacity", floor=4)
    def all_paths(key):
        f = ctx.fn(rid, key)
        try:
            return f, returning_paths(f)
        except NotLoopFree:
            return f, []

    def every(f, ps, what, pred, shown):
        # every returning path must do it (assertions of invariants add paths that differ only in what they test)
        if not ps:
            ctx.lost(rid, "%s: no loop-free returning path" % what)
            return
        bad = [pe for pe in ps if not pred(pe)]
        ctx.ob(rid, what, not bad, "" if not bad else shown(bad[0]), ctx.where(f))

    def cleared_of(pe):
        cleared = set()
        for b, t in pe.calls:
            if t[0] == "call" and t[1].endswith("::clear"):
                x = t[2][0]
                while x[0] == "&":
                    x = x[1]
                if x[0] == "f":
                    # which container: by the type of the clear that is called on it
                    cleared.add("entry_list" if "VecDeque" in t[1] else "entry_map" if "HashMap" in t[1] else x[2])
        return cleared
    f, ps = all_paths(HTM + "clear")
    every(f, ps, "clear-both", lambda pe: cleared_of(pe) >= {"entry_list", "entry_map"},
          lambda pe: "clear() empties %s (expected entry_list and entry_map)" % sorted(cleared_of(pe)))

    def strip(t):
        while t and t[0] == "&":
            t = t[1]
        return t

    def get_ok(pe):
        t = pe.ret()
        return bool(t) and t[0] == "call" and t[1].endswith("HashMap::get") and strip(t[2][0]) == fld("entry_map") and any(x == ("param", 2) for x in leaves(t[2][1]))
    f, ps = all_paths(HTM + "get")
    every(f, ps, "get-looks-up-key-in-map", get_ok, lambda pe: "get returns %s" % show(pe.ret()))

    def len_ok(pe):
        t = pe.ret()
        return bool(t) and t[0] == "call" and t[1].endswith("HashMap::len") and any(x == fld("entry_map") for x in leaves(t))
    f, ps = all_paths(HTM + "len")
    every(f, ps, "len-is-map-len", len_ok, lambda pe: "len returns %s" % show(pe.ret()))

    def lf_ok(pe):
        t = pe.ret()
        return bool(t) and t[0] == "bin" and t[1] == "Div" and any(x[0] == "call" and x[1] == HTM + "len" for x in leaves(t[2])) and any(x == fld("capacity") for x in leaves(t[3]))
    f, ps = all_paths(HTM + "load_factor")
    every(f, ps, "load_factor-is-len-over-capacity", lf_ok, lambda pe: "load_factor returns %s" % show(pe.ret()))


def r4_wrapper(ctx):
    rid = "C18.R4"
    ctx.rule(rid, "HashMapTranspositionTable delegates every TranspositionTable method to the like-named HashTable method with its arguments unchanged", floor=5)
    raw = getattr(ctx.prog, "raw_fns", {})
    for m in ("clear", "put", "get", "len", "load_factor"):
        f = ctx.fn(rid, WR + m)
        f = raw.get(WR + m, f)
        try:
            ps = returning_paths(f)
        except NotLoopFree:
            ps = []
        calls = [t for b, t in ps[0].calls] if len(ps) == 1 else []
        hcalls = [t for t in calls if t[0] == "call" and t[1].startswith(HTM)]
        if len(ps) == 1 and len(hcalls) == 1 and hcalls[0][1] != HTM + m and hcalls[0][1] in getattr(ctx.prog, "helper_bodies", {}):
            # delegates to a HashTable method that is new to the reviewed tree (a rename with a changed signature):
            # what that method does is judged where it was spliced in, not by its name
            ctx.lost(rid, "wrapper method %s delegates to the new method %s" % (m, hcalls[0][1].rsplit("::", 1)[-1]))
            continue
        ok = len(ps) == 1 and len(hcalls) == 1 and hcalls[0][1] == HTM + m
        if ok:
            a = hcalls[0][2]
            recv = a[0]
            while recv[0] == "&":
                recv = recv[1]
            ok = recv == ("f", SELF, "hash_table") and list(a[1:]) == [("param", i) for i in range(2, f["args"] + 1)]
            if ok and m in ("get", "len", "load_factor"):
                ok = ps[0].ret() == hcalls[0]
        ctx.ob(rid, "delegate|%s" % m, ok, "" if ok else "wrapper method %s does not simply call HashTable::%s(self.hash_table, same args): calls %s" % (m, m, [show(t) for t in calls]), ctx.where(f),
               sample={"method": m, "call": show(hcalls[0]) if hcalls else None})


def r5_new(ctx):
    rid = "C18.R5"
    ctx.rule(rid, "HashTable::new stores the configured capacity unchanged: the bound put compares with is the argument, not a function of it", floor=1)
    f = ctx.fn(rid, HTM + "new")
    try:
        ps = returning_paths(f)
    except NotLoopFree:
        ps = []
    if not ps:
        ctx.lost(rid, "new: no loop-free returning path")
        return
    bad = None
    for pe in ps:
        t = pe.ret()
        if not (t and t[0] == "agg" and t[1] == "adt" and t[2].startswith(HT)):
            ctx.lost(rid, "new does not return a HashTable aggregate: %s" % show(t))
            return
        # fields may be grouped into a private struct (spliced-in constructor): flatten nested aggregates
        def flat(o):
            if o and o[0] == "agg":
                for x in o[3]:
                    yield from flat(x)
            else:
                yield o
        ops = list(flat(t))
        # operands that depend on the capacity argument: the argument itself (the stored bound), or a container
        # constructor that pre-allocates with it (VecDeque::with_capacity(capacity) changes no behaviour)
        dep = [o for o in ops if any(x == ("param", 1) for x in leaves(o))]
        ident = [o for o in dep if o == ("param", 1)]
        other = [o for o in dep if o != ("param", 1) and not (o[0] == "call" and ("VecDeque" in o[1] or "HashMap" in o[1]))]
        if len(ident) != 1 or other:
            bad = "new builds %s: the capacity field must be the argument itself" % show(t)
    ctx.ob(rid, "capacity-stored-unchanged", bad is None, bad or "", ctx.where(f), sample={"paths": len(ps)})


def run(ctx):
    r1_confinement(ctx)
    r2_put(ctx)
    r3_others(ctx)
    r4_wrapper(ctx)
    r5_new(ctx)
    ctx.assumptions += ["std's HashMap and VecDeque behave as documented", "keys are Copy (the same key value goes to the map and the list)"]
