"""Helpers shared by several properties."""
import json, os
from ..cfg import Cfg
from ..expr import Exprs, show
from .. import balance as B
from ..core import VERIF

BB = "inkayaku_board::board::Bitboard::"
SEARCH = "inkayaku_engine_core::engine::search::Search::"
UCITX = "inkayaku_uci::uci::UciTx::"


def table(name):
    return json.load(open(os.path.join(VERIF, "tables", name)))


def workspace_fns(prog, crates=None, include_promoted=False):
    for k, f in prog.fns.items():
        if f["kind"] == "promoted" and not include_promoted:
            continue
        if f.get("test"):
            continue
        if crates and f["crate"] not in crates:
            continue
        yield k, f


def run_balance(ctx, rid, fns, committers, want_kinds=None):
    """A5 over the given functions. committers: key -> {"deltas": [...], "contract": {...}|None}
    Returns number of effect sites seen."""
    prog = ctx.prog
    effects = {B.MAKE: [1], B.UNMAKE: [-1]}
    for k, c in committers.items():
        effects[k] = c["deltas"]
    nsites = 0
    # the balance follows calls itself: it works on the functions as written (before new helpers were spliced into
    # their callers), and on the new helpers as functions of their own
    from ..inline import known_functions
    known = known_functions() or set()
    raw = getattr(prog, "raw_fns", {})
    crates = {k.split("::", 1)[0] for k, _ in fns}
    fns = [(k, raw.get(k, f)) for k, f in fns]
    have = {k for k, _ in fns}
    fns += [(k, g) for k, g in getattr(prog, "helper_bodies", {}).items() if k.split("::", 1)[0] in crates and k not in have]
    # a function that is new to the reviewed tree and leaves moves made (a helper that plays the move for its
    # caller, a closure handed to Option::map) has no reviewed contract: it is not judged, and neither are the
    # functions that call it or build it - the outcome it leaves depends on which way it returned
    auto = {}
    for key, f in fns:
        if key in known or key in (B.MAKE, B.UNMAKE) or key in committers:
            continue
        fb = B.FnBalance(f, effects)
        for root, sites in fb.sites.items():
            if B.rootedness(f, root) == "owned":
                continue
            results, overflow = fb.explore(root)
            if overflow or any(cnt != 0 for cnt, rk, rb, path in results):
                auto[key] = sorted({cnt for cnt, rk, rb, path in results}) or [0, 1]
    for key in sorted(auto):
        ctx.lost(rid, "%s is new and leaves moves made on its caller's board (%s): no reviewed contract" % (key.split("::", 1)[-1], auto[key]))
    effects2 = dict(effects)
    effects2.update(auto)
    for key, f in fns:
        if key in (B.MAKE, B.UNMAKE) or key in auto:
            continue
        if auto:
            uses = any(bb_["term"]["k"] == "call" and bb_["term"]["callee"].get("key") in auto for bb_ in f["blocks"]) or \
                any(st_["rv"]["op"] == "agg" and st_["rv"].get("kind") == "closure" and st_["rv"].get("closure") in auto for bb_ in f["blocks"] for st_ in bb_["stmts"])
            if uses:
                ctx.lost(rid, "%s relies on a new function that leaves moves made (no reviewed contract to compose)" % key.split("::", 1)[-1])
                continue
        fb = B.FnBalance(f, effects)
        if not fb.sites:
            continue
        for root, sites in fb.sites.items():
            nsites += len(sites)
            rooted = B.rootedness(f, root)
            rs = show(root)
            inst = "%s|%s" % (key, rs)
            if rooted == "owned":
                ctx.ob(rid, inst + "|owned", True, "board owned by a local: no obligation",
                       ctx.where(f), sample={"function": key, "receiver": rs, "rooted": rooted, "sites": len(sites)})
                continue
            results, overflow = fb.explore(root)
            contract = committers.get(key, {}).get("contract")
            bad = []
            for cnt, rk, rb, path in results:
                exp = 0
                if contract is not None:
                    exp = contract.get(rk, contract.get("*", 0))
                if cnt != exp:
                    bad.append((cnt, rk, rb, path, exp))
            if contract is not None and contract.get("loop"):
                overflow = []
            # distinct (retkind, count) signatures; one obligation per exit kind
            seen = set()
            for cnt, rk, rb, path, exp in bad:
                sig = (rk, cnt)
                if sig in seen:
                    continue
                seen.add(sig)
                line = f["blocks"][rb]["term"]["line"]
                first = None
                ctx.ob(rid, "%s|exit:%s|outstanding:%+d" % (inst, rk, cnt), False,
                       "%s leaves %+d outstanding make on the caller's board %s at a `%s` return (expected %+d); witness: %s"
                       % (f["display"], cnt, rs, rk, exp, B.describe_path(f, path, sites)),
                       ctx.where(f, _witness_line(f, path, sites)))
            for b, c2, path in overflow[:1]:
                ctx.ob(rid, "%s|unbounded" % inst, False,
                       "%s: outstanding makes on %s grow without bound along a loop (not a declared committer); witness: %s"
                       % (f["display"], rs, B.describe_path(f, path, sites)), ctx.where(f))
            if not bad and not overflow:
                kinds = sorted({rk or "None" for _, rk, _, _ in results})
                ctx.ob(rid, inst, True, "", ctx.where(f),
                       sample={"function": key, "receiver": rs, "rooted": rooted, "effect_sites": len(sites),
                               "returns_explored": len(results), "return_kinds": kinds})
            # the moves made and taken back must be the same expression
            mk = {s[2] for s in sites.values() if s[0] == B.MAKE}
            um = {s[2] for s in sites.values() if s[0] == B.UNMAKE}
            if mk and um:
                for a in um:
                    ok = a in mk
                    ctx.ob(rid + "m", "%s|unmake(%s)" % (inst, ", ".join(show(x) for x in a)), ok,
                           "" if ok else "%s takes back %s but makes %s" % (f["display"], [show(x) for x in a], [[show(x) for x in m] for m in mk]),
                           ctx.where(f))
    return nsites


def _witness_line(f, path, sites):
    """line where the return value of the witness path is constructed (last assignment to _0)"""
    line = None
    for b in path:
        blk = f["blocks"][b]
        for st in blk["stmts"]:
            d = st["dst"]
            if d is not None and d["l"] == 0 and not d["p"]:
                line = st["line"]
        t = blk["term"]
        if t["k"] == "call" and t["dest"]["l"] == 0 and not t["dest"]["p"]:
            line = t["line"]
    return line or f["blocks"][path[-1]]["term"]["line"]


def count_calls_on_paths(f, pred):
    """(min, max) number of call terminators satisfying pred over all entry->return paths; max is
    None when such a call sits in a loop (unbounded)."""
    cfg = Cfg(f)
    marked = {b for b in cfg.reach if f["blocks"][b]["term"]["k"] == "call" and pred(f["blocks"][b]["term"])}
    for b in marked:
        if cfg.in_loop(b):
            return (0, None, marked)
    # DAG-ify by ignoring back edges (marked blocks are outside loops, so counts are unaffected)
    back = set(cfg.back_edges())
    order = []
    seen = set()

    def dfs(b):
        seen.add(b)
        for s in cfg.succ[b]:
            if (b, s) in back or s in seen:
                continue
            dfs(s)
        order.append(b)
    import sys
    sys.setrecursionlimit(10000)
    dfs(0)
    mn, mx = {}, {}
    for b in order:  # post-order: successors first
        w = 1 if b in marked else 0
        ss = [s for s in cfg.succ[b] if (b, s) not in back]
        t = f["blocks"][b]["term"]["k"]
        if t == "return":
            mn[b], mx[b] = w, w
        elif not ss:
            mn[b], mx[b] = None, None  # diverges: not a returning path
        else:
            vals = [(mn[s], mx[s]) for s in ss if s in mn and mn[s] is not None]
            if not vals:
                mn[b], mx[b] = None, None
            else:
                mn[b] = w + min(v[0] for v in vals)
                mx[b] = w + max(v[1] for v in vals)
    return (mn.get(0), mx.get(0), marked)


GUARDS = {}


def guard(name):
    def deco(fn):
        GUARDS[name] = fn
        return fn
    return deco


def guard_holds(ctx, name):
    """named, machine-checked precondition of a reviewed panic site"""
    cache = ctx.__dict__.setdefault("_guards", {})
    from . import guards as _g  # registers the named guards
    if name not in cache:
        fn = GUARDS.get(name)
        try:
            cache[name] = bool(fn(ctx)) if fn else False
        except Exception:
            cache[name] = False
    return cache[name]


def run_panic_inventory(ctx, rid, entries, text, ctx_sensitive=False, kinds=None, fn_floor=0, site_floor=0, declared_invariants_undecided=False):
    """A7. Every reachable panic site must be discharged automatically (folded condition / bound)
    or carry a reviewed guard argument in tables/panic_sites.json (exact key)."""
    from ..callgraph import CallGraph
    from ..panics import inventory
    prog = ctx.prog
    if not hasattr(ctx, "_cg"):
        ctx._cg = CallGraph(prog)
    cg = ctx._cg
    ctx.rule(rid, text, floor=site_floor)
    missing = [e for e in entries if e not in prog.fns]
    for m in missing:
        ctx.lost(rid, m)
    entries = [e for e in entries if e in prog.fns]
    if not entries:
        return
    reviewed = table("panic_sites.json")
    seen, parent, sites, ext, indirect = inventory(prog, cg, entries, ctx=ctx_sensitive)
    n_auto = n_rev = n_skipped = n_moved = 0
    # reviewed sites that are no longer where they were (their function lost them, or is gone): code that was moved
    # into a helper keeps its review - one moved site per vanished entry of the same kind, in the same crate
    present = {s.key for s in sites}
    vanished = {}

    def site_class(detail):
        # indexing a String is indexing its str, indexing a Vec is indexing its slice: `fen: String` becoming `s: &str`
        # moves the site, it does not create one
        last = detail.rsplit("::", 1)[-1]
        if last in ("index", "index_mut") and "Index" in detail:
            if "String" in detail or "str" in detail.replace("std::", ""):
                return "str::" + last
            if "Vec<" in detail or "[T]" in detail:
                return "seq::" + last
        # the same operation on a Vec, a VecDeque or a slice (the backing store of a table changed its type)
        for pre in ("alloc::vec::Vec::", "alloc::collections::vec_deque::VecDeque::", "core::slice::<impl [T]>::"):
            if detail.startswith(pre):
                return "seq::" + last
        return detail

    for k, r in reviewed.items():
        if k.startswith("_") or k in present:
            continue
        fn_, kind_, detail_ = k.split("|")[0], k.split("|")[1], k.split("|")[2]
        if fn_ in seen or fn_ not in prog.fns:
            vanished.setdefault((fn_.split("::", 1)[0], kind_, site_class(detail_)), []).append(k)
    for s in sites:
        if kinds and s.cls not in kinds:
            n_skipped += 1
            continue
        f = prog.fns[s.fn]
        if s.auto:
            n_auto += 1
            ctx.ob(rid, s.key, True, "", ctx.where(f, s.line), sample={"site": s.key, "discharged": "auto: " + s.auto})
            continue
        if s.key in reviewed:
            r = reviewed[s.key]
            g = r.get("requires")
            if g is None or guard_holds(ctx, g):
                n_rev += 1
                ctx.ob(rid, s.key, True, "", ctx.where(f, s.line), sample={"site": s.key, "discharged": "reviewed: " + r["why"] + (" [guard %s verified]" % g if g else "")})
                continue
            # a reviewed site whose machine-checked precondition no longer holds: the argument that made it safe is gone
            ctx.ob(rid, s.key, False, "reachable panic site whose reviewed guard `%s` no longer holds (%s): %s %s in %s" % (g, r["why"], s.kind, s.detail.rsplit("::", 2)[-1] if s.kind == "call" else s.detail, f["display"]), ctx.where(f, s.line))
            continue
        pool = vanished.get((s.fn.split("::", 1)[0], s.kind, site_class(s.detail)), [])
        if pool and s.key not in reviewed:
            k_old = pool.pop(0)
            r = reviewed[k_old]
            g = r.get("requires")
            if g is None or guard_holds(ctx, g):
                n_moved += 1
                ctx.ob(rid, s.key, True, "", ctx.where(f, s.line), sample={"site": s.key, "discharged": "reviewed as %s (the site moved): %s" % (k_old, r["why"])})
                continue
        chain = cg.chain(parent, s.fn)
        is_index_call = s.kind == "call" and ((s.detail.rsplit("::", 1)[-1] in ("index", "index_mut") and ("Index<" in s.detail or "IndexMut<" in s.detail))
                                            or (s.detail.rsplit("::", 1)[-1] in ("split_at", "split_at_mut", "copy_from_slice", "swap") and s.detail.startswith("core::slice::")))
        is_unwrap = s.kind == "call" and s.detail.rsplit("::", 1)[-1] in ("unwrap", "expect", "unwrap_unchecked") and s.detail.startswith(("core::option::Option", "core::result::Result"))
        is_refcell = s.kind == "call" and s.detail.startswith("core::cell::RefCell") and s.detail.rsplit("::", 1)[-1] in ("borrow", "borrow_mut")
        if (declared_invariants_undecided and is_refcell) or \
                (declared_invariants_undecided is True and (is_index_call or is_unwrap)) or \
                (declared_invariants_undecided is True and s.kind == "assert" and s.detail == "bounds") or (declared_invariants_undecided and s.kind == "call" and s.detail.startswith("core::panicking::")) \
                or (declared_invariants_undecided is True and s.kind == "assert" and s.detail.startswith("overflow:")):
            # an index whose range this analysis cannot bound, or an assertion / unreachable!() the author declared:
            # whether it can fire depends on values; no verdict (reported, not an alarm). Calls of panicking library
            # functions (unwrap, expect, Duration arithmetic, slicing, division) stay violations.
            ctx.lost(rid, "%s (new %s in %s: cannot be shown unreachable, not assumed reachable)" % (s.key, ("bounds check " + s.info if s.detail == "bounds" else "arithmetic overflow check " + s.info) if s.kind == "assert" else "index into a Vec / slice" if is_index_call else "unwrap / expect of a value the author declares present" if is_unwrap else "RefCell borrow (a conflicting borrow panics on every call and does not survive the test suite)" if is_refcell else "assertion / explicit panic", f["display"]))
            continue
        ctx.ob(rid, s.key, False,
               "reachable panic site without a guard argument: %s %s %s in %s; reached via %s"
               % (s.kind, s.detail.rsplit("::", 2)[-1] if s.kind == "call" else s.detail, ("(" + s.info + ")") if s.info else "", f["display"],
                  " -> ".join(x.split("::", 1)[-1] for x in chain[-5:])),
               ctx.where(f, s.line))
    if any(s_.auto and "accumulator" in s_.auto for s_ in sites):
        note_ = "an accumulator of at least 31 bits that grows by at most 255 per step is taken not to overflow: that needs an input of more than 8 million characters / steps, outside what the properties quantify over"
        if note_ not in ctx.assumptions:
            ctx.assumptions.append(note_)
    if len(seen) < fn_floor:
        ctx.ob(rid, "reachable-functions-floor", False, "only %d functions reachable from the entry points, floor %d" % (len(seen), fn_floor))
    stale = [k for k in reviewed if not k.startswith("_") and k.split("|")[0] in seen and k not in {s.key for s in sites}]
    inv = ctx.extra.setdefault("inventories", {})
    inv[rid] = {"entries": entries, "reachable_functions": len(seen), "sites": len(sites), "auto_discharged": n_auto,
                "reviewed": n_rev, "reviewed_moved": n_moved, "not_judged_here": n_skipped, "kinds_judged": list(kinds) if kinds else "all",
                "indirect_calls": indirect, "assumed_total_extern_callees": sorted(ext),
                "reviewed_entries_not_met": stale}
