"""C12 structural rules R2-R4: reader/writer letter tables, one square-indexing convention, 4-field defaults."""
import json
from ..cfg import Cfg
from ..expr import Exprs, PathEval, Inliner, fold, Unfoldable, show, leaves
from ..paths import returning_paths, NotLoopFree
from .. import geometry as G

B = "inkayaku_board::board::"
C = "inkayaku_core::constants::"
PS = B + "PlayerState::"


def subtrees(t):
    if isinstance(t, tuple):
        if t and isinstance(t[0], str):
            yield t
        for x in t:
            if isinstance(x, tuple):
                for y in subtrees(x):
                    yield y


def jval(t):
    """python value of a constant tree holding a struct (hashed json)"""
    if t[0] == "c" and isinstance(t[1], tuple) and t[1] and t[1][0] == "json":
        return json.loads(t[1][1])
    return None


def r2_tables(ctx):
    rid = "C12.R2"
    ctx.rule(rid, "FEN reader and writer use the same letter <-> piece / colour / castling-right / side tables", floor=25)
    prog = ctx.prog
    pieces = {c["value"]["index"]: c["value"] for k, c in prog.consts.items() if k.startswith(C + "piece::Piece::") and isinstance(c["value"], dict) and "fen" in c["value"]}
    if len(pieces) != 6:
        ctx.lost(rid, "six Piece constants")
        return
    # ---- reader: placement letters
    f = ctx.fn(rid, B + "<Fen as FenParseExt>::parse_player_states::{closure#0}")
    cfg, ex = Cfg(f), Exprs(f)
    inl = Inliner(prog, only=lambda k: k.startswith(PS))
    sw = None
    for b in sorted(cfg.reach):
        t = f["blocks"][b]["term"]
        if t["k"] == "switch" and len(t["targets"]) >= 6:
            d = ex.operand(t["discr"])
            if d[0] == "call" and d[1].endswith("to_ascii_lowercase"):
                sw = (b, t)
    if sw is None:
        ctx.lost(rid, "match on the lower-cased placement character")
        return
    letters = {}
    for v, tb in sw[1]["targets"]:
        t = f["blocks"][tb]["term"]
        k_occ = None
        if t["k"] == "call" and (t["callee"].get("key") or "").startswith(PS) and t["callee"]["key"].endswith("_ref"):
            sm = inl.summary(t["callee"]["key"])
            if sm is not None:
                for x in leaves(sm):
                    if x[0] == "idx" and x[1][0] == "f" and x[1][2] == "occupancy":
                        try:
                            k_occ = fold(x[2])
                        except Unfoldable:
                            pass
        letters[chr(v)] = k_occ
    for ch, k in sorted(letters.items()):
        ok = k in pieces and pieces[k]["fen"] == ch
        ctx.ob(rid, "reader|letter-%s" % ch, ok, "" if ok else "the FEN reader puts '%s' into occupancy[%s]; the piece with that index is written as '%s'" % (ch, k, pieces.get(k, {}).get("fen")),
               ctx.where(f, sw[1]["line"]), sample={"letter": ch, "occupancy_index": k, "piece": pieces.get(k, {}).get("name")})
    ok = sorted(letters) == sorted(p["fen"] for p in pieces.values())
    ctx.ob(rid, "reader|six-letters", ok, "" if ok else "placement letters handled: %s" % sorted(letters), ctx.where(f))
    # upper case -> white
    up = None
    for b in sorted(cfg.reach):
        t = f["blocks"][b]["term"]
        if t["k"] == "switch":
            d = ex.operand(t["discr"])
            if d[0] == "call" and d[1].endswith("is_uppercase"):
                arms = {}
                for name, blk in (("upper", t["otherwise"]), ("lower", t["targets"][0][1])):
                    for s in f["blocks"][blk]["stmts"]:
                        for a in s["rv"].get("a", []):
                            if a.get("k") in ("copy", "move"):
                                nm = [e["name"] for e in a["pl"]["p"] if isinstance(e, dict) and "f" in e]
                                if nm:
                                    arms[name] = nm[-1]
                up = arms
    ok = up is not None and "white" in str(up.get("upper")) and "black" in str(up.get("lower"))
    ctx.ob(rid, "reader|uppercase-is-white", ok, "" if ok else "upper/lower case select %s" % up, ctx.where(f), sample={"case_to_player": up})
    # ---- writer: ColoredPiece table
    vals = prog.const_value(C + "colored_piece::ColoredPiece::VALUES")
    g = ctx.fn(rid, C + "colored_piece::ColoredPiece::idx")
    try:
        gp = returning_paths(g)
    except NotLoopFree:
        gp = []
    if not isinstance(vals, list) or len(vals) != 12 or len(gp) != 1:
        ctx.lost(rid, "ColoredPiece::VALUES / idx")
        return
    for colour in (0, 1):
        for k, p in sorted(pieces.items()):
            try:
                i = fold(gp[0].ret(), {("param", 1): colour, ("param", 2): k})
            except Unfoldable:
                i = None
            e = vals[i] if i is not None and 0 <= i < 12 else None
            want = p["fen"].upper() if colour == 0 else p["fen"]
            ok = e is not None and e["color"]["index"] == colour and e["piece"]["index"] == k and e["fen"] == want
            ctx.ob(rid, "writer|colour%d-piece%d" % (colour, k), ok,
                   "" if ok else "the FEN writer renders (colour %d, %s) through VALUES[%s] = %s; the reader expects '%s'" % (colour, p["name"], i, e and (e["name"], e["fen"]), want),
                   ctx.where(g), sample={"colour": colour, "piece": p["name"], "written_as": e and e["fen"]})
    # to_white / to_black pass colour 0 / 1
    for nm, col in (("to_white", 0), ("to_black", 1)):
        h = ctx.fn(rid, C + "piece::Piece::" + nm)
        try:
            hp = returning_paths(h)
            t = hp[0].ret()
            a = t[2]
            cv = fold(a[0])
            ok = t[0] == "call" and t[1].endswith("from_indices_unchecked") and cv == col and any(x[0] == "f" and x[2] == "index" for x in leaves(a[1]))
        except (NotLoopFree, Unfoldable, IndexError):
            ok = False
        ctx.ob(rid, "writer|%s" % nm, ok, "" if ok else "Piece::%s does not build the coloured piece of colour %d" % (nm, col), ctx.where(h))
    gc = ctx.fn(rid, B + "Bitboard::get_colored_piece")
    try:
        ok = False
        sides = {}
        for pe in returning_paths(gc):
            r = pe.ret()
            for x in leaves(r):
                if x[0] == "call" and x[1].endswith("Piece::to_white"):
                    src = [y for y in leaves(x) if y[0] == "call" and y[1].endswith("find_piece_struct_by_square_mask")]
                    sides["to_white"] = [z[2] for y in src for z in leaves(y[2][0]) if z[0] == "f" and z[2] in ("white", "black")]
                if x[0] == "call" and x[1].endswith("Piece::to_black"):
                    src = [y for y in leaves(x) if y[0] == "call" and y[1].endswith("find_piece_struct_by_square_mask")]
                    sides["to_black"] = [z[2] for y in src for z in leaves(y[2][0]) if z[0] == "f" and z[2] in ("white", "black")]
        ok = sides.get("to_white") == ["white"] and sides.get("to_black") == ["black"]
    except NotLoopFree:
        sides, ok = None, False
    ctx.ob(rid, "writer|player-to-colour", ok, "" if ok else "get_colored_piece maps players to colours as %s" % sides, ctx.where(gc), sample={"mapping": sides})
    # ---- castling letters
    rd = ctx.fn(rid, B + "<Fen as FenParseExt>::parse_player_states")
    rcfg, rex = Cfg(rd), Exprs(rd)
    reader_c = {}
    reader_extra = {}

    def value_and_guards(stmt_block, v, depth=0):
        """trees that decide the value written: the value itself, for a conditionally assigned temporary every
        assignment to it, and the discriminants those assignments are control dependent on (an `a && b && c` chain)"""
        trees = [v]
        if v[0] == "local" and depth < 3:
            for dfn in rex.defs.get(v[1], ()):
                if dfn[0] == "stmt":
                    bb_ = dfn[1]
                    trees += value_and_guards(bb_, rex.rvalue(dfn[3]), depth + 1)
                    for (a, sb) in rcfg.control_deps_transitive(bb_):
                        sw = rd["blocks"][a]["term"]
                        if sw["k"] == "switch":
                            trees.append(rex.operand(sw["discr"]))
        return trees

    for b in sorted(rcfg.reach):
        for s in rd["blocks"][b]["stmts"]:
            d = s["dst"]
            if d is not None and d["p"] and isinstance(d["p"][-1], dict) and d["p"][-1].get("name", "").endswith("_castle"):
                trees = value_and_guards(b, rex.rvalue(s["rv"]))
                ch = sorted({x[1] for t_ in trees for x in leaves(t_) if x[0] == "c" and x[2] == "char"})
                owner = rd.get("names", {}).get(str(d["l"]))
                reader_c[(owner, d["p"][-1]["name"])] = ch[0] if len(ch) == 1 else (None if not ch else "/".join(ch))
                # further conjuncts: `pieces(player) & MASK != 0`
                extra = []
                for t_ in trees:
                    for sub in subtrees(t_):
                        if sub[0] == "bin" and sub[1] == "BitAnd":
                            acc = [x for x in (sub[2], sub[3]) if x[0] == "call" and x[1].startswith(PS)]
                            msk = [x for x in (sub[2], sub[3]) if x[0] == "c" and isinstance(x[1], int)]
                            if len(acc) == 1 and len(msk) == 1:
                                pl = acc[0][2][0]
                                while pl[0] in ("&", "*"):
                                    pl = pl[1]
                                pl_name = rd.get("names", {}).get(str(pl[1])) if pl[0] == "local" else ([y[2] for y in leaves(pl) if y[0] == "f"] or [None])[-1]
                                extra.append((acc[0][1][len(PS):], pl_name, msk[0][1]))
                reader_extra[(owner, d["p"][-1]["name"])] = sorted(set(extra))
    # a reader that additionally demands king and rook on their home squares keeps every legal position's rights;
    # the squares must be the right ones (geometry oracle: index = file + 8 * row, row 0 = rank 8, mask = 1 << index)
    def home_mask(file_, row):
        return 1 << (file_ + 8 * row)
    for (owner, fld), extra in sorted(reader_extra.items(), key=str):
        if not extra:
            continue
        row = 7 if owner == "white" else 0
        allowed = {("kings", owner, home_mask(4, row)), ("rooks", owner, home_mask(7 if fld.startswith("king") else 0, row))}
        bad = [e for e in extra if e not in allowed]
        ctx.ob(rid, "reader|castling-right-extra-conditions|%s.%s" % (owner, fld), not bad,
               "" if not bad else "the reader keeps %s.%s only if %s - for a legal position with that right the king stands on e%d and the rook on %s%d, so this condition drops a right the FEN grants" % (
                   owner, fld, ["%s(%s) & %#x != 0" % e for e in bad], 1 if owner == "white" else 8, "h" if fld.startswith("king") else "a", 1 if owner == "white" else 8),
               ctx.where(rd), sample={"conditions": ["%s(%s) & %#x" % e for e in extra]})
    wr = ctx.fn(rid, B + "<Fen as From<&Bitboard>>::from")
    wcfg, wex = Cfg(wr), Exprs(wr)
    writer_c = {}
    writer_extra = {}

    def w_value_and_guards(v, depth=0):
        trees = [v]
        if v[0] == "local" and depth < 3:
            for dfn in wex.defs.get(v[1], ()):
                if dfn[0] == "stmt":
                    trees += w_value_and_guards(wex.rvalue(dfn[3]), depth + 1)
                    for (a, sb) in wcfg.control_deps_transitive(dfn[1]):
                        sw = wr["blocks"][a]["term"]
                        if sw["k"] == "switch":
                            trees.append(wex.operand(sw["discr"]))
                elif dfn[0] == "call":
                    t_ = dfn[3]
                    trees.append(("call", t_["callee"].get("key") or "?", tuple(wex.operand(a) for a in t_["args"]), ""))
        return trees

    def closure_mask_roles(ck):
        """{parameter index of a mask: accessor name} for a closure testing `accessor(player) & mask`"""
        g = prog.fns.get(ck)
        out = {}
        if g is None:
            return out
        gex = Exprs(g)
        for b in g["blocks"]:
            for st in b["stmts"]:
                if st["rv"]["op"] == "bin" and st["rv"]["bop"] == "BitAnd":
                    a0, a1 = gex.operand(st["rv"]["a"][0]), gex.operand(st["rv"]["a"][1])
                    for acc, msk in ((a0, a1), (a1, a0)):
                        if acc[0] == "call" and acc[1].startswith(PS) and msk[0] == "param":
                            out[msk[1]] = acc[1][len(PS):]
        return out

    def player_of(t):
        while t[0] in ("&", "*"):
            t = t[1]
        fl = [y[2] for y in leaves(t) if y[0] == "f" and y[2] in ("white", "black")]
        if t[0] == "f" and t[2] in ("white", "black"):
            return t[2]
        return fl[-1] if fl else None

    for b in sorted(wcfg.reach):
        for s in wr["blocks"][b]["stmts"]:
            rv = s["rv"]
            if rv["op"] == "agg" and rv["kind"] == "tuple" and len(rv["a"]) == 2 and rv["a"][0].get("k") == "const" and rv["a"][0].get("ty") == "char":
                trees = w_value_and_guards(wex.operand(rv["a"][1]))
                flags = sorted({(x[1][2], x[2]) for t_ in trees for x in leaves(t_) if x[0] == "f" and x[2].endswith("_castle") and x[1][0] == "f"})
                if len(flags) != 1:
                    continue
                writer_c[flags[0]] = rv["a"][0]["v"]
                extra = []
                for t_ in trees:
                    for sub in subtrees(t_):
                        if sub[0] == "bin" and sub[1] == "BitAnd":
                            acc = [x for x in (sub[2], sub[3]) if x[0] == "call" and x[1].startswith(PS)]
                            msk = [x for x in (sub[2], sub[3]) if x[0] == "c" and isinstance(x[1], int)]
                            if len(acc) == 1 and len(msk) == 1:
                                extra.append((acc[0][1][len(PS):], player_of(acc[0][2][0]), msk[0][1]))
                        if sub[0] in ("call", "calli"):
                            args = sub[2]
                            clos = [a for a in args if a[0] in ("agg", "&") and "closure" in show(a)[:200]]
                            ck = None
                            for a in args:
                                a2 = a
                                while a2[0] in ("&", "*"):
                                    a2 = a2[1]
                                if a2[0] == "agg" and a2[1] == "closure":
                                    ck = a2[2]
                            if ck is None and sub[0] == "call" and "{closure" in sub[1]:
                                ck = sub[1]
                            if ck:
                                roles = closure_mask_roles(ck)
                                # closure parameters: 1 = the closure itself, then the call arguments (possibly as one tuple)
                                flat = []
                                for a in args:
                                    if a[0] == "agg" and a[1] == "tuple":
                                        flat += list(a[3])
                                    else:
                                        flat.append(a)
                                flat = [a for a in flat if not (a[0] in ("agg", "&") and "closure" in show(a)[:80])]
                                pl = player_of(flat[0]) if flat else None
                                for pi, accn in roles.items():
                                    idx = pi - 2
                                    if 0 <= idx < len(flat) and flat[idx][0] == "c" and isinstance(flat[idx][1], int):
                                        extra.append((accn, pl, flat[idx][1]))
                writer_extra[flags[0]] = sorted(set(extra), key=str)
    for (owner, fld), extra in sorted(writer_extra.items(), key=str):
        if not extra:
            continue
        row = 7 if owner == "white" else 0
        allowed = {("kings", owner, home_mask(4, row)), ("rooks", owner, home_mask(7 if fld.startswith("king") else 0, row))}
        bad = [e for e in extra if e not in allowed]
        ctx.ob(rid, "writer|castling-right-extra-conditions|%s.%s" % (owner, fld), not bad,
               "" if not bad else "the writer prints the letter for %s.%s only if %s - for a legal position with that right the king stands on e%d and the rook on %s%d, so a right the position holds is not written" % (
                   owner, fld, ["%s(%s) & %#x != 0" % e for e in bad], 1 if owner == "white" else 8, "h" if fld.startswith("king") else "a", 1 if owner == "white" else 8),
               ctx.where(wr), sample={"conditions": ["%s(%s) & %#x" % e for e in extra]})
    want = {("white", "king_side_castle"): "K", ("white", "queen_side_castle"): "Q", ("black", "king_side_castle"): "k", ("black", "queen_side_castle"): "q"}
    ok = reader_c == writer_c == want
    ctx.ob(rid, "castling-letters", ok, "" if ok else "castling letters: reader %s, writer %s" % (reader_c, writer_c), ctx.where(rd), sample={"reader": {"%s.%s" % k: v for k, v in reader_c.items()}, "writer": {"%s.%s" % k: v for k, v in writer_c.items()}})
    # order of the castling letters written: KQkq
    order = [v for k, v in sorted(writer_c.items(), key=lambda kv: 0)]
    # ---- side to move
    pt = ctx.fn(rid, B + "<Fen as FenParseExt>::parse_turn")
    from .c15_struct import str_match_arms
    pcfg, pex = Cfg(pt), Exprs(pt)
    arms = str_match_arms(pt, pcfg, pex)
    consts = {"WHITE": prog.const_value(B + "constants::WHITE"), "BLACK": prog.const_value(B + "constants::BLACK")}
    rside = {}
    for kw, eqb, head, _ in arms:
        for s in pt["blocks"][head]["stmts"]:
            if s["dst"] is not None and s["dst"]["l"] == 0 and s["rv"]["op"] == "use" and s["rv"]["a"][0].get("k") == "const":
                rside[kw] = s["rv"]["a"][0]["v"]
    wside = {}
    for b in sorted(wcfg.reach):
        t = wr["blocks"][b]["term"]
        if t["k"] == "switch":
            d = wex.operand(t["discr"])
            if d[0] == "call" and d[1] == B + "Bitboard::is_white_turn":
                for nm, blk in (("white", t["otherwise"]), ("black", t["targets"][0][1])):
                    for s in wr["blocks"][blk]["stmts"]:
                        if s["rv"]["op"] == "use" and s["rv"]["a"][0].get("k") == "const" and isinstance(s["rv"]["a"][0].get("v"), str) and len(s["rv"]["a"][0]["v"]) == 1:
                            wside[nm] = s["rv"]["a"][0]["v"]
    if not wside and rside == {"w": consts["WHITE"], "b": consts["BLACK"]}:
        ctx.lost(rid, "the letter the FEN writer prints for the side to move")
        return
    ok = rside == {"w": consts["WHITE"], "b": consts["BLACK"]} and wside == {"white": "w", "black": "b"}
    ctx.ob(rid, "side-letters", ok, "" if ok else "side to move: reader %s, writer %s" % (rside, wside), ctx.where(pt), sample={"reader": rside, "writer": wside})


def r3_squares(ctx):
    rid = "C12.R3"
    ctx.rule(rid, "one square-indexing convention: 64 Square constants self-consistent, from_index(i) returns square i, reader and writer index by (file, rank) in the same order, e.p. reader computes file = c0 - 'a', rank = 8 - digit", floor=130)
    prog = ctx.prog
    vals = prog.const_value(C + "square::Square::VALUES")
    if not isinstance(vals, list) or len(vals) != 64:
        ctx.lost(rid, "Square::VALUES")
        return
    c0 = prog.consts[C + "square::Square::VALUES"]
    for i, s in enumerate(vals):
        fi, ri = s["file"]["index"], s["rank"]["index"]
        ok = s["shift"] == i and s["shift"] == fi + 8 * ri and s["mask"] == 1 << i and s["fen"] == chr(ord("a") + fi) + chr(ord("8") - ri) \
            and s["file"]["fen"] == chr(ord("a") + fi) and s["rank"]["fen"] == chr(ord("8") - ri)
        ctx.ob(rid, "square-const|%d" % i, ok, "" if ok else "Square::VALUES[%d] = %s is inconsistent (expected shift %d = file + 8*rank, mask 1<<shift, name file letter + rank digit)" % (i, s, i),
               "%s:%d" % (c0["file"], c0["line"]), sample={"index": i, "square": s["fen"]} if i == 36 else None)
    f = ctx.fn(rid, C + "square::Square::from_index")
    try:
        pes = returning_paths(f)
    except (NotLoopFree, OverflowError):
        ctx.lost(rid, "Square::from_index paths")
        return
    by_val = {}
    for pe in pes:
        r = pe.ret()
        for (d, c, b, ty) in pe.conds:
            if d == ("param", 1) and c[0] == "in":
                for v in c[1]:
                    by_val[v] = r
    for i in range(64):
        r = by_val.get(i)
        got = jval(r[3][0]) if r is not None and r[0] == "agg" and r[2].endswith("Option::Some") and r[3] else None
        ok = got is not None and got["shift"] == i
        ctx.ob(rid, "from_index|%d" % i, ok, "" if ok else "Square::from_index(%d) returns %s" % (i, got and got["fen"]), ctx.where(f))
    # reader and writer reach to_square_index_from_indices with (file, rank)
    tsi = ctx.fn(rid, C + "to_square_index_from_indices")
    try:
        t = returning_paths(tsi)[0].ret()
        ok = t[0] == "bin" and t[1] == "Add" and ("param", 1) in (t[2], t[3]) and any(x[0] == "bin" and x[1] == "Mul" and ("param", 2) in (x[2], x[3]) and any(y[0] == "c" and y[1] == 8 for y in (x[2], x[3])) for x in (t[2], t[3]))
    except (NotLoopFree, IndexError):
        ok = False
    ctx.ob(rid, "index=file+8*rank", ok, "" if ok else "to_square_index_from_indices is not file + 8 * rank", ctx.where(tsi))
    inl = Inliner(prog, only=lambda k: k in (B + "constants::square_mask_from_index", B + "constants::square_shift_from_index"))
    rd = ctx.fn(rid, B + "<Fen as FenParseExt>::parse_player_states::{closure#0}")
    rex = Exprs(rd)
    ok = False
    for b in rd["blocks"]:
        t = b["term"]
        if t["k"] == "call" and t["callee"].get("key") == B + "constants::square_mask_from_index":
            a0, a1 = rex.operand(t["args"][0]), rex.operand(t["args"][1])
            # file counter is the local updated by digits; rank index is the closure's enumerate index
            rank_ok = any(x == ("f", ("param", 2), "0") for x in leaves(a1))
            ok = rank_ok and a0[0] == "local"
    if not any(b_["term"]["k"] == "call" and b_["term"]["callee"].get("key") == B + "constants::square_mask_from_index" for b_ in rd["blocks"]):
        ctx.lost(rid, "the placement reader's call of square_mask_from_index")
    else:
        ctx.ob(rid, "reader|(file, rank)-order", ok, "" if ok else "the placement reader does not call square_mask_from_index(file counter, rank index)", ctx.where(rd))
    sm = ctx.fn(rid, B + "constants::square_shift_from_index")
    try:
        t = returning_paths(sm)[0].ret()
        core = t[2] if t[0] == "cast" else t
        ok = core[0] == "call" and core[1] == C + "to_square_index_from_indices" and [x for x in leaves(core[2][0]) if x[0] == "param"] == [("param", 1)] and [x for x in leaves(core[2][1]) if x[0] == "param"] == [("param", 2)]
    except (NotLoopFree, IndexError):
        ok = False
    ctx.ob(rid, "reader|square_shift_from_index-passes-(file, rank)", ok, "" if ok else "square_shift_from_index swaps or alters its arguments", ctx.where(sm))
    fi = ctx.fn(rid, C + "square::Square::from_indices")
    ok = False
    try:
        for pe in returning_paths(fi):
            for x in leaves(pe.ret()):
                if x[0] == "call" and x[1] == C + "to_square_index_from_indices":
                    ok = x[2] == (("param", 1), ("param", 2))
    except NotLoopFree:
        pass
    ctx.ob(rid, "writer|from_indices-passes-(file, rank)", ok, "" if ok else "Square::from_indices swaps or alters its arguments", ctx.where(fi))
    wr = ctx.fn(rid, B + "<Fen as From<&Bitboard>>::from")
    wex = Exprs(wr)
    wcfg = Cfg(wr)
    ok = False
    order_read = False
    for b in sorted(wcfg.reach):
        t = wr["blocks"][b]["term"]
        if t["k"] == "call" and t["callee"].get("key") == C + "square::Square::from_indices":
            a0, a1 = wex.operand(t["args"][0]), wex.operand(t["args"][1])
            # the inner loop variable is the file, the outer the rank: the block of the inner loop's next() is inside the outer loop
            def loop_var_block(tr):
                for x in leaves(tr):
                    if x[0] == "call" and x[1].endswith("Iterator>::next"):
                        it = x[2][0]
                        while it[0] in ("&", "*"):
                            it = it[1]
                        return it
                return None
            i0, i1 = loop_var_block(a0), loop_var_block(a1)
            # outer iterator is created before the inner one: compare defining blocks by dominance
            if i0 and i1 and i0[0] == "local" and i1[0] == "local":
                d0 = wex.defs.get(i0[1], [None])[0]
                d1 = wex.defs.get(i1[1], [None])[0]
                if d0 and d1:
                    order_read = True
                    ok = wcfg.dominates(d1[1], d0[1]) and d0[1] != d1[1]   # rank iterator (arg1) created first = outer loop
    if not order_read:
        # the square is built somewhere else (a helper per rank, an iterator chain): which loop variable is the file
        # and which the rank is not read here
        ctx.lost(rid, "the FEN writer's call of Square::from_indices with an inner-loop file and an outer-loop rank")
    else:
        ctx.ob(rid, "writer|(file, rank)-order", ok, "" if ok else "the FEN writer does not call Square::from_indices(inner-loop file, outer-loop rank)", ctx.where(wr))
    # e.p. square reader
    ep = ctx.fn(rid, B + "constants::square_shift_from_fen_unchecked")
    eex = Exprs(ep)
    ok = False
    for b in ep["blocks"]:
        t = b["term"]
        if t["k"] == "call" and t["callee"].get("key") == B + "constants::square_shift_from_index":
            a0, a1 = eex.operand(t["args"][0]), eex.operand(t["args"][1])
            file_ok = any(x[0] == "bin" and x[1] == "Sub" and any(y[0] == "c" and y[1] == 97 for y in (x[3],)) for x in leaves(a0))
            rank_ok = any(x[0] == "bin" and x[1] == "Sub" and x[2][0] == "c" and x[2][1] == 8 and any(y[0] == "call" and y[1].endswith("to_digit") for y in leaves(x[3])) for x in leaves(a1))
            ok = file_ok and rank_ok
    ctx.ob(rid, "ep-reader|file=c0-'a',rank=8-digit", ok, "" if ok else "the e.p. square reader does not compute (first char - 'a', 8 - digit)", ctx.where(ep))


def r4_defaults(ctx):
    rid = "C12.R4"
    ctx.rule(rid, "a 4-field FEN defaults the half-move clock to \"0\" and the full-move number to \"1\"", floor=2)
    for nm, want in (("get_halfmove_clock", "0"), ("get_fullmove_clock", "1")):
        f = ctx.fn(rid, "inkayaku_core::fen::Fen::" + nm)
        ex = Exprs(f)
        got = None
        fld = None
        for b in f["blocks"]:
            t = b["term"]
            if t["k"] == "call" and (t["callee"].get("key") or "").endswith("Option::map_or"):
                a = [ex.operand(x) for x in t["args"]]
                got = a[1][1] if a[1][0] == "c" else None
                fld = [x[2] for x in leaves(a[0]) if x[0] == "f"]
        ok = got == want and fld and fld[-1] == nm[4:]
        ctx.ob(rid, nm, bool(ok), "" if ok else "%s defaults to %r over field %s (expected %r over %s)" % (nm, got, fld, want, nm[4:]), ctx.where(f), sample={"getter": nm, "default": got})


def r5_rejections(ctx):
    rid = "C12.R5"
    ctx.rule(rid, "rank validation: validate_rank answers Ok only after the square count was tested against 8 and the adjacent-digit scan ran to the end of the rank; every rank is validated before from_str answers Ok", floor=4)
    f = ctx.fn(rid, "inkayaku_core::fen::Fen::validate_rank")
    cfg, ex = Cfg(f), Exprs(f)
    ok_blocks, err_blocks = [], []
    for b in sorted(cfg.reach):
        if f["blocks"][b]["cleanup"]:
            continue
        for st in f["blocks"][b]["stmts"]:
            d = st["dst"]
            if d is not None and d["l"] == 0 and not d["p"] and st["rv"]["op"] == "agg":
                (ok_blocks if st["rv"].get("variant") == "Ok" else err_blocks).append((b, st["line"]))
            elif d is not None and d["l"] == 0 and not d["p"]:
                ok_blocks.append((b, st["line"]))   # a constant or copied result: judged like an Ok exit
    if not ok_blocks:
        ctx.lost(rid, "validate_rank: no Ok exit found")
        return
    # loops with the adjacent-digit test
    scans = []
    for (a, h) in cfg.back_edges():
        body, work = {h}, [a]
        while work:
            x = work.pop()
            if x in body:
                continue
            body.add(x)
            work.extend(cfg.pred[x])
        digit_tests = [x for x in body if f["blocks"][x]["term"]["k"] == "call" and (f["blocks"][x]["term"]["callee"].get("key") or "").endswith("::is_ascii_digit")]
        rejects = [bb for bb, _ in err_blocks if any(cfg.dominates(y, bb) for y in digit_tests)]
        if len(digit_tests) >= 2 and rejects:
            # the loop's own test: first switch after the header
            ns = h
            for _ in range(8):
                if f["blocks"][ns]["term"]["k"] == "switch":
                    break
                nxt = [x for x in cfg.succ[ns] if not f["blocks"][x]["cleanup"]]
                ns = nxt[0] if len(nxt) == 1 else None
                if ns is None:
                    break
            if ns is not None:
                finished = [x for x in cfg.succ[ns] if x not in body]
                scans.append((h, ns, finished))
    if not scans:
        ctx.lost(rid, "validate_rank: a loop testing two neighbouring characters with is_ascii_digit and rejecting when both are digits")
        return
    for b, line in ok_blocks:
        ok = any(any(cfg.dominates(x, b) for x in fin) for (_, _, fin) in scans)
        ctx.ob(rid, "validate_rank|ok-after-complete-digit-scan", ok,
               "" if ok else "validate_rank can answer Ok without having scanned the whole rank for adjacent digits (an exit that bypasses the loop or leaves it early): ranks such as `PPPP1111` would be accepted",
               ctx.where(f, line))
    # the count test
    count_sw = []
    for b in sorted(cfg.reach):
        t = f["blocks"][b]["term"]
        if t["k"] == "switch":
            d = ex.operand(t["discr"])
            if d[0] == "bin" and d[1] in ("Ne", "Eq") and any(x[0] == "c" and x[1] == 8 for x in (d[2], d[3])) and any(y[0] == "call" and y[1].endswith("Iterator::sum") for y in leaves(d)):
                eq_edge = t["otherwise"] if d[1] == "Eq" else t["targets"][0][1]
                count_sw.append((b, eq_edge))
    ok = len(count_sw) == 1 and all(cfg.dominates(count_sw[0][1], b) for b, _ in ok_blocks)
    ctx.ob(rid, "validate_rank|ok-only-with-eight-squares", ok, "" if ok else "validate_rank can answer Ok without the square count having been compared with 8", ctx.where(f))
    # every rank goes through validate_rank, and from_str validates before it answers Ok
    g = ctx.fn(rid, "inkayaku_core::fen::Fen::validate_ranks")
    exg = Exprs(g)
    calls = [t["callee"].get("key") or "" for t in (b["term"] for b in g["blocks"]) if t["k"] == "call"]
    closure_args = []
    for b in g["blocks"]:
        t = b["term"]
        if t["k"] == "call" and (t["callee"].get("key") or "").endswith("Iterator::map"):
            closure_args += [show(exg.operand(a)) for a in t["args"]]
    ok = any(c.endswith("str::<str>::split") for c in calls) and any("validate_rank" in a for a in closure_args) and any(c.endswith("Iterator::find") for c in calls)
    mentions_rank = any("validate_rank" in c for c in calls) or any("validate_rank" in show(exg.operand(a)) for b_ in g["blocks"] if b_["term"]["k"] == "call" for a in b_["term"]["args"])
    if not ok and mentions_rank and any(c.endswith("str::<str>::split") for c in calls):
        # every rank is still handed to validate_rank, through another adaptor (try_for_each, all, a loop)
        ctx.lost(rid, "validate_ranks: how the per-rank results are combined (calls %s)" % [c.rsplit("::", 1)[-1] for c in calls][:8])
    else:
        ctx.ob(rid, "validate_ranks|every-rank", ok, "" if ok else "validate_ranks is no longer split('/').map(validate_rank).find(is_err): calls %s" % [c.rsplit("::", 1)[-1] for c in calls], ctx.where(g))
    h = ctx.fn(rid, "inkayaku_core::fen::<Fen as FromStr>::from_str")
    hc = Cfg(h)
    vcalls = [b for b in sorted(hc.reach) if h["blocks"][b]["term"]["k"] == "call" and (h["blocks"][b]["term"]["callee"].get("key") or "").endswith("Fen::validate_ranks")]
    parse_calls = [b for b in sorted(hc.reach) if h["blocks"][b]["term"]["k"] == "call" and (h["blocks"][b]["term"]["callee"].get("key") or "").endswith("Fen::parse")]
    oks = []
    for b in sorted(hc.reach):
        for st in h["blocks"][b]["stmts"]:
            d = st["dst"]
            if d is not None and d["l"] == 0 and not d["p"] and st["rv"]["op"] == "agg" and st["rv"].get("variant") == "Ok":
                oks.append((b, st["line"]))
    # Ok exits after the grammar match must also be after the rank validation
    late = [(b, l) for b, l in oks if parse_calls and any(hc.dominates(p_, b) for p_ in parse_calls)]
    ok = len(vcalls) == 1 and bool(late) and all(hc.dominates(vcalls[0], b) for b, _ in late)
    ctx.ob(rid, "from_str|ok-after-rank-validation", ok, "" if ok else "Fen::from_str can answer Ok for a parsed string without validate_ranks having run", ctx.where(h))


def run(ctx):
    r2_tables(ctx)
    r3_squares(ctx)
    r4_defaults(ctx)
    r5_rejections(ctx)


def r6_en_passant_reader(ctx):
    """every one of the 16 possible e.p. target squares is decoded to its square"""
    rid = "C12.R6"
    ctx.rule(rid, "the e.p. field reader maps `-` to NO_SQUARE and every target a3..h3, a6..h6 to that square (shift = file + 8 * row): either through the general square-text helper (checked by R3) on every non-`-` path, or through a literal table that contains all 16 targets with the right values", floor=2)
    from .c15_struct import str_match_arms, STR_EQ
    prog = ctx.prog
    f = ctx.fn(rid, B + "<Fen as FenParseExt>::parse_en_passant_square_shift")
    cfg, ex = Cfg(f), Exprs(f)
    NO_SQUARE = prog.const_value(B + "constants::NO_SQUARE")
    arms = str_match_arms(f, cfg, ex)
    table = {}
    for kw, eqb, head, other in arms:
        # value returned in the arm
        val = None
        for x in sorted(cfg.reach):
            if x == head or cfg.dominates(head, x):
                for s in f["blocks"][x]["stmts"]:
                    if s["dst"] is not None and s["dst"]["l"] == 0 and not s["dst"]["p"]:
                        tv = ex.rvalue(s["rv"])
                        try:
                            val = fold(tv)
                        except Unfoldable:
                            val = show(tv)
                        break
                if val is not None:
                    break
        if val is None:
            # the arm's value goes through a local (e.g. an assertion sits between the decision and the return):
            # evaluate the returning paths through the arm
            from ..paths import returning_paths, NotLoopFree
            try:
                vals = set()
                for pe in returning_paths(f):
                    if head in pe.path:
                        try:
                            vals.add(fold(pe.ret()))
                        except Unfoldable:
                            vals.add(show(pe.ret()))
                if len(vals) == 1:
                    val = vals.pop()
            except NotLoopFree:
                pass
        table[kw] = val
    helper_calls = [b for b in sorted(cfg.reach) if f["blocks"][b]["term"]["k"] == "call" and (f["blocks"][b]["term"]["callee"].get("key") or "").endswith("square_shift_from_fen_unchecked")]
    targets = {"%s%d" % (chr(ord("a") + fl), rk): fl + 8 * (8 - rk) for fl in range(8) for rk in (3, 6)}
    literal_targets = {k: v for k, v in table.items() if k != "-"}
    if literal_targets:
        missing = sorted(set(targets) - set(literal_targets))
        wrong = sorted((k, v) for k, v in literal_targets.items() if k in targets and v != targets[k])
        # targets not in the table fall to the helper only if the helper is still called on the fall-through path
        if missing and helper_calls:
            missing = []
        ok = not missing and not wrong
        ctx.ob(rid, "literal-table|all-16-targets", ok,
               "" if ok else "the e.p. reader's literal table %s%s: a legal FEN with that e.p. target is decoded without (or with a wrong) e.p. square" % (
                   ("lacks %s" % missing) if missing else "", (" maps %s" % wrong) if wrong else ""),
               ctx.where(f), sample={"targets_in_table": len(literal_targets)})
    else:
        ok = len(helper_calls) >= 1
        ctx.ob(rid, "general-helper", ok, "" if ok else "the e.p. reader neither calls square_shift_from_fen_unchecked nor holds a literal table", ctx.where(f), sample={"helper_calls": len(helper_calls)})
    returns_no_square = any(s_["dst"] is not None and s_["dst"]["l"] == 0 and not s_["dst"]["p"] and s_["rv"]["op"] == "use" and s_["rv"]["a"][0].get("k") == "const" and s_["rv"]["a"][0].get("v") == NO_SQUARE
                            for b_ in f["blocks"] if not b_["cleanup"] for s_ in b_["stmts"])
    ok = table.get("-") == NO_SQUARE or ("-" not in table and returns_no_square)
    if not ok and table.get("-") is None:
        ctx.lost(rid, "the value parse_en_passant_square_shift returns for `-`")
        return
    ctx.ob(rid, "dash-is-no-square", bool(ok), "" if ok else "`-` is decoded to %s, not NO_SQUARE" % table.get("-"), ctx.where(f), sample={"dash": table.get("-")})


_run_before_r6 = run


def run(ctx):
    _run_before_r6(ctx)
    r6_en_passant_reader(ctx)


def r7_placement_and_rights_writers(ctx):
    """pieces are placed on (file counter, rank index); castling rights are written only where reviewed"""
    rid = "C12.R7"
    ctx.rule(rid, "the placement reader sets a piece bit only from square_mask_from_index(file counter, rank index) - never a rank constant independent of the rank being decoded; and the castling-right flags are written only by the FEN reader's own assignments and by make / unmake (a new writer, e.g. a sanitiser, needs its squares reviewed)", floor=2)
    prog = ctx.prog
    cl = [k for k in prog.fns if k.startswith(B + "<Fen as FenParseExt>::parse_player_states::{closure")]
    n_writes, bad = 0, []
    for k in cl:
        f = prog.fns[k]
        ex = Exprs(f)
        for b in f["blocks"]:
            if b["cleanup"]:
                continue
            for s in b["stmts"]:
                d, rv = s["dst"], s["rv"]
                if d is None or "deref" not in d["p"] or rv["op"] != "bin" or rv["bop"] != "BitOr":
                    continue
                n_writes += 1
                tr = ex.rvalue(rv)
                calls = [x[1] for x in leaves(tr) if x[0] == "call"]
                if not any(c.endswith("square_mask_from_index") for c in calls):
                    bad.append((k, s["line"], show(tr)[:120], f))
    ok = n_writes >= 1 and not bad
    ctx.ob(rid, "placement|bits-from-(file, rank)-only", ok,
           "" if ok else ("the placement reader sets piece bits from %s: a value that does not depend on the rank being decoded (a whole-rank constant puts the pieces on that rank wherever the text stands)" % [b_[2] for b_ in bad][:2] if bad else "no piece-bit write found in the placement reader's closures"),
           ctx.where(bad[0][3], bad[0][1]) if bad else "", sample={"bit_writes": n_writes})
    writers = set()
    for k, f in prog.fns.items():
        if f["crate"] != "inkayaku_board" or f.get("test"):
            continue
        for b in f["blocks"]:
            if b["cleanup"]:
                continue
            for s in b["stmts"]:
                d = s["dst"]
                if d is not None and d["p"] and isinstance(d["p"][-1], dict) and d["p"][-1].get("name") in ("king_side_castle", "queen_side_castle"):
                    writers.add(k)
    REVIEWED = {B + "<Fen as FenParseExt>::parse_player_states": "the reader's own assignments (letters and conjuncts judged by R2)",
                B + "Bitboard::make": "clears rights recorded in the move (C02.R5)", B + "Bitboard::unmake": "restores them (C03.R3)"}
    new = sorted(w for w in writers if w not in REVIEWED and not w.endswith("::default") and "Default" not in w)
    ok = bool(writers & set(REVIEWED)) and not new
    ctx.ob(rid, "castling-rights|reviewed-writers-only", ok,
           "" if ok else "the castling-right flags are also written by %s: a function that changes rights outside the reader's assignments and make/unmake (for a sanitiser: check that black's king side is tested against h8 and queen side against a8 - 'right hand' and 'left hand' swap with the colour)" % [w.rsplit("::", 1)[-1] for w in new],
           "", sample={"writers": sorted(w.rsplit("::", 2)[-1] for w in writers)})


_run_before_r7 = run


def run(ctx):
    _run_before_r7(ctx)
    r7_placement_and_rights_writers(ctx)
