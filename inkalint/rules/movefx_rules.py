"""C02.R6 / C03.R6 / C06.R5: make vs. the rules, unmake vs. make, hash delta vs. make - per move kind, from all paths."""
from ..expr import show
from .. import geometry as G
from . import movefx as FX
from . import movefields as MF

PAWN, ROOK, KING = 1, 4, 6


def _tables(ctx, rid):
    if hasattr(ctx, "_fx"):
        return ctx._fx
    prog = ctx.prog
    try:
        acc = FX.accessor_indices(prog)
        hf = FX.helper_effects(prog, acc)
        mk, n1 = FX.make_like_table(prog, FX.BB + "make", acc, hf)
        um, n2 = FX.make_like_table(prog, FX.BB + "unmake", acc, hf)
        ctx._fx = (acc, hf, mk, um, n1, n2)
    except FX.FxError as e:
        ctx.lost(rid, "placement effects of make/unmake: %s" % e)
        ctx._fx = None
    except KeyError as e:
        ctx.lost(rid, "function %s" % e)
        ctx._fx = None
    return ctx._fx


def sq_show(sq):
    base, off = sq
    if base is None:
        return "sq%d" % off
    nm = show(base).split("::")[-1].split("(")[0].replace("get_", "")
    return nm + ("%+d" % off if off else "")


def fx_show(fx):
    return ["%s %s %s@%s" % (op, role, ("piece %d" % p[1]) if p[0] == "const" else p[1].replace("get_", ""), sq_show(sq)) for (role, p, sq, op) in fx]


def consts(prog):
    return {n: prog.const_value(FX.B + "constants::" + n) for n in ("PAWN", "ROOK", "KING", "NO_PIECE", "WHITE", "BLACK")}


def SRC(arg):
    return (("call", MF.MOVE + "get_source_square", (("param", arg),), "board::Move::get_source_square"), 0)


def base_name(sq):
    b = sq[0]
    if b is None:
        return None
    return b[1].rsplit("::", 1)[-1] if b[0] == "call" else show(b)


def norm_fx(fx):
    """effects with squares reduced to (getter name | None, offset) so that make (mv = arg2) and zobrist_xor (mv = arg1) compare"""
    return sorted(((role, p, (base_name(sq), sq[1]), op) for (role, p, sq, op) in fx), key=repr)


def rule_make_vs_rules(ctx):
    rid = "C02.R6"
    ctx.rule(rid, "per move kind (all paths of make): the placement change is exactly the one the rules define - mover's piece leaves the source and arrives on the target, the victim disappears (behind the target for e.p.), the pawn becomes the promotion piece, the castling rook jumps from the corner over the king", floor=8)
    t = _tables(ctx, rid)
    if not t:
        return
    acc, hf, mk, um, n1, n2 = t
    f = ctx.prog.fns[FX.BB + "make"]
    S, T = "get_source_square", "get_target_square"
    M, A, PR = ("getter", "get_piece_moved"), ("getter", "get_piece_attacked"), ("getter", "get_promotion_piece")
    want = {
        ("normal",): [("mover", M, (S, 0), "clear"), ("mover", M, (T, 0), "set"), ("opponent", A, (T, 0), "clear")],
        ("promo",): [("mover", ("const", PAWN), (S, 0), "clear"), ("mover", PR, (T, 0), "set"), ("opponent", A, (T, 0), "clear")],
        # white pawns move towards index 0: the pawn captured en passant stands one rank behind the target = +8
        ("ep", "white"): [("mover", ("const", PAWN), (S, 0), "clear"), ("mover", ("const", PAWN), (T, 0), "set"), ("opponent", ("const", PAWN), (T, 8), "clear")],
        ("ep", "black"): [("mover", ("const", PAWN), (S, 0), "clear"), ("mover", ("const", PAWN), (T, 0), "set"), ("opponent", ("const", PAWN), (T, -8), "clear")],
    }
    for row in (0, 7):
        for tf, (rf_from, rf_to) in ((2, (0, 3)), (6, (7, 5))):
            tgt = G.sq_of(tf, row)
            want[("castle", tgt)] = [("mover", ("const", ROOK), (None, G.sq_of(rf_from, row)), "clear"), ("mover", ("const", ROOK), (None, G.sq_of(rf_to, row)), "set"),
                                     ("mover", ("const", KING), (S, 0), "clear"), ("mover", ("const", KING), (T, 0), "set")]
    for cls in sorted(set(want) | set(mk), key=str):
        got = norm_fx(mk.get(cls, []))
        exp = sorted(want.get(cls, []), key=repr)
        ok = got == exp
        ctx.ob(rid, "kind:%s" % ":".join(map(str, cls)), ok,
               "" if ok else "make, move kind %s: placement change is %s; the rules give %s" % (cls, fx_show(mk.get(cls, [])), ["%s %s %s@%s" % (o, r, p[1], "%s%+d" % (s[0], s[1]) if s[0] else "sq%d" % s[1]) for (r, p, s, o) in exp]),
               ctx.where(f), sample={"kind": list(cls), "effects": fx_show(mk.get(cls, []))})
    ctx.extra["make_paths"] = n1


def rule_unmake_inverts_make(ctx):
    rid = "C03.R6"
    ctx.rule(rid, "per move kind (all paths of make and unmake): unmake's placement change is the exact inverse of make's (same player, piece and square, set <-> clear)", floor=8)
    t = _tables(ctx, rid)
    if not t:
        return
    acc, hf, mk, um, n1, n2 = t
    f = ctx.prog.fns[FX.BB + "unmake"]

    def swap_colour(cls):
        # unmake evaluates is_white_turn() on entry, when the side to move is the mover's opponent
        if cls[0] == "ep":
            return ("ep", "black" if cls[1] == "white" else "white")
        return cls
    um2 = {swap_colour(c): v for c, v in um.items()}
    for cls in sorted(set(mk) | set(um2), key=str):
        a = norm_fx(mk.get(cls, []))
        b = norm_fx(um2.get(cls, []))
        inv = sorted(((r, p, s, "set" if o == "clear" else "clear") for (r, p, s, o) in a), key=repr)
        if cls[0] == "ep":
            # the victim of an e.p. capture is recorded as the captured piece at generation (a pawn): make removes
            # `PAWN`, unmake puts back `piece_attacked`
            b = sorted(((r, ("const", PAWN) if (p == ("getter", "get_piece_attacked") and r == "opponent") else p, s, o) for (r, p, s, o) in b), key=repr)
        ok = inv == b and bool(a)
        ctx.ob(rid, "kind:%s" % ":".join(map(str, cls)), ok,
               "" if ok else "move kind %s: make does %s, unmake does %s - not inverse: after make+unmake the placement differs" % (cls, fx_show(mk.get(cls, [])), fx_show(um2.get(cls, []))),
               ctx.where(f), sample={"kind": list(cls), "make": fx_show(mk.get(cls, [])), "unmake": fx_show(um2.get(cls, []))})
    ctx.extra["unmake_paths"] = n2
    ctx.assumptions.append("the captured-piece field of an en-passant move is PAWN (make_move looks the victim up on target +/- 8; C06.R3 checks that offset)")


def rule_hash_vs_make(ctx):
    rid = "C06.R5"
    ctx.rule(rid, "per move kind (all paths of zobrist_xor and make): the full hash delta toggles exactly one piece-square key per placement change of make (same player, piece, square), the side key always, the old/new e.p. file keys when present, and the rights keys make clears; the pawn delta is the pawn/side/e.p. part of it", floor=20)
    t = _tables(ctx, rid)
    if not t:
        return
    acc, hf, mk, um, n1, n2 = t
    prog = ctx.prog
    f = prog.fns[FX.BB + "zobrist_xor"]
    try:
        xt, nx = FX.xor_table(prog, acc)
    except FX.FxError as e:
        ctx.lost(rid, "zobrist_xor: %s" % e)
        return
    # castle: the generator emits castling only from the king's home square (C01.R1): source == e-file of the row
    src_of = {}
    for row in (0, 7):
        for tf in (2, 6):
            src_of[G.sq_of(tf, row)] = G.sq_of(4, row)
    # make's bookkeeping: which (role, flag) each predicate clears
    from .c03 import bookkeeping_table
    from . import movefields
    fields, setters = movefields.derive(ctx, rid)
    bk, fm, err = bookkeeping_table(ctx, FX.BB + "make", rid, fields)
    role_mk = FX.role_resolver(prog.fns[FX.BB + "make"])
    seen = {}
    unread = False
    for kind, eqs, full, pawn, preds in xt:
        def unknown(tgl):
            return tgl[0] == "?" or any(isinstance(x, str) and x.startswith("?") for x in tgl) or any(isinstance(x, tuple) and x and isinstance(x[0], str) and x[0] in ("expr",) for x in tgl)
        if any(unknown(tgl) for tgl in list(full) + list(pawn)) or (kind["castle"] and kind["target"] is None):
            # a term of the delta that is no key lookup this rule knows (a fold over an array of optional keys, a
            # closure ...), or a castle path that does not say which castling it is: not read
            if not unread:
                unread = True
                ctx.lost(rid, "zobrist_xor: the delta contains terms that are not piece-square / castle / e.p. / side key lookups (%s)" % [str(tgl)[:80] for tgl in list(full) + list(pawn) if unknown(tgl)][:1])
            continue
        if kind["castle"]:
            cls = ("castle", kind["target"])
        elif kind["ep"]:
            cls = ("ep", "white" if kind["white"] else "black")
        elif kind["promo"]:
            cls = ("promo",)
        else:
            cls = ("normal",)
        sub = (cls, eqs.get("get_piece_moved"), eqs.get("get_piece_attacked"))
        # expected piece toggles from make's effects, specialised by what the path has established
        exp = []
        for (role, p, sq, op) in mk.get(cls, []):
            if p[0] == "getter" and p[1] in eqs:
                p = ("const", eqs[p[1]])
            b, off = FX.base_name_sq(sq)
            if cls[0] == "castle":
                if b == "get_target_square":
                    b, off = None, cls[1] + off
                elif b == "get_source_square":
                    b, off = None, src_of.get(cls[1], -99) + off
            exp.append(("piece", role, p, (b, off)))
        got_p = []
        for tgl in full:
            if tgl[0] == "piece":
                b, off = FX.base_name_sq(tgl[3])
                pc = tgl[2]
                # what the path has established about the move is applied to both sides: a getter known to equal a
                # constant is that constant, the squares of a castling move are those of its kind
                if pc[0] == "getter" and pc[1] in eqs:
                    pc = ("const", eqs[pc[1]])
                if cls[0] == "castle":
                    if b == "get_target_square":
                        b, off = None, cls[1] + off
                    elif b == "get_source_square":
                        b, off = None, src_of.get(cls[1], -99) + off
                got_p.append(("piece", tgl[1], pc, (b, off)))
        ok_piece = sorted(exp, key=repr) == sorted(got_p, key=repr)
        others = sorted((tgl for tgl in full if tgl[0] != "piece"), key=repr)
        exp_o = [("side",)]
        if "ne:get_previous_en_passant_square" in eqs:
            exp_o.append(("ep", "get_previous_en_passant_square"))
        if "ne:get_next_en_passant_square" in eqs:
            exp_o.append(("ep", "get_next_en_passant_square"))
        # rights: predicates the path did not evaluate are "don't care": the path serves every completion, so the
        # toggles must be right for each of them
        exp_o_alts = [list(exp_o)]
        if bk is not None:
            rights, table, problems = bk
            from itertools import product
            names = [n.replace("get_", "is_") for n in rights]
            free = [n for n in names if n not in preds]
            exp_o_alts = []
            for comp in product((False, True), repeat=len(free)):
                full_preds = dict(preds)
                full_preds.update(dict(zip(free, comp)))
                assign = tuple(bool(full_preds.get(n, False)) for n in names)
                row = table.get(assign, {})
                alt = list(exp_o)
                for (ridx, flag), eff in row.items():
                    if eff == "set-false":
                        alt.append(("right", "mover" if ridx == "1" else "opponent", flag))
                exp_o_alts.append((alt, full_preds))
        else:
            exp_o_alts = [(list(exp_o), dict(preds))]
        bad_alt = [(alt, fp) for alt, fp in exp_o_alts if sorted(alt, key=repr) != others]
        if bad_alt:
            exp_o, preds_show = bad_alt[0]
        else:
            exp_o, preds_show = exp_o_alts[0]
        ok_other = not bad_alt
        # pawn delta: the pawn / side / e.p. part of the full delta
        exp_pawn = sorted([x for x in got_p if x[2] == ("const", PAWN)] + [x for x in exp_o if x[0] in ("side", "ep")], key=repr)
        got_pawn = sorted([(("piece", x[1], x[2], FX.base_name_sq(x[3])) if x[0] == "piece" else x) for x in pawn], key=repr)
        ok_pawn = exp_pawn == got_pawn
        key = (sub, ok_piece, ok_other, ok_pawn, tuple(sorted(preds.items())) if not ok_other else None, "ne:get_previous_en_passant_square" in eqs, "ne:get_next_en_passant_square" in eqs)
        if key in seen:
            continue
        seen[key] = True
        label = "%s|moved=%s|attacked=%s|ep:%d%d|rights:%s" % (":".join(map(str, cls)), sub[1], sub[2], "ne:get_previous_en_passant_square" in eqs, "ne:get_next_en_passant_square" in eqs,
                                                               "".join("1" if preds.get(n.replace("get_", "is_"), False) else "0" for n in (bk[0] if bk else [])))
        ok = ok_piece and ok_other and ok_pawn
        if not ok and not got_p and not others and not pawn:
            # nothing at all was read off zobrist_xor on this path: the delta is not built as a xor chain of table
            # reads this rule can follow (folded over an array of terms, say). A zobrist_xor that really toggled
            # nothing would not get past the repository's own incremental-vs-recomputed test.
            if not seen.get("lost-empty"):
                seen["lost-empty"] = True
                ctx.lost(rid, "the keys zobrist_xor toggles (no table read found in the returned delta)")
            continue
        msg = ""
        if not ok_piece:
            msg += "piece-square keys toggled %s, but make changes %s; " % (sorted(map(lambda x: (x[1], x[2][1], x[3]), got_p), key=repr), sorted(map(lambda x: (x[1], x[2][1], x[3]), exp), key=repr))
        if not ok_other:
            msg += "side/e.p./rights keys toggled %s, but for a move with %s make clears rights so that %s is expected; " % (others, {k: v for k, v in preds_show.items() if v}, sorted(exp_o, key=repr))
        if not ok_pawn:
            msg += "pawn delta toggles %s, expected the pawn/side/e.p. part %s" % (got_pawn, exp_pawn)
        ctx.ob(rid, label, ok, "" if ok else "zobrist_xor, move kind %s: %s" % (cls, msg), ctx.where(f),
               sample={"kind": list(cls), "piece_toggles": len(got_p), "other_toggles": [list(map(str, o)) for o in others]} if len([s_ for s_ in ctx.samples if s_.get("rule") == rid]) < 4 else None)
    ctx.extra["zobrist_xor_paths"] = nx
    ctx.assumptions += ["a castling move's source square is the king's home square (only castle_moves sets the castle flag: C01.R1)",
                        "the side recorded in the move equals the side to move when it was generated (make_move: set_side_to_move(self.turn), C02.R3)"]
