"""C14 structural rules R2-R3: SAN reader tables vs. piece constants / geometry / writer; uniqueness of the parse."""
from ..cfg import Cfg
from ..expr import Exprs, fold, Unfoldable, show, leaves, subst
from .. import geometry as G
from .c15_struct import str_match_arms
from .common import BB

C = "inkayaku_core::constants::"


def letter_values(f):
    cfg, ex = Cfg(f), Exprs(f)
    out = []
    for kw, eqb, head, other in str_match_arms(f, cfg, ex):
        t = f["blocks"][head]["term"]
        val = None
        if t["k"] == "switch" and len(t["targets"]) == 1:
            val = ("switch", t["targets"][0][0])
        else:
            for s in f["blocks"][head]["stmts"]:
                if s["rv"]["op"] == "use" and s["rv"]["a"][0].get("k") == "const" and isinstance(s["rv"]["a"][0].get("v"), int) and not isinstance(s["rv"]["a"][0].get("v"), bool):
                    val = ("const", s["rv"]["a"][0]["v"])
        out.append((kw, val, f["blocks"][eqb]["term"]["line"]))
    return out


def is_length(x):
    """the number of elements of a list: Vec::len / slice len, or the slice length a slice pattern tests (PtrMetadata)"""
    if x[0] == "call" and x[1].endswith("::len"):
        return True
    return x[0] in ("un", "cast") and "PtrMetadata" in str(x[1])


def run(ctx):
    rid = "C14.R2"
    ctx.rule(rid, "SAN reader tables: piece / promotion letters map to the piece constants whose upper-case FEN letter they are (what the writer emits); file letters and rank digits map to the geometric file / rank masks; castling wings map to the c / g file", floor=30)
    prog = ctx.prog
    pieces = {c["value"]["index"]: c["value"] for k, c in prog.consts.items() if k.startswith(C + "piece::Piece::") and isinstance(c["value"], dict) and "fen" in c["value"]}
    closures = sorted(k for k in prog.children(BB + "pgn_to_bb") if prog.fns[k]["kind"] == "closure")
    if len(pieces) != 6 or len(closures) < 3:
        ctx.lost(rid, "Piece constants / closures of pgn_to_bb")
        return
    seen = {"piece": set(), "promotion": set(), "file": 0, "rank": 0}
    for ck in closures:
        f = prog.fns[ck]
        lv = letter_values(f)
        is_pawn_filter = any(kw in ("B", "N", "R", "Q") for kw, _, _ in lv) and not any(kw == "K" for kw, _, _ in lv)
        for kw, val, line in lv:
            tag = ck.rsplit("::", 1)[-1]
            if val is None:
                ctx.lost(rid, "value paired with %r in %s" % (kw, ck))
                continue
            if kw in "KQRBN" and val[0] == "switch":
                k = val[1]
                ok = k in pieces and pieces[k]["fen"].upper() == kw
                kind = "promotion" if is_pawn_filter else "piece"
                seen[kind].add(kw)
                ctx.ob(rid, "%s|%s-letter-%s" % (tag, kind, kw), ok, "" if ok else "SAN %s letter %r selects piece kind %s (%s); the writer emits %r for that kind" % (kind, kw, k, pieces.get(k, {}).get("name"), pieces.get(k, {}).get("fen", "?").upper()),
                       ctx.where(f, line), sample={"letter": kw, "piece": pieces.get(k, {}).get("name")})
            elif kw in "abcdefgh" and val[0] == "const":
                ok = val[1] == G.file_mask(ord(kw) - ord("a"))
                seen["file"] += 1
                ctx.ob(rid, "%s|file-%s" % (tag, kw), ok, "" if ok else "SAN file letter %r selects mask %#x, the %s-file is %#x" % (kw, val[1], kw, G.file_mask(ord(kw) - ord("a"))), ctx.where(f, line))
            elif kw in "12345678" and val[0] == "const":
                ok = val[1] == G.row_mask(8 - int(kw))
                seen["rank"] += 1
                ctx.ob(rid, "%s|rank-%s" % (tag, kw), ok, "" if ok else "SAN rank digit %r selects mask %#x, rank %s is %#x" % (kw, val[1], kw, G.row_mask(8 - int(kw))), ctx.where(f, line))
            else:
                ctx.lost(rid, "unrecognised SAN token arm %r -> %s in %s" % (kw, val, ck))
    ok = seen["piece"] == set("KQRBN") and seen["promotion"] == set("QRBN") and seen["file"] == 16 and seen["rank"] == 8
    absent = [c for c in ("piece", "promotion", "file", "rank") if not seen[c]]
    if absent and len(absent) < 4 and all((seen[c] == want) for c, want in (("piece", set("KQRBN")), ("promotion", set("QRBN")), ("file", 16), ("rank", 8)) if seen[c]):
        # a whole class of arms is not written as string comparisons in the filter closures any more (moved into a
        # lookup function, a table): what is there was judged arm by arm, the rest is not readable here
        ctx.lost(rid, "the %s arms of the SAN reader as string comparisons in pgn_to_bb's closures" % " / ".join(absent))
    else:
      ctx.ob(rid, "letter-sets", ok, "" if ok else "letters handled: pieces %s, promotions %s, file arms %d, rank arms %d" % (sorted(seen["piece"]), sorted(seen["promotion"]), seen["file"], seen["rank"]), "")
    # castling wing -> target file
    wing = None
    for ck in closures:
        f = prog.fns[ck]
        cfg, ex = Cfg(f), Exprs(f)
        for b in sorted(cfg.reach):
            t = f["blocks"][b]["term"]
            if t["k"] == "switch" and len(t["targets"]) == 1:
                d = ex.operand(t["discr"])
                names = [x[2] for x in leaves(d) if x[0] == "f"]
                if "long_castle" in names:
                    arms = {}
                    for nm, blk in (("long", t["otherwise"]), ("short", t["targets"][0][1])):
                        for s in f["blocks"][blk]["stmts"]:
                            if s["rv"]["op"] == "use" and s["rv"]["a"][0].get("k") == "const" and isinstance(s["rv"]["a"][0].get("v"), int):
                                arms[nm] = s["rv"]["a"][0]["v"]
                    wing = (arms, f, t["line"])
    if wing is None:
        ctx.lost(rid, "castling wing selection (long_castle) in pgn_to_bb")
    else:
        arms, f, line = wing
        ok = arms == {"long": G.file_mask(2), "short": G.file_mask(6)}
        ctx.ob(rid, "castle-wing-files", ok, "" if ok else "O-O-O / O-O select target files %s (expected c-file / g-file masks)" % {k: hex(v) for k, v in arms.items()}, ctx.where(f, line), sample={k: hex(v) for k, v in arms.items()})
    w = ctx.fn(rid, BB + "uci_to_pgn")
    strs = set()
    for b in w["blocks"]:
        for s in b["stmts"]:
            for a in s["rv"].get("a", []):
                if a.get("k") == "const" and isinstance(a.get("v"), str):
                    strs.add(a["v"])
    ok = {"O-O", "O-O-O", "x", "+", "#"} <= strs
    if not ok:
        # the writer assembles its text some other way (characters pushed one by one, a table): its literals are
        # not string constants of uci_to_pgn itself
        ctx.lost(rid, "the SAN writer's literals O-O, O-O-O, x, +, # as string constants of uci_to_pgn (found %s)" % sorted(strs))
    else:
      ctx.ob(rid, "writer-castling-strings", ok, "" if ok else "the SAN writer's string constants %s lack one of O-O, O-O-O, x, +, #" % sorted(strs), ctx.where(w))
    # ---- R3
    rid = "C14.R3"
    ctx.rule(rid, "pgn_to_bb returns Ok only when exactly one legal candidate remains", floor=1)
    f = ctx.fn(rid, BB + "pgn_to_bb")
    cfg, ex = Cfg(f), Exprs(f)
    oks = []
    for b in sorted(cfg.reach):
        for s in f["blocks"][b]["stmts"]:
            d = s["dst"]
            if d is not None and d["l"] == 0 and not d["p"] and s["rv"]["op"] == "agg" and s["rv"].get("variant") == "Ok":
                oks.append((b, s["line"]))
    if not oks:
        ctx.lost(rid, "Ok(..) result of pgn_to_bb")
        return
    for b, line in oks:
        good = False
        for (a, sb) in cfg.control_deps_transitive(b):
            sw = f["blocks"][a]["term"]
            if sw["k"] != "switch":
                continue
            d = ex.operand(sw["discr"])
            if d[0] == "bin" and d[1] in ("Ne", "Eq") and any(x[0] == "c" and x[1] == 1 for x in (d[2], d[3])) and any(is_length(x) for x in (d[2], d[3])):
                true_edge = sb == sw["otherwise"]
                good = good or (d[1] == "Ne" and not true_edge) or (d[1] == "Eq" and true_edge)
        ctx.ob(rid, "ok-only-for-one-candidate", good, "" if good else "pgn_to_bb can return Ok without testing that exactly one legal move matches", ctx.where(f, line))


def r4_disambiguation_candidates(ctx):
    """the like pieces considered for disambiguation are legal moves"""
    rid = "C14.R4"
    ctx.rule(rid, "the candidate set used for SAN disambiguation is filtered by legality on every accepting path of its filter predicates (a pinned like piece must not force a disambiguation)", floor=1)
    from .c13 import consulted_fields
    from ..paths import returning_paths, NotLoopFree
    prog = ctx.prog
    f = ctx.fn(rid, BB + "uci_to_pgn")
    ex = Exprs(f)
    # the chain  moves.into_iter().filter(..).filter(..).filter(..).collect()  feeding the disambiguation
    filters = []
    for b in f["blocks"]:
        t = b["term"]
        if not b["cleanup"] and t["k"] == "call" and (t["callee"].get("key") or "").endswith("Iterator::filter"):
            for a in t["args"]:
                tr = ex.operand(a)
                if tr[0] == "agg" and tr[1] == "closure":
                    filters.append(tr[2])
    if not filters:
        ctx.lost(rid, "filter closures over the candidate moves in uci_to_pgn")
        return
    # at least one filter predicate must require legality on every accepting path
    strict = []
    for ck in filters:
        g = prog.fns.get(ck)
        if g is None:
            continue
        try:
            pes = returning_paths(g)
        except NotLoopFree:
            continue
        acc = []
        for pe in pes:
            r = pe.ret()
            try:
                from ..expr import fold
                if fold(r) == 0:
                    continue
            except Exception:
                pass
            trees = [d for (d, c, b, ty) in pe.conds] + [r]
            legal = any(x[0] == "call" and x[1] in (BB + "is_move_legal",) for t in trees for x in leaves(t))
            acc.append(legal)
        if acc and all(acc):
            strict.append(ck)
    ok = bool(strict)
    ctx.ob(rid, "candidates-are-legal-moves", ok,
           "" if ok else "none of the %d filters that build the disambiguation candidate list requires Bitboard::is_move_legal on every accepting path: a like piece that is pinned (its move is illegal) is counted and forces a superfluous file/rank letter" % len(filters),
           ctx.where(f), sample={"filters": len(filters), "legality_filters": [s.rsplit("::", 1)[-1] for s in strict]})


_run_before_r4 = run


def run(ctx):
    _run_before_r4(ctx)
    r4_disambiguation_candidates(ctx)


def r5_disambiguation_table(ctx):
    """the writer's choice of disambiguation follows the SAN rule for every combination of its predicates"""
    rid = "C14.R5"
    ctx.rule(rid, "SAN disambiguation decision table of uci_to_pgn (piece moves): no other like piece reaches the square -> nothing; another one does and none shares the file -> file letter; one shares the file and none the rank -> rank digit; both shared -> file and rank. Extracted from all paths of the decision, predicates classified by what their closures compare", floor=5)
    from itertools import product
    prog = ctx.prog
    f = ctx.fn(rid, BB + "uci_to_pgn")
    cfg, ex = Cfg(f), Exprs(f)
    names = {int(k): v for k, v in f.get("names", {}).items()}
    sym = [l for l, n in names.items() if "disambiguation" in n]
    if len(sym) != 1:
        ctx.lost(rid, "the local holding the disambiguation text in uci_to_pgn (a `let` whose name contains `disambiguation`)")
        return
    L = sym[0]

    def value_class(callee, args):
        last = callee.rsplit("::", 1)[-1]
        flds = {x[2] for a in args for x in leaves(a) if x[0] == "f"}
        if last == "new" and "String" in callee:
            return "none"
        if last in ("to_string", "from", "into", "to_owned"):
            if "file" in flds and "rank" not in flds:
                return "file"
            if "rank" in flds and "file" not in flds:
                return "rank"
            if args and args[0][0] == "c" and args[0][1] == "":
                return "none"
        if last in ("must_use", "format"):
            if "file" in flds and "rank" in flds:
                return "both"
        return None

    defs = {}
    for b in sorted(cfg.reach):
        blk = f["blocks"][b]
        if blk["cleanup"]:
            continue
        t = blk["term"]
        if t["k"] == "call" and t.get("dest") and t["dest"]["l"] == L and not t["dest"]["p"]:
            defs[b] = value_class(t["callee"].get("key") or "", [ex.operand(a) for a in t["args"]])
        for s in blk["stmts"]:
            if s["dst"] is not None and s["dst"]["l"] == L and not s["dst"]["p"]:
                tv = ex.rvalue(s["rv"])
                defs[b] = value_class(tv[1], list(tv[2])) if tv[0] == "call" else None
    if len(defs) < 2 or any(v is None for v in defs.values()):
        ctx.lost(rid, "the arms assigning the disambiguation text (found %s)" % sorted(defs.items()))
        return
    # entry of the decision: the deepest switch that dominates every arm
    doms = [b for b in sorted(cfg.reach) if f["blocks"][b]["term"]["k"] == "switch" and all(cfg.dominates(b, d) for d in defs)]
    entry = None
    for b in doms:
        if all(cfg.dominates(o, b) for o in doms):
            entry = b
    if entry is None:
        ctx.lost(rid, "a single switch dominating all disambiguation arms")
        return

    def closure_kind(ck):
        g = prog.fns.get(ck)
        if g is None:
            return None
        eqs = set()
        for b in g["blocks"]:
            t = b["term"]
            if t["k"] == "call":
                k = t["callee"].get("key") or ""
                last = k.rsplit("::", 1)[-1]
                if last == "eq" and "Rank" in k:
                    eqs.add("rank")
                if last == "eq" and "File" in k:
                    eqs.add("file")
        if eqs == {"rank"}:
            return "share_rank"
        if eqs == {"file"}:
            return "share_file"
        if not eqs:
            return "exists"
        return None

    def classify(d):
        """(atom, tree-true-means-atom-true)"""
        if d[0] == "un" and d[1] == "Not":
            a = classify(d[2])
            return (a[0], not a[1]) if a else None
        if d[0] == "call":
            last = d[1].rsplit("::", 1)[-1]
            if last == "any":
                for a in d[2]:
                    if a[0] == "agg" and a[1] == "closure":
                        k = closure_kind(a[2])
                        return (k, True) if k else None
            if last == "eq" and "Piece" in d[1]:
                from ..expr import resolve_promoted
                if any(x[0] == "c" and "PAWN" in str(x[3] or x[1]) for a in d[2] for x in leaves(resolve_promoted(prog, a))):
                    return ("is_pawn", True)
            if last == "is_empty":
                return ("exists", False)
        if d[0] == "bin" and d[1] in ("Gt", "Ge", "Ne", "Eq", "Lt", "Le"):
            lens = [x for x in leaves(d) if x[0] == "call" and x[1].rsplit("::", 1)[-1] in ("len", "count")]
            if len(lens) == 1:
                try:
                    one = fold(subst(d, {lens[0]: ("c", 1, "usize", None)}))
                    two = fold(subst(d, {lens[0]: ("c", 2, "usize", None)}))
                    if bool(one) != bool(two):
                        return ("exists", bool(two))
                except Unfoldable:
                    return None
        if d[0] == "discr" or (d[0] == "call" and d[1].endswith("discriminant_value")):
            if any(x[0] == "c" and "PAWN" in str(x[3] or "") for x in leaves(d)):
                return ("is_pawn", True)
        return None

    rows = []     # ({atom: bool}, class)
    stack = [(entry, {}, [entry])]
    unknown = []
    while stack:
        b, asg, path = stack.pop()
        if b in defs:
            rows.append((asg, defs[b]))
            continue
        t = f["blocks"][b]["term"]
        succs = [x for x in cfg.succ[b] if not f["blocks"][x]["cleanup"]]
        if t["k"] == "switch":
            d = ex.operand(t["discr"])
            c = classify(d)
            if c is None:
                unknown.append(show(d)[:100])
                continue
            for x in sorted(set(succs)):
                truth = (x == t["otherwise"])
                val = truth if c[1] else not truth
                if c[0] in asg and asg[c[0]] != val:
                    continue
                a2 = dict(asg)
                a2[c[0]] = val
                if x not in path:
                    stack.append((x, a2, path + [x]))
        else:
            for x in succs:
                if x not in path:
                    stack.append((x, asg, path + [x]))
    if unknown or not rows:
        ctx.lost(rid, "a predicate of the disambiguation decision could not be classified: %s" % sorted(set(unknown))[:2])
        return
    atoms = sorted({a for asg, _ in rows for a in asg})
    ctx.ob(rid, "predicates", {"share_file", "share_rank"} <= set(atoms), "" if {"share_file", "share_rank"} <= set(atoms) else "the decision does not consult both `another candidate on the same file` and `... on the same rank` (found %s)" % atoms,
           ctx.where(f), sample={"predicates": atoms, "rows": len(rows)})
    want = {(False, False, False): "none", (True, False, False): "file", (True, False, True): "file", (True, True, False): "rank", (True, True, True): "both"}
    LABEL = {(False, False, False): "no other like piece reaches the square", (True, False, False): "another like piece reaches the square and shares neither file nor rank (knights b1 and f3 to d2)",
             (True, False, True): "another one shares the rank only", (True, True, False): "another one shares the file only", (True, True, True): "others share the file and the rank"}
    for (exists, sf, sr), cls in sorted(want.items()):
        got = set()
        for asg, c in rows:
            if asg.get("is_pawn", False):
                continue
            if asg.get("share_file", sf) != sf or asg.get("share_rank", sr) != sr or asg.get("exists", exists) != exists:
                continue
            got.add(c)
        ok = got == {cls}
        ctx.ob(rid, "row|exists=%d,file=%d,rank=%d" % (exists, sf, sr), ok,
               "" if ok else "piece move, %s: uci_to_pgn writes %s, the SAN rule requires %s%s" % (
                   LABEL[(exists, sf, sr)], sorted(got) or "nothing decidable", cls,
                   " (the decision never asks whether another candidate exists at all)" if "exists" not in atoms and (exists, sf, sr) == (True, False, False) else ""),
               ctx.where(f), sample={"writes": sorted(got), "expected": cls})


_run_before_r5 = run


def run(ctx):
    _run_before_r5(ctx)
    r5_disambiguation_table(ctx)


def r6_pattern_groups(ctx):
    """the SAN reader decides by the named groups of its pattern, and every component of SAN has one"""
    rid = "C14.R6"
    ctx.rule(rid, "the SAN pattern defines a named group for every component (piece, from_file, from_rank, takes, target, promotion, castle, long_castle), pgn_to_bb asks for exactly names the pattern defines, and no decision is taken on the text of the whole match (which includes the check / annotation suffix)", floor=3)
    import re
    prog = ctx.prog
    ks = [k for k in prog.fns if k.endswith("::_construct_pgn_regex")]
    if len(ks) != 1:
        ctx.lost(rid, "_construct_pgn_regex")
        return
    cf = prog.fns[ks[0]]
    cex = Exprs(cf)
    pattern = None
    for b in cf["blocks"]:
        t = b["term"]
        if t["k"] == "call" and (t["callee"].get("key") or "").endswith("Regex::new"):
            tr = cex.operand(t["args"][0])
            for x in leaves(tr):
                if x[0] == "c" and isinstance(x[1], str):
                    pattern = x[1]
    if pattern is None:
        ctx.lost(rid, "the pattern literal given to Regex::new")
        return
    defined = set(re.findall(r"\(\?P<([A-Za-z_][A-Za-z_0-9]*)>", pattern))
    f = ctx.fn(rid, BB + "pgn_to_bb")
    used = set()
    whole = []
    # pgn_to_bb, its closures, and whatever workspace functions it reaches that take the captures (the reader may be
    # split into helpers that are handed to iterator adaptors by name)
    fns = [f] + [g for k, g in prog.fns.items() if k.startswith(BB + "pgn_to_bb::")]
    fns += [g for k, g in prog.fns.items() if k.startswith("inkayaku_board::") and g not in fns and not g.get("test") and any(
        bb_["term"]["k"] == "call" and (bb_["term"]["callee"].get("key") or "").endswith("Captures::name") for bb_ in g["blocks"])]
    for g in fns:
        gex = Exprs(g)
        for b in g["blocks"]:
            t = b["term"]
            if b["cleanup"] or t["k"] != "call":
                continue
            k = t["callee"].get("key") or ""
            if k.endswith("Captures::name"):
                for x in leaves(gex.operand(t["args"][1])):
                    if x[0] == "c" and isinstance(x[1], str):
                        used.add(x[1])
            if "Captures" in k and (k.endswith("::index") or k.endswith("Captures::get")):
                whole.append(t["line"])
    need = {"piece", "from_file", "from_rank", "takes", "target", "promotion", "castle", "long_castle"}
    miss = sorted(need - defined)
    ctx.ob(rid, "pattern|component-groups", not miss, "" if not miss else "the SAN pattern has no named group for %s: that component of the notation cannot be told apart by the reader" % miss,
           "%s:%d" % (cf["file"], cf["line"]), sample={"defined": sorted(defined)})
    undefined = sorted(used - defined)
    unused = sorted((need & defined) - used)
    ok = not undefined and not unused
    if not undefined and unused and not used:
        ctx.lost(rid, "where the SAN reader consults the named groups of its pattern (no Captures::name call with a constant found)")
        ok = None
    if ok is not None:
      ctx.ob(rid, "reader|asks-for-defined-groups", ok,
           "" if ok else "pgn_to_bb %s%s" % (("asks for groups the pattern does not define %s (always absent). " % undefined) if undefined else "", ("never consults the groups %s" % unused) if unused else ""),
           ctx.where(f), sample={"used": sorted(used)})
    ctx.ob(rid, "reader|no-decision-on-whole-match", not whole,
           "" if not whole else "pgn_to_bb indexes the captures by number: the text of the whole match (or of a numbered group) includes optional suffixes such as '+', '#', '!' and is not a component of the notation; compare named groups instead",
           ctx.where(f, whole[0] if whole else None))


_run_before_r6 = run


def run(ctx):
    _run_before_r6(ctx)
    r6_pattern_groups(ctx)


def r7_reader_structure(ctx):
    """the SAN reader judges uniqueness over legal moves only and has no exit besides its reviewed ones"""
    rid = "C14.R7"
    ctx.rule(rid, "pgn_to_bb decides on the legal moves: the list whose length is compared with 1 has passed an is_move_legal filter (or comes from generate_legal_moves with no pseudo-legal generator in the function), and the function's result is assigned only at the three reviewed sites (pass-through of the text-level error, candidate count != 1, the unique candidate): no early rejection based on the board", floor=3)
    from .c08 import _atoms
    prog = ctx.prog
    f = ctx.fn(rid, BB + "pgn_to_bb")
    cfg, ex = Cfg(f), Exprs(f)
    calls = [(b, f["blocks"][b]["term"]["callee"].get("key") or "") for b in sorted(cfg.reach) if f["blocks"][b]["term"]["k"] == "call" and not f["blocks"][b]["cleanup"]]
    legal_gen = [b for b, k in calls if k == BB + "generate_legal_moves"]
    pseudo_gen = [b for b, k in calls if k.startswith(BB + "generate_pseudo_legal")]
    lens = [b for b, k in calls if k.endswith("Vec::len") or k.endswith("::len")]
    # filters whose closure probes legality
    legal_filters = []
    for b, k in calls:
        if k.endswith("Iterator::filter"):
            for a in f["blocks"][b]["term"]["args"]:
                tr = ex.operand(a)
                if tr[0] == "agg" and tr[1] == "closure":
                    g = prog.fns.get(tr[2])
                    if g and any(t["k"] == "call" and (t["callee"].get("key") or "") == BB + "is_move_legal" for t in (bb_["term"] for bb_ in g["blocks"])):
                        legal_filters.append(b)
    count_tests = []
    for b in sorted(cfg.reach):
        t = f["blocks"][b]["term"]
        if t["k"] == "switch":
            d = ex.operand(t["discr"])
            if d[0] == "bin" and d[1] in ("Ne", "Eq") and any(x[0] == "c" and x[1] == 1 for x in (d[2], d[3])) and any(is_length(x) for x in list(leaves(d)) + [d[2], d[3]]):
                count_tests.append(b)
    if not count_tests:
        ctx.lost(rid, "the test that exactly one candidate remains (a comparison of a length with 1)")
        return
    ok = bool(count_tests) and all(any(cfg.dominates(lf, ct) for lf in legal_filters) or (legal_gen and not pseudo_gen and any(cfg.dominates(g_, ct) for g_ in legal_gen)) for ct in count_tests)
    ctx.ob(rid, "uniqueness-over-legal-moves", ok,
           "" if ok else "pgn_to_bb compares the number of candidates with 1 before the candidates are known to be legal (no is_move_legal filter dominates the test, and the list comes from the pseudo-legal generator): a pinned like piece makes correct SAN 'ambiguous'",
           ctx.where(f), sample={"count_tests": len(count_tests), "legal_filters": len(legal_filters), "legal_generator": len(legal_gen), "pseudo_generator": len(pseudo_gen)})
    REVIEWED = {"[discr,local]": "the text did not match the pattern / no component group: the text-level error is passed on",
                "[call:Vec::len,cmp]": "not exactly one legal candidate / the unique legal candidate"}
    ALLOWED = {"call:Vec::len", "call:Vec::is_empty", "call:slice::len", "call:slice::is_empty"}
    STRUCTURAL = lambda a: a in ("cmp", "discr", "local") or a.startswith(("op:", "const:", "agg:"))
    seen = set()
    for b in sorted(cfg.reach):
        blk = f["blocks"][b]
        if blk["cleanup"]:
            continue
        for s in blk["stmts"]:
            d = s["dst"]
            if d is None or d["l"] != 0 or d["p"]:
                continue
            gs, atoms = [], set()
            for (a, sb) in sorted(cfg.control_deps().get(b, ())):
                sw = f["blocks"][a]["term"]
                if sw["k"] == "switch":
                    dd = ex.operand(sw["discr"])
                    atoms |= _atoms(dd)
                    gs.append("[" + ",".join(sorted(_atoms(dd))) + "]")
            key = " & ".join(sorted(set(gs))) or "-"
            if key in seen:
                continue
            seen.add(key)
            # an answer decided by something other than the pattern match and the number of legal candidates
            BOARD = ("call:Bitboard::", "call:PlayerState::", "call:Move::", "field:occupancy", "field:white", "field:black", "field:turn", "field:en_passant_square_shift", "field:king_side_castle", "field:queen_side_castle")
            TEXT = ("call:Captures::", "call:Regex::", "call:Match::", "call:str::", "call:String::", "call:Lazy", "call:char::")
            other = sorted(a for a in atoms if not STRUCTURAL(a) and a not in ALLOWED and not a.startswith(TEXT))
            foreign = [a for a in other if a.startswith(BOARD)]
            if other and not foreign and key not in REVIEWED:
                ctx.lost(rid, "a result of pgn_to_bb assigned under a test of %s (neither the text of the move nor, as far as this rule can tell, the board)" % other)
                continue
            ok = key in REVIEWED or not foreign
            ctx.ob(rid, "result-site|%s" % key, ok,
                   "" if ok else "pgn_to_bb assigns its result under a test of %s, which none of its reviewed exits uses: an early answer that depends on the board (for example 'a capture needs a piece on the target square') rejects standard SAN such as an en-passant capture" % foreign,
                   ctx.where(f, s["line"]), sample={"guard": key, "reason": REVIEWED.get(key, "")})


_run_before_r7 = run


def run(ctx):
    _run_before_r7(ctx)
    r7_reader_structure(ctx)


def r8_both_hints_honoured(ctx):
    """a piece move written with a source file and a source rank (Qh4e1) names one piece: the filter must apply both"""
    rid = "C14.R8"
    ctx.rule(rid, "the SAN reader's piece-move filter accepts a candidate only on paths that looked at both source hints (file letter and rank digit): every accepting path tests from_file and from_rank (absent, or the source square against its mask)", floor=1)
    from ..paths import returning_paths, NotLoopFree
    prog = ctx.prog
    closures = sorted(k for k in prog.children(BB + "pgn_to_bb") if prog.fns[k]["kind"] == "closure")

    def mentions(tree, acc):
        if not isinstance(tree, tuple):
            return
        if tree and tree[0] == "f" and tree[2] in ("from_file", "from_rank"):
            acc.add(tree[2])
        for x in tree:
            if isinstance(x, tuple):
                mentions(x, acc)
    target = []
    for ck in closures:
        g = prog.fns[ck]
        ex = Exprs(g)
        seen = set()
        for b in g["blocks"]:
            for s in b["stmts"]:
                mentions(ex.rvalue(s["rv"], None), seen)
            t = b["term"]
            if t["k"] == "call":
                for a in t["args"]:
                    mentions(ex.operand(a), seen)
        if seen == {"from_file", "from_rank"}:
            target.append(ck)
    if len(target) != 1:
        ctx.lost(rid, "the filter closure of pgn_to_bb that captures from_file and from_rank (found %d)" % len(target))
        return
    g = prog.fns[target[0]]
    try:
        pes = returning_paths(g, limit=300000)
    except (NotLoopFree, OverflowError) as e:
        ctx.lost(rid, "paths of the piece-move filter (%s)" % e)
        return
    bad = {}
    n_acc = 0
    for pe in pes:
        r = pe.ret()
        if r[0] == "c" and r[1] in (False, 0):
            continue
        n_acc += 1
        seen = set()
        for (d, c, b, ty) in pe.conds:
            mentions(d, seen)
        mentions(r, seen)
        for h in ("from_file", "from_rank"):
            if h not in seen:
                bad[h] = bad.get(h, 0) + 1
    if n_acc == 0:
        ctx.lost(rid, "an accepting path of the piece-move filter")
        return
    for h in ("from_file", "from_rank"):
        ok = h not in bad
        ctx.ob(rid, "piece-filter|%s-looked-at" % h, ok,
               "" if ok else "%d accepting path(s) of the piece-move filter never look at %s: a move is accepted although the %s written in the SAN does not match (with both hints given, Qh4e1, two pieces then match and the move is rejected as ambiguous - or the wrong one is played)" % (bad[h], h, "source rank" if h == "from_rank" else "source file"),
               ctx.where(g), sample={"accepting_paths": n_acc, "paths": len(pes)})


_run_before_r8 = run


def run(ctx):
    _run_before_r8(ctx)
    r8_both_hints_honoured(ctx)


def r9_written_piece_letters_are_white(ctx):
    """SAN piece letters are upper case for both colours"""
    rid = "C14.R9"
    ctx.rule(rid, "the piece letters uci_to_pgn writes (leading letter, promotion suffix) are the letters of white pieces: the ColoredPiece whose `fen` is formatted comes from to_white / to_color(WHITE) of the move's piece kind, not from a piece looked up on the board (a black piece's letter is lower case: `c1=q` is not SAN and the reader rejects it)", floor=1)
    prog = ctx.prog
    f = ctx.fn(rid, BB + "uci_to_pgn", positional=False)
    ex = Exprs(f)
    scope = [BB + "uci_to_pgn"] + sorted(k for k in prog.fns if k.startswith(BB + "uci_to_pgn::"))

    def reads_fen_of_param(g):
        for bb in g["blocks"]:
            pls = [s["rv"]["place"] for s in bb["stmts"] if "place" in s["rv"]] + [a["pl"] for s in bb["stmts"] for a in s["rv"].get("a", []) if a.get("k") in ("copy", "move")]
            for pl in pls:
                if pl["l"] == 2 and any(isinstance(e, dict) and e.get("name") == "fen" and "ColoredPiece" in str(e.get("of")) for e in pl["p"]):
                    return True
        return False

    def calls_of(key):
        g = prog.fns.get(key)
        return [(b["term"]["callee"].get("key") or "") for b in (g["blocks"] if g else []) if b["term"]["k"] == "call" and not b["cleanup"]]

    n = 0
    for bb in f["blocks"]:
        t = bb["term"]
        if t["k"] != "call" or bb["cleanup"]:
            continue
        args = [ex.operand(a) for a in t["args"]]
        cls_ = [a for a in args if a[0] == "agg" and a[1] == "closure" and prog.fns.get(a[2]) and reads_fen_of_param(prog.fns[a[2]])]
        if not cls_ or not args:
            continue
        # where does the piece whose letter is formatted come from: calls in the receiver's tree, closures included
        sources, seen = [], set()

        def walk(x, depth=0):
            if not isinstance(x, tuple) or depth > 10:
                return
            if x[0] == "call":
                sources.append(x[1])
                for y in x[2]:
                    walk(y, depth + 1)
            elif x[0] == "agg":
                if x[1] == "closure":
                    sources.extend(calls_of(x[2]))
                for y in x[3]:
                    walk(y, depth + 1)
            elif x[0] == "local":
                if x[1] in seen:
                    return
                seen.add(x[1])
                for dfn in ex.defs.get(x[1], ()):
                    if dfn[0] == "stmt":
                        walk(ex.rvalue(dfn[3]), depth + 1)
                    elif dfn[0] == "call":
                        tt = dfn[3]
                        walk(("call", tt["callee"].get("key") or "?", tuple(ex.operand(a_) for a_ in tt["args"]), ""), depth + 1)
            elif x[0] in ("&", "*", "f", "dc", "cast"):
                walk(x[1] if x[0] != "cast" else x[2], depth + 1)
        walk(args[0])
        n += 1
        whitened = any(s.rsplit("::", 1)[-1] in ("to_white", "to_color", "to_ascii_uppercase", "to_uppercase") for s in sources)
        from_board = [s for s in sources if s.startswith(BB) and "piece" in s.rsplit("::", 1)[-1]]
        if from_board and not whitened:
            ctx.ob(rid, "letter|from-a-white-piece", False,
                   "uci_to_pgn formats the `fen` letter of a piece it looked up on the board (%s) without making it white: for a black piece the letter is lower case, so black promotions are written `c1=q` - not SAN, and pgn_to_bb rejects the text the writer produced" % ", ".join(sorted({s.rsplit("::", 1)[-1] for s in from_board})),
                   ctx.where(f, t["line"]))
        elif whitened:
            ctx.ob(rid, "letter|from-a-white-piece", True, "", ctx.where(f, t["line"]))
        else:
            ctx.lost(rid, "where the piece whose letter uci_to_pgn formats comes from")
    if not n:
        ctx.lost(rid, "a closure of uci_to_pgn that formats a ColoredPiece's letter")


_run_before_r9_letters = run


def run(ctx):
    _run_before_r9_letters(ctx)
    r9_written_piece_letters_are_white(ctx)


def r10_grammar_classes_disjoint(ctx):
    """a leading letter is a piece letter or a file letter, never both"""
    rid = "C14.R10"
    ctx.rule(rid, "in the SAN grammar the piece-letter class and the file-letter class are disjoint (and the piece / promotion classes contain exactly the letters the writer emits): a letter in both is taken as the piece by the optional group, so `bxc3` is read as a bishop move", floor=1)
    import re
    prog = ctx.prog
    pats = set()
    for k, f in prog.fns.items():
        if not k.startswith("inkayaku_board::") or f.get("test"):
            continue
        for bb in f["blocks"]:
            ops = [a for s in bb["stmts"] for a in s["rv"].get("a", [])] + list(bb["term"].get("args") or [])
            for a in ops:
                if a.get("k") == "const" and isinstance(a.get("v"), str) and "(?P<piece>" in a["v"]:
                    pats.add((a["v"], k))
    if not pats:
        ctx.lost(rid, "the SAN grammar (a regex literal with a group named `piece`)")
        return
    for pat, k in sorted(pats):
        def cls(name):
            m = re.search(r"\(\?P<%s>\[([^\]]+)\]" % name, pat)
            if not m:
                return None
            out, s_ = set(), m.group(1)
            i = 0
            while i < len(s_):
                if i + 2 < len(s_) and s_[i + 1] == "-":
                    out |= {chr(c) for c in range(ord(s_[i]), ord(s_[i + 2]) + 1)}
                    i += 3
                else:
                    out.add(s_[i]); i += 1
            return out
        piece, ffile, promo = cls("piece"), cls("from_file"), cls("promotion")
        if piece is None or ffile is None:
            ctx.lost(rid, "the piece / from_file character classes of the SAN grammar")
            continue
        both = sorted(piece & ffile)
        ok = not both
        if ok and not (piece == set("BNRQK") and (promo is None or promo == set("BNRQ"))):
            ctx.lost(rid, "a SAN grammar whose piece / promotion classes are %s / %s (the writer emits BNRQK / BNRQ)" % ("".join(sorted(piece)), "".join(sorted(promo or []))))
            continue
        ctx.ob(rid, "grammar|piece-and-file-letters", ok,
               "" if ok else ("the SAN grammar accepts %s as a piece letter and as a file letter: the optional piece group takes it first, so a capture by the %s-pawn (`%sxc3`) is looked up among the moves of that piece - an error for correct SAN, or silently another move" % (both, both[0], both[0]) if both
                              else "the SAN grammar's piece class is %s and its promotion class %s; the writer emits exactly BNRQK / BNRQ" % (sorted(piece), sorted(promo or []))),
               ctx.where(prog.fns[k]), sample={"piece": "".join(sorted(piece)), "from_file": "".join(sorted(ffile))})


_run_before_r10_grammar = run


def run(ctx):
    _run_before_r10_grammar(ctx)
    r10_grammar_classes_disjoint(ctx)
