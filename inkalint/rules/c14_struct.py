def run(ctx):
    pass
