"""C03 — taking a move back restores the position exactly."""
from .common import run_balance, workspace_fns, table, BB
from . import movefields as MF
from .. import balance as B
from ..cfg import Cfg
from ..expr import Exprs, PathEval, show, leaves, Inliner, fold, subst, Unfoldable
from ..paths import returning_paths, NotLoopFree, cond_holds

SCOPE = "engine"
LEVEL = "other"
EXPLANATION = (
    "Static analysis of the resolved MIR. R1: the packed-move layout is derived from the Move getters; for every "
    "undo field (read by unmake) the paired setter's written expression is abstractly interpreted at bit level "
    "(may-be-one mask with integer widths): it must be able to reach every bit of the field. R2: make and unmake "
    "write the same set of board fields. R3: each castling-right flag that make clears under a predicate is set "
    "again by unmake under the same predicate for the same player role; castling un-does with swapped squares. "
    "R4: the value saved at generation (half-move clock, e.p. square) is the field unmake restores. R5: the "
    "probing helpers (is_move_legal, perft, ...) are balanced on all paths with the same move. Decided: these "
    "structural necessary conditions for every clock value and move; not decided: bitboard equality after "
    "make+unmake for every move kind.")


def r1_undo_width(ctx, fields, setters, pairing):
    rid = "C03.R1"
    ctx.rule(rid, "the setter of every undo field (read by unmake) can write every bit of that field: may(E) ⊇ mask (bit-level may-analysis with integer widths)", floor=2)
    used = MF.getter_callers(ctx, fields, BB + "unmake")
    if used is None:
        ctx.lost(rid, BB + "unmake", missing=True)
        return
    inv = {}
    for s, fld in pairing.items():
        inv.setdefault(fld, []).append(s)
    for fld in sorted(used):
        if fld not in inv:
            continue
        for sname in inv[fld]:
            s = setters[sname]
            e = s["tree"]
            if e[0] == "c":
                continue  # flag setter: writes exactly its mask
            may = MF.maybits(e, s["fn"])
            m = fields[fld]["mask"]
            ok = may is not None and (may & m) == m
            ctx.ob(rid, "%s->%s" % (sname, fld), ok,
                   "" if ok else "Move::%s can only write bits %#x of the undo field %s (mask %#x): bits %#x can never be stored, so values >= %d are not restored by unmake; written expression: %s"
                   % (sname, (may or 0) & m, fld, m, m & ~(may or 0), 1 << (((may or 0) & m) >> fields[fld]["shift"]).bit_length(), show(e)),
                   "%s:%d" % (s["file"], s["line"]),
                   sample={"setter": sname, "field": fld, "mask": hex(m), "may_write": hex(may) if may is not None else None, "expr": show(e)})


def written_fields(ctx, key, rid):
    """names of Bitboard/PlayerState fields written by a function: direct assignments, through the players
    returned by get_active_and_passive_mut, and through *_ref accessors (= occupancy)"""
    f = ctx.fn(rid, key)
    out = set()
    ex = Exprs(f)
    for b in f["blocks"]:
        if b["cleanup"]:
            continue
        for s in b["stmts"]:
            d = s["dst"]
            if d is None or not d["p"]:
                continue
            names = [e["name"] for e in d["p"] if isinstance(e, dict) and "f" in e and (e.get("of") or "").startswith("inkayaku_board::board::")]
            if names and "deref" in d["p"]:
                out.add(names[-1])
        t = b["term"]
        if t["k"] == "call":
            k = t["callee"].get("key") or ""
            if k.startswith("inkayaku_board::board::PlayerState::") and k.endswith("_ref"):
                out.add("occupancy")
            if k in (BB + "make_castle", BB + "unmake_castle"):
                out.add("occupancy")
    return out


def r2_write_sets(ctx):
    rid = "C03.R2"
    ctx.rule(rid, "make and unmake write the same set of Bitboard/PlayerState fields (a field changed by make and never written by unmake is a forgotten restore)", floor=1)
    wm = written_fields(ctx, BB + "make", rid)
    wu = written_fields(ctx, BB + "unmake", rid)
    ok = wm == wu and len(wm) >= 5
    f = ctx.prog.fn(BB + "unmake")
    ctx.ob(rid, "make-vs-unmake", ok,
           "" if ok else "fields written by make only: %s; by unmake only: %s (both: %s)" % (sorted(wm - wu), sorted(wu - wm), sorted(wm & wu)),
           ctx.where(f), sample={"make": sorted(wm), "unmake": sorted(wu)})


def flag_assignments(ctx, key, rid, fields):
    """[(predicate field name, player role index, flag field name, value)] for assignments of a bool constant to a
    *_castle field that are control dependent on a Move rights predicate"""
    f = ctx.fn(rid, key)
    cfg, ex = Cfg(f), Exprs(f)
    getter_of = {v["getter"]: n for n, v in fields.items()}
    prog = ctx.prog
    pred_of = {}
    for k, g in prog.fns.items():
        if k.startswith(MF.MOVE) and k not in getter_of:
            called = [b["term"]["callee"].get("key") for b in g["blocks"] if b["term"]["k"] == "call"]
            gs = [getter_of[c] for c in called if c in getter_of]
            if len(gs) == 1 and len(called) == 1:
                pred_of[k] = gs[0]
    out = []
    for b in sorted(cfg.reach):
        for s in f["blocks"][b]["stmts"]:
            d = s["dst"]
            if d is None or not d["p"]:
                continue
            last = d["p"][-1]
            if not (isinstance(last, dict) and "f" in last and last["name"].endswith("_castle")):
                continue
            rv = s["rv"]
            if rv["op"] != "use" or rv["a"][0]["k"] != "const" or not isinstance(rv["a"][0].get("v"), bool):
                continue
            val = rv["a"][0]["v"]
            # which player: the tuple element of get_active_and_passive_mut the base reference came from
            base = ex.local(d["l"])
            role = None
            for x in leaves(base):
                if x[0] == "f" and x[1][0] == "call" and x[1][1].endswith("get_active_and_passive_mut"):
                    role = x[2]
            # predicate: the switch this block is control dependent on
            preds = []
            for (a, sblk) in cfg.control_deps().get(b, ()):
                t = f["blocks"][a]["term"]
                if t["k"] != "switch":
                    continue
                dtree = ex.operand(t["discr"])
                for x in leaves(dtree):
                    if x[0] == "call" and x[1] in pred_of:
                        # taken on the non-zero (true) edge?
                        true_edge = sblk == t["otherwise"] if t["targets"] and t["targets"][0][0] == 0 else None
                        preds.append((pred_of[x[1]], true_edge))
            out.append({"pred": preds, "role": role, "flag": last["name"], "value": val, "line": s["line"]})
    return out, f


def bookkeeping_table(ctx, key, rid, fields):
    """truth table of the castling-right bookkeeping of make / unmake: for every assignment of the four rights
    predicates of the move, the effect on each (tuple element, flag) field: 'set-true' / 'set-false' / 'unchanged'.
    Built from ALL paths of the (loop-free) function, so any way of writing the update is understood."""
    from ..paths import returning_paths, NotLoopFree
    from ..expr import fold, Unfoldable, subst
    from itertools import product
    prog = ctx.prog
    f = ctx.fn(rid, key)
    getter_of = {v["getter"]: n for n, v in fields.items()}
    pred_of = {}
    for k, g in prog.fns.items():
        if k.startswith(MF.MOVE) and k not in getter_of:
            called = [b["term"]["callee"].get("key") for b in g["blocks"] if b["term"]["k"] == "call"]
            gs = [getter_of[c] for c in called if c in getter_of]
            if len(gs) == 1 and len(called) == 1:
                pred_of[k] = gs[0]
    rights = sorted(n for n in fields if "lost" in n)
    if len(rights) != 4:
        return None, f, "four rights-lost fields (found %s)" % rights
    # decision table over the move's bits (inkalint/semtable.py): the four rights-lost flags in all 16 combinations,
    # with and without the castle-move mark; getters and predicates of Move are resolved to expressions over the bits
    from ..semtable import explore, evaluate, TooBig, NeedVar, Opaque
    from ..slice import Slicer
    from ..expr import Inliner
    masks = [fields[n]["mask"] for n in rights]
    extra = [v["mask"] for n, v in fields.items() if "castle_move" in n][:1]
    # a plausible move underneath the flags (e2-e4 by a white pawn, no e.p. squares): assertions of generator
    # invariants such as `source != target` must not rule the whole table out
    base = 0
    no_sq = prog.const_value("inkayaku_board::board::constants::NO_SQUARE")
    for name_, val_ in (("get_source_square", 52), ("get_target_square", 36), ("get_piece_moved", 1),
                        ("get_previous_en_passant_square", no_sq), ("get_next_en_passant_square", no_sq)):
        fl = fields.get(name_)
        if fl is not None and isinstance(val_, int):
            base |= (val_ << fl["shift"]) & fl["mask"]
    dom = []
    for assign in product((0, 1), repeat=4):
        v = base | sum(m for m, on in zip(masks, assign) if on)
        dom.append(v)
        for e in extra:
            dom.append(v | (e & -e))
    def var_of(t):
        if t[0] == "f" and t[2] == "bits":
            return "bits"
        return None
    seeds = []
    for bi, blk in enumerate(f["blocks"]):
        for st in blk["stmts"]:
            d = st["dst"]
            if d is not None and d["p"] and isinstance(d["p"][-1], dict) and str(d["p"][-1].get("name", "")).endswith("_castle"):
                seeds.append(bi)
    if not seeds:
        return None, f, "assignments to the castling-right flags in %s" % f["display"]
    sl = Slicer(f)
    sl.backward_from_blocks(seeds)
    inl = Inliner(prog, only=lambda k: k.startswith(MF.MOVE))
    try:
        lvs = explore(f, var_of, {"bits": dom}, inliner=inl, relevant=set(sl.last_blocks), max_leaves=20000)
    except TooBig as e:
        return None, f, "decision table of %s (%s)" % (f["display"], e)
    table = {}
    problems, opaque = [], []
    for lf in lvs:
        eff = {}
        for place, val, b in lf.pe.writes:
            if place[0] == "f" and place[2].endswith("_castle"):
                owner = place[1]
                role = None
                for x in leaves(owner):
                    if x[0] == "f" and x[1][0] == "call" and x[1][1].endswith("get_active_and_passive_mut"):
                        role = x[2]
                eff[(role, place[2])] = (place, val)
        for bits in ([lf.env["bits"]] if "bits" in lf.env else dom):
            if bits not in dom[::(2 if extra else 1)] and "bits" not in lf.env:
                continue
            assign = tuple(bool(bits & m) for m in masks)
            row = {}
            for (role, flag), (place, val) in eff.items():
                res = []
                for old in (0, 1):
                    def vo(t, place=place):
                        if t == place:
                            return "old"
                        return var_of(t)
                    try:
                        res.append(evaluate(val, vo, {"bits": bits, "old": old}) & 1)
                    except (Opaque, NeedVar):
                        res.append(None)
                row[(role, flag)] = {(0, 0): "set-false", (1, 1): "set-true", (0, 1): "unchanged"}.get(tuple(res), "other:%s" % (res,))
            key_a = tuple(assign)
            if key_a in table and table[key_a] != row:
                a = dict(zip(rights, assign))
                msg = "the effect on the castling rights for predicate values %s depends on something else: %s vs %s" % (a, table[key_a], row)
                (opaque if lf.opaque else problems).append(msg)
            table.setdefault(key_a, row)
    if len(table) != 16:
        problems.append("only %d of 16 predicate assignments are covered by paths" % len(table))
    if opaque and not problems:
        return None, f, "castling-right bookkeeping of %s under a condition the table cannot evaluate" % f["display"]
    return (rights, table, problems), f, None


def r3_flag_mirror(ctx, fields):
    rid = "C03.R3"
    ctx.rule(rid, "for every assignment of the move's four rights-lost predicates: make clears exactly the flags whose predicate holds, and unmake sets exactly the same flags (same player relative to the turn switch) again - full truth table over all paths", floor=16)
    tm, fm, err1 = bookkeeping_table(ctx, BB + "make", rid, fields)
    tu, fu, err2 = bookkeeping_table(ctx, BB + "unmake", rid, fields)
    if tm is None or tu is None:
        ctx.lost(rid, "castling-right bookkeeping of make/unmake: %s" % (err1 or err2))
        return
    rights, table_m, prob_m = tm
    _, table_u, prob_u = tu
    for p_ in prob_m + prob_u:
        ctx.ob(rid, "deterministic", False, p_, ctx.where(fu))
    if prob_m or prob_u:
        return

    def turn_flipped_before_players(f):
        cfg = Cfg(f)
        flip_b = players_b = None
        for b in sorted(cfg.reach):
            for s in f["blocks"][b]["stmts"]:
                d = s["dst"]
                if d is not None and d["p"] and isinstance(d["p"][-1], dict) and d["p"][-1].get("name") == "turn":
                    flip_b = b if flip_b is None else flip_b
            t = f["blocks"][b]["term"]
            if t["k"] == "call" and (t["callee"].get("key") or "").endswith("get_active_and_passive_mut"):
                players_b = b if players_b is None else players_b
        if flip_b is None or players_b is None:
            return None
        return cfg.dominates(flip_b, players_b)
    fl_m, fl_u = turn_flipped_before_players(fm), turn_flipped_before_players(fu)
    if fl_m is None or fl_u is None:
        ctx.lost(rid, "turn flip / get_active_and_passive_mut ordering in make or unmake")
        return
    mover_m = "1" if fl_m else "0"
    mover_u = "0" if fl_u else "1"

    def norm(row, mover):
        return {("mover" if role == mover else "opponent", flag): eff for (role, flag), eff in row.items() if eff != "unchanged"}
    cleared_by = {}
    for assign in sorted(table_m):
        a = dict(zip(rights, assign))
        rm, ru = norm(table_m[assign], mover_m), norm(table_u.get(assign, {}), mover_u)
        ok = all(v == "set-false" for v in rm.values()) and all(v == "set-true" for v in ru.values()) and set(rm) == set(ru)
        label = "".join("1" if x else "0" for x in assign)
        ctx.ob(rid, "row:%s" % label, ok,
               "" if ok else "a move with %s: make clears %s but unmake restores %s - after make+unmake the castling rights differ"
               % ({n.replace("get_", ""): v for n, v in a.items() if v}, sorted("%s.%s" % k for k in rm) or "nothing", sorted("%s.%s=%s" % (k[0], k[1], v) for k, v in ru.items()) or "nothing"),
               ctx.where(fu), sample={"predicates": a, "make_clears": sorted("%s.%s" % k for k in rm), "unmake_sets": sorted("%s.%s" % k for k in ru)} if sum(assign) == 1 else None)
        if sum(assign) == 1:
            n = [x for x, v in a.items() if v][0]
            cleared_by[n] = sorted(rm)
    # each predicate alone clears exactly one flag, the four are distinct, and combinations are the unions
    single = {n: v for n, v in cleared_by.items()}
    ok = all(len(v) == 1 for v in single.values()) and len({tuple(v) for v in single.values()}) == 4
    ctx.ob(rid, "four-distinct-rights", ok, "" if ok else "single predicates clear %s (expected one distinct (player, side) flag each)" % single, ctx.where(fm), sample={n: v for n, v in single.items()})
    if ok:
        for assign in sorted(table_m):
            a = dict(zip(rights, assign))
            want = sorted(single[n][0] for n, v in a.items() if v)
            got = sorted(norm(table_m[assign], mover_m))
            if want != got:
                ctx.ob(rid, "union:%s" % "".join("1" if x else "0" for x in assign), False, "make with %s clears %s, expected %s" % (a, got, want), ctx.where(fm))


def r3_castle_swap(ctx):
    rid = "C03.R3c"
    ctx.rule(rid, "unmake passes make's four constant castling masks per target square, and unmake_castle is make_castle with source and target swapped", floor=4)
    def arms(key, callee):
        f = ctx.fn(rid, key)
        ex = Exprs(f)
        out = {}
        cfg = Cfg(f)
        for b in sorted(cfg.reach):
            t = f["blocks"][b]["term"]
            if t["k"] == "call" and t["callee"].get("key") == callee:
                args = [ex.operand(a) for a in t["args"]]
                consts = tuple(a[1] for a in args if a[0] == "c" and isinstance(a[1], int))
                # target square constant of the arm: the switch value leading here
                tgt = None
                for (a, s) in cfg.control_deps().get(b, ()):
                    sw = f["blocks"][a]["term"]
                    if sw["k"] == "switch":
                        vals = [v for v, tb in sw["targets"] if tb == s]
                        if len(vals) == 1 and len(sw["targets"]) >= 4:
                            tgt = vals[0]
                out[tgt] = consts
        return out, f
    mk, fm = arms(BB + "make", BB + "make_castle")
    um, fu = arms(BB + "unmake", BB + "unmake_castle")
    if len(mk) != 4 or len(um) != 4:
        ctx.lost(rid, "four make_castle / unmake_castle arms (found %d/%d)" % (len(mk), len(um)))
        return
    for tgt in sorted(mk, key=str):
        ok = tgt in um and mk[tgt] == um[tgt] and len(mk[tgt]) == 2
        ctx.ob(rid, "castle-target:%s" % tgt, ok,
               "" if ok else "castle arm for target %s: make passes rook masks %s, unmake passes %s" % (tgt, mk.get(tgt), um.get(tgt)),
               ctx.where(fu), sample={"target_square": tgt, "rook_from_to_masks": [hex(x) for x in mk[tgt]]})
    # unmake_castle(p, a, b, c, d) must undo make_castle(p, a, b, c, d): same writes with and/or roles swapped
    def writes(key):
        f = ctx.fn(rid, key)
        p = MF.single_path(f)
        if p is None:
            return None, f
        pe = PathEval(f, p)
        return pe, f
    pm, fmk = writes(BB + "make_castle")
    pu, fuk = writes(BB + "unmake_castle")
    if pm is None or pu is None:
        ctx.lost(rid, "make_castle/unmake_castle are not straight-line")
        return

    def summary(pe):
        """[(accessor, 'set' | 'clear', (mask parameter,))]: what the function does to each accessor's bitboard, read off
        the final value written to it - evaluated for an empty and a full old bitboard with every mask parameter a
        distinct single bit, so `x &= !a; x |= b`, `x = (x & !a) | b` and `x ^= a | b` (on squares known set / clear)
        are told apart by what they do, not by how they are written"""
        from ..semtable import evaluate, NeedVar, Opaque
        out = []
        seq = {}
        for place, val, b in pe.writes:
            seq.setdefault(place, []).append(val)      # (each `*x.rooks_ref() op= m` is a write of its own: they compose)
        nargs = pe.f["args"] if isinstance(pe.f["args"], int) else len(pe.f["args"])
        bit = {("param", i): 1 << i for i in range(2, nargs + 1)}
        for place, vals in seq.items():
            acc = [x[1].rsplit("::", 1)[-1] for x in leaves(place) if x[0] == "call"]

            def vo(t, place=place):
                if t == place:
                    return "old"
                if t in bit:
                    return "p%d" % t[1]
                return None
            env = {"p%d" % k[1]: v for k, v in bit.items()}
            try:
                n0, n1 = 0, (1 << 64) - 1
                for val in vals:
                    n0, n1 = evaluate(val, vo, dict(env, old=n0)), evaluate(val, vo, dict(env, old=n1))
            except (NeedVar, Opaque):
                out.append((acc[0] if acc else "?", "?", ()))
                continue
            for k, v in sorted(bit.items()):
                if n0 & v and n1 & v:
                    out.append((acc[0] if acc else "?", "set", (k[1],)))
                elif not (n0 & v) and not (n1 & v):
                    out.append((acc[0] if acc else "?", "clear", (k[1],)))
                elif (n0 & v) and not (n1 & v):
                    out.append((acc[0] if acc else "?", "toggle", (k[1],)))
        return sorted(out)
    sm_, su_ = summary(pm), summary(pu)
    if not su_:
        # delegation: unmake_castle calls make_castle with permuted parameters
        for b, tree in pu.calls:
            args = [a[1][1] if a[0] == "&" and a[1][0] == "*" else a for a in tree[2]] if tree[0] == "call" else []
            if tree[0] == "call" and tree[1] == BB + "make_castle" and all(a[0] == "param" for a in args):
                perm = {i + 1: a[1] for i, a in enumerate(args)}
                su_ = sorted((acc, op, tuple(sorted(perm[q] for q in ps))) for acc, op, ps in sm_)
                # the same squares must be touched with set/clear exchanged; the player (param 1) stays
                ctx.extra["unmake_castle_delegation"] = {"permutation": perm}
    flip = sorted((a, "set" if o == "clear" else "clear" if o == "set" else o, p) for a, o, p in sm_)
    ok = flip == su_ and len(sm_) == 4
    if any(o == "?" for _, o, _ in sm_ + su_):
        ctx.lost(rid, "what make_castle / unmake_castle write to the rook and king bitboards (not a bitwise function of the old value and the mask parameters)")
        return
    ctx.ob(rid, "unmake_castle-inverts-make_castle", ok,
           "" if ok else "make_castle does %s but unmake_castle does %s (expected the same squares with set/clear exchanged)" % (sm_, su_),
           ctx.where(fuk), sample={"make_castle": [list(x) for x in sm_], "unmake_castle": [list(x) for x in su_]})


def r4_saved_restored(ctx, fields, setters, pairing):
    rid = "C03.R4"
    ctx.rule(rid, "the board field saved into the move at generation time is the field unmake assigns from the paired getter", floor=2)
    gen = ctx.fn(rid, BB + "make_move")
    un = ctx.fn(rid, BB + "unmake")
    exg, exu = Exprs(gen), Exprs(un)
    saved = {}  # move field -> board field read
    for b in gen["blocks"]:
        t = b["term"]
        if b["cleanup"] or t["k"] != "call":
            continue
        k = t["callee"].get("key") or ""
        if k.startswith(MF.MOVE + "set_") and len(t["args"]) == 2:
            sname = k[len(MF.MOVE):]
            fld = pairing.get(sname)
            arg = exg.operand(t["args"][1])
            core = arg[2] if arg[0] == "cast" else arg
            if fld and core[0] == "f" and core[1] == ("*", ("param", 1)):
                saved[fld] = core[2]
    restored = {}  # move field -> board field assigned
    through = {}   # move field -> (board field, tree): the getter's value reaches the field through a computation
    getter_of = {v["getter"]: n for n, v in fields.items()}
    for b in un["blocks"]:
        if b["cleanup"]:
            continue
        for s in b["stmts"]:
            d = s["dst"]
            if d is None or len(d["p"]) != 2 or d["p"][0] != "deref" or (d["l"] != 1 and exu.local(d["l"]) != ("param", 1)):
                continue        # (through `self`, or through a copy of it in a spliced helper)
            v = exu.rvalue(s["rv"])
            core = v
            while core[0] == "cast":
                core = core[2]
            if core[0] == "call" and core[1] in getter_of:
                restored[getter_of[core[1]]] = d["p"][1]["name"]
            else:
                hit = [x for x in leaves(core) if x[0] == "call" and x[1] in getter_of]
                if not hit:
                    # a value assembled on several paths (a spliced helper with two returns, an if-expression):
                    # which getters flow into it (data dependence)?
                    from ..slice import Slicer, _rv_locals
                    _, calls_ = Slicer(un).data_backward(sorted(_rv_locals(s["rv"])))
                    hit = [("call", t_["callee"].get("key")) for _, t_ in calls_ if t_["callee"].get("key") in getter_of]
                for x in hit:
                    through.setdefault(getter_of[x[1]], {})[d["p"][1]["name"]] = core
    if not saved:
        ctx.lost(rid, "which board fields make_move saves into the move (no Move setter is given a field of the board)")
        return
    undo = [f_ for f_ in saved if f_ in restored or "previous" in f_]
    called = {getter_of[t_["callee"].get("key")] for b_ in un["blocks"] if not b_["cleanup"] for t_ in [b_["term"]] if t_["k"] == "call" and t_["callee"].get("key") in getter_of}
    for fld in sorted(set(undo) | {f_ for f_ in restored}):
        ok = fld in saved and fld in restored and saved[fld] == restored[fld]
        if fld in saved and fld not in restored and saved[fld] in through.get(fld, {}):
            ctx.ob(rid, "undo-field:%s" % fld, False, "move field %s: generation saves board field %s, but unmake assigns %s back to it: the saved value is passed through another computation instead of being restored unchanged" % (fld, saved[fld], show(through[fld][saved[fld]])[:140]),
                   ctx.where(un), sample={"move_field": fld, "saved_from": saved.get(fld)})
            continue
        if fld in saved and fld not in restored and fld in called:
            # unmake reads the field, but what it does with the value is not a plain assignment this rule can follow
            ctx.lost(rid, "what unmake does with the value of %s (it reads it; no plain `self.<field> = mv.%s()` found)" % (fld, fld))
            continue
        ctx.ob(rid, "undo-field:%s" % fld, ok,
               "" if ok else ("move field %s: generation saves board field %s, but unmake does not assign that getter's value back to it unchanged (it is dropped or passed through another computation)" % (fld, saved.get(fld)) if fld not in restored else "move field %s: generation saves board field %s, unmake restores board field %s" % (fld, saved.get(fld), restored.get(fld))),
               ctx.where(un), sample={"move_field": fld, "saved_from": saved.get(fld), "restored_to": restored.get(fld)})


def run(ctx):
    fields, setters = MF.derive(ctx, "C03.R1")
    if len(fields) < 16 or len(setters) < 16:
        ctx.lost("C03.R1", "Move getters/setters (derived %d fields, %d setters; expected 16/18)" % (len(fields), len(setters)))
        return
    pairing = MF.pair(fields, setters)
    ctx.extra["move_layout"] = {n: {"mask": hex(v["mask"]), "shift": v["shift"]} for n, v in sorted(fields.items(), key=lambda kv: kv[1]["shift"])}
    r1_undo_width(ctx, fields, setters, pairing)
    from . import c02 as _c02
    _c02.r1_layout(ctx, fields)
    r2_write_sets(ctx)
    r3_flag_mirror(ctx, fields)
    r3_castle_swap(ctx)
    r4_saved_restored(ctx, fields, setters, pairing)
    # R5: probes are balanced
    ctx.rule("C03.R5", "the probing helpers of the board crate (is_move_legal, is_any_move_legal, generate_legal_moves, perft, _perft) leave no move made on any path", floor=3)
    ctx.rule("C03.R5m", "the move taken back is the move that was made (same expression)", floor=3)
    committers = {k: v for k, v in table("committers.json").items() if not k.startswith("_")}
    skip = set(committers)
    probes = [(k, f) for k, f in workspace_fns(ctx.prog) if f["crate"] == "inkayaku_board" and k not in skip
              and k.rsplit("::", 1)[-1] not in ("find_uci", "uci_to_pgn")]
    run_balance(ctx, "C03.R5", probes, {})
    ctx.assumptions += ["the 12-bit undo field bounds the half-move clock to 0..4095 (the property's quantifier)"]


def side_number_runner(ctx, rid, fns):
    """returns run_fn(fn, turn, number) -> {(new turn, new number): conditions on the number} evaluated over every
    returning path of make / unmake feasible with that turn; None when an anchor is lost"""
    prog = ctx.prog
    SELF = ("*", ("param", 1))
    TURN, FULL = ("f", SELF, "turn"), ("f", SELF, "fullmove_clock")
    inl = Inliner(prog, only=lambda k: k.startswith("inkayaku_board::"))
    from ..callgraph import CallGraph
    cg = CallGraph(prog)
    outcomes = {}
    for fn in fns:
        f = ctx.fn(rid, BB + fn)
        # callees never write the two fields (so remembered writes survive calls)
        writers = []
        for k in sorted(cg.reachable([BB + fn])[0]):
            g = prog.fns.get(k)
            if g is None or k == BB + fn:
                continue
            for blk in g["blocks"]:
                for st in blk["stmts"]:
                    d = st["dst"]
                    if d is not None and d["p"] and isinstance(d["p"][-1], dict) and d["p"][-1].get("name") in ("turn", "fullmove_clock"):
                        writers.append(k)
        ok = not writers
        ctx.ob(rid, "%s|callees-do-not-write-side-or-number" % fn, ok, "" if ok else "%s reaches %s which write turn / fullmove_clock" % (fn, sorted(set(writers))), ctx.where(f))
        if not ok:
            return None
        try:
            pes = returning_paths(f, inliner=inl, limit=100000, keep_mem=lambda k: True)
        except (NotLoopFree, OverflowError) as e:
            ctx.lost(rid, "%s is not loop free or has too many paths (%s)" % (fn, e))
            return None
        outcomes[fn] = (f, pes)

    def run_fn(fn, turn, full):
        """set of (new turn, new number, blocking condition) over the paths feasible with this turn"""
        f, pes = outcomes[fn]
        env = {TURN: ("c", turn, "u8", None), FULL: ("c", full, "u32", None)}
        res = {}
        for pe in pes:
            feasible, depends = True, []
            for (d, c, b, ty) in pe.conds:
                d2 = subst(d, {TURN: env[TURN]})
                try:
                    v = fold(d2)
                except Unfoldable:
                    if FULL in set(leaves(d2)):
                        depends.append(show(d))
                    continue
                if not cond_holds(c, v):
                    feasible = False
                    break
            if not feasible:
                continue
            nt = pe.mem.get(TURN, TURN)
            nf = pe.mem.get(FULL, FULL)
            try:
                out = (fold(subst(nt, env)), fold(subst(nf, env)))
            except Unfoldable as e:
                out = ("?", "%s / %s" % (show(nt), show(nf)))
            res.setdefault(out, set()).update(depends)
        return res

    run_fn.where = {fn: ctx.where(outcomes[fn][0]) for fn in outcomes}
    return run_fn


def r7_side_and_number(ctx):
    rid = "C03.R7"
    ctx.rule(rid, "side to move and full-move number: evaluated path by path for turn in {0, 1}, make flips the side and adds the mover's colour to the move number whatever else holds, and unmake run on make's result restores both; no callee of make/unmake writes these fields", floor=6)
    run_fn = side_number_runner(ctx, rid, ("make", "unmake"))
    if run_fn is None:
        return
    BASE = 1000

    def fmt(r):
        return sorted((a, b - BASE if isinstance(b, int) else b) for a, b in r)

    def deps(r):
        return "; differing paths branch on %s" % sorted(set().union(*r.values())) if any(r.values()) else ""

    for t in (0, 1):
        r1 = run_fn("make", t, BASE)
        want = (1 - t, BASE + t)
        ok = set(r1) == {want}
        ctx.ob(rid, "make|turn=%d" % t, ok,
               "" if ok else "make with turn=%d: over its feasible paths (turn, change of the move number) becomes %s, expected only %s%s" % (t, fmt(r1), (want[0], t), deps(r1)),
               run_fn.where["make"], sample={"outcomes": [list(map(str, k)) for k in r1]})
        r2 = run_fn("unmake", want[0], want[1])
        ok = set(r2) == {(t, BASE)}
        ctx.ob(rid, "unmake-after-make|turn=%d" % t, ok,
               "" if ok else "unmake run after make with turn=%d: (turn, change of the move number) becomes %s, expected only %s%s" % (t, fmt(r2), (t, 0), deps(r2)),
               run_fn.where["unmake"], sample={"outcomes": [list(map(str, k)) for k in r2]})


_run_before_fx = run


def run(ctx):
    _run_before_fx(ctx)
    from . import movefx_rules
    movefx_rules.rule_unmake_inverts_make(ctx)
    r7_side_and_number(ctx)
    # what unmake restores must have been saved by every producer of moves (shared with C02.R7)
    from . import c02
    c02.r7_every_move_fully_recorded(ctx, "C03.R8")


def r9_undo_fields_round_trip(ctx):
    """what make_move stores for the take-back comes out of the getter unchanged"""
    rid = "C03.R9"
    ctx.rule(rid, "the two undo fields of a Move return what was stored: get_previous_halfmove(set_previous_halfmove(v)) = v for clock values, get_previous_en_passant_square(set_previous_en_passant_square(v)) = v for no square and for each of the 16 possible e.p. targets of the side to move - evaluated on the setter's and getter's code (every path, helpers spliced in) for each value", floor=2)
    from . import movefields as MF
    from ..paths import returning_paths, NotLoopFree
    prog = ctx.prog
    BITS = ("f", ("*", ("param", 1)), "bits")
    inl = Inliner(prog, only=lambda k: (k.startswith("inkayaku_board::board::") and not k.startswith("inkayaku_board::board::Bitboard::")) or k.startswith("inkayaku_core::constants::"))
    side_get = prog.fns.get(MF.MOVE + "get_side_to_move")
    side_shift = None
    if side_get is not None:
        try:
            ps = returning_paths(side_get)
            if len(ps) == 1:
                # find the bit: evaluate the getter on single-bit words
                for sh in range(64):
                    v = fold(subst(ps[0].ret(), {BITS: ("c", 1 << sh, "u64", None)}))
                    if v == 1:
                        side_shift = sh
                        break
        except (NotLoopFree, Unfoldable, TypeError):
            side_shift = None

    def run_fn(f, env):
        """value returned / bits written on the path feasible under env; None if it cannot be evaluated"""
        try:
            pes = returning_paths(f, inliner=inl)
        except NotLoopFree:
            return None
        for pe in pes:
            try:
                ok = True
                for (d, c, b, ty) in pe.conds:
                    v = fold(subst(d, env))
                    if (v in c[1]) != (c[0] == "in"):
                        ok = False
                        break
                if not ok:
                    continue
                w = [val for (pl, val, b_) in pe.writes if pl == BITS]
                return (fold(subst(pe.ret(), env)) if not w else None, fold(subst(w[-1], env)) if w else None)
            except (Unfoldable, TypeError):
                return None
        return None

    cases = {"previous_halfmove": [(None, v) for v in (0, 1, 49, 50, 99, 100, 150, 2047, 4095)],
             "previous_en_passant_square": [(0, 0), (1, 0)] + [(0, 16 + fl) for fl in range(8)] + [(1, 40 + fl) for fl in range(8)]}
    for name, lst in sorted(cases.items()):
        s_fn, g_fn = prog.fns.get(MF.MOVE + "set_" + name), prog.fns.get(MF.MOVE + "get_" + name)
        if s_fn is None or g_fn is None:
            ctx.lost(rid, "Move::set_%s / get_%s" % (name, name))
            continue
        bad, undecided = None, False
        for side, v in lst:
            base = 0 if side in (None, 0) or side_shift is None else (1 << side_shift)
            if side == 1 and side_shift is None:
                undecided = True
                break
            r = run_fn(s_fn, {BITS: ("c", base, "u64", None), ("param", 2): ("c", v, "u32", None)})
            if r is None or r[1] is None:
                undecided = True
                break
            g = run_fn(g_fn, {BITS: ("c", r[1], "u64", None)})
            if g is None or g[0] is None:
                undecided = True
                break
            if g[0] != v:
                bad = (side, v, g[0])
                break
        if undecided:
            ctx.lost(rid, "set_%s / get_%s as evaluable code" % (name, name))
            continue
        ctx.ob(rid, "%s|get(set(v))=v" % name, bad is None,
               "" if bad is None else "Move::get_%s returns %d for a move in which set_%s stored %d%s: unmake restores that value - after a make/unmake pair the position differs from the one before (an e.p. target one rank off, a wrong clock)" % (
                   name, bad[2], name, bad[1], "" if bad[0] is None else " (%s to move)" % ("black" if bad[0] else "white")),
               ctx.where(g_fn), sample={"values": len(lst)})


_run_before_r9_undo = run


def run(ctx):
    _run_before_r9_undo(ctx)
    r9_undo_fields_round_trip(ctx)
