"""C16 — the engine's output stream is well-formed and self-consistent."""
from ..cfg import Cfg
from ..expr import Exprs, show, leaves
from ..fmt import decode_template, template_of_format_call
from ..callgraph import call_sites
from .common import table, SEARCH

SCOPE = "engine"
LEVEL = "other"
EXPLANATION = (
    "Static analysis of the resolved MIR and of the format templates the compiler emits. R1: in the dependency closure "
    "of the engine binary, only functions of the binary crate call std's stdout printing, and those are used only as "
    "the console transmitter's consumer or for the start-up banner in main. R2: every line handed to the transmitter's "
    "tx() starts with a UCI engine-to-GUI keyword (first literal piece of the decoded format template or the string "
    "constant); the keys appended to an info line are UCI info keys, each at most once, `string` last; score is "
    "cp/mate with lowerbound/upperbound; bestmove prints 0000 only for None. R3: the announced best move, the reported "
    "PV and the stored PV are assigned under the same control dependence in Search::best_move. Decided: syntactic "
    "well-formedness of every emitted line kind and the co-assignment; not decided: monotone depth/nodes/time, PV "
    "legality, ponder move across sessions.")

CON = "inkayaku_uci::uci::console::"
TXIMPL = CON + "<ConsoleUciTx<FConsumer,FDebugConsumer> as UciTx>::"
TX = CON + "ConsoleUciTx::tx"
PRINT = ("std::io::stdio::_print", "std::io::stdio::print_to", "std::io::stdio::stdout")


def r1_stdout(ctx):
    rid = "C16.R1"
    ctx.rule(rid, "stdout is written only by the binary crate's print function, which is used only as the console transmitter's consumer and for the banner", floor=2)
    prog = ctx.prog
    printers = {}
    for caller, b, t in call_sites(prog, lambda k, o, c: k in PRINT):
        f = prog.fns[caller]
        if f.get("test") or f["crate"] not in getattr(ctx, "engine_crates", {f["crate"]}):
            continue   # other binaries of the workspace (perft, pgn test, lichess bot) are not the engine process
        printers.setdefault(caller, []).append(t["line"])
    lib = sorted(k for k in printers if prog.fns[k]["crate"] != "inkayaku_engine_app")
    ctx.ob(rid, "library-crates-do-not-print", not lib, "" if not lib else "library code writes to stdout directly (bypassing the UCI transmitter): %s" % lib,
           ctx.where(prog.fns[lib[0]], printers[lib[0]][0]) if lib else "", sample={"stdout_writers": sorted(printers)})
    app = sorted(k for k in printers if prog.fns[k]["crate"] == "inkayaku_engine_app")
    if not app:
        ctx.lost(rid, "the binary's print function (nobody calls std's _print)")
        return
    main = prog.fns.get("inkayaku_engine_app::main")
    if main is None:
        ctx.lost(rid, "inkayaku_engine_app::main")
        return
    for p in app:
        if p == "inkayaku_engine_app::main":
            ctx.ob(rid, "main-prints-directly", False, "main prints to stdout itself", ctx.where(main))
            continue
        uses = []
        for k, f in prog.fns.items():
            if f.get("test"):
                continue
            ex = None
            for bi, b in enumerate(f["blocks"]):
                t = b["term"]
                if t["k"] == "call":
                    if t["callee"].get("key") == p:
                        uses.append((k, "call", t["line"]))
                    for i, a in enumerate(t["args"]):
                        if a.get("k") == "const" and a.get("fn") == p:
                            uses.append((k, "arg%d of %s" % (i, (t["callee"].get("key") or "?").rsplit("::", 2)[-2] + "::" + (t["callee"].get("key") or "?").rsplit("::", 1)[-1]), t["line"]))
                for s in b["stmts"]:
                    for a in s["rv"].get("a", []):
                        if a.get("k") == "const" and a.get("fn") == p:
                            uses.append((k, "value", s["line"]))
        ok_uses = [u for u in uses if u[0] == "inkayaku_engine_app::main" and (u[1] == "call" or u[1].startswith("arg0 of ConsoleUciTx::new"))]
        bad = [u for u in uses if u not in ok_uses]
        direct = [u for u in ok_uses if u[1] == "call"]
        ok = not bad and len(direct) <= 1 and any(u[1].startswith("arg0") for u in ok_uses)
        ctx.ob(rid, "printer-use|%s" % p.rsplit("::", 1)[-1], ok,
               "" if ok else "%s is used outside 'consumer of ConsoleUciTx::new' / 'one banner call in main': %s" % (p, bad or direct), ctx.where(prog.fns[p]),
               sample={"printer": p, "uses": [list(u[:2]) for u in uses]})


def first_literal(ctx, f, ex, arg_tree, line):
    """the first literal text of the string handed to tx(); None when it cannot be established"""
    t = arg_tree
    while t[0] in ("&", "*"):
        t = t[1]
    # &str constant
    if t[0] == "c" and isinstance(t[1], str):
        return t[1]
    # deref of a String: format!(..) or "lit".to_string() with later push_str
    for x in leaves(t):
        if x[0] == "call" and x[1] == "alloc::fmt::format":
            pieces = template_of_format_call(x)
            if pieces is None:
                return None
            return pieces[0] if pieces and isinstance(pieces[0], str) else ""
        if x[0] == "call" and x[1].endswith("ToString>::to_string") and x[2] and x[2][0][0] == "c" and isinstance(x[2][0][1], str):
            return x[2][0][1]
        if x[0] == "local":
            init = ex.initial(x[1])
            if init != x:
                r = first_literal(ctx, f, ex, init, line)
                if r is not None:
                    return r
        if x[0] == "call" and x[1].endswith("str::<str>::trim"):
            continue
    return None


def r2_keywords(ctx):
    rid = "C16.R2"
    ctx.rule(rid, "every line given to the console transmitter starts with a UCI engine-to-GUI keyword; info keys are UCI info keys, once each, `string` last; scores are cp/mate (+bound); bestmove prints 0000 only for None", floor=12)
    prog = ctx.prog
    spec = table("spec_uci.json")
    kw = spec["engine_to_gui_keywords"]
    sites = [(c, b, t) for c, b, t in call_sites(prog, lambda k, o, cc: k == TX) if not prog.fns[c].get("test")]
    if len(sites) < 8:
        ctx.lost(rid, "call sites of ConsoleUciTx::tx (found %d)" % len(sites))
    for caller, b, t in sites:
        f = prog.fns[caller]
        ex = Exprs(f)
        lit = first_literal(ctx, f, ex, ex.operand(t["args"][1]), t["line"])
        name = caller.rsplit("::", 1)[-1]
        if lit is None:
            ctx.lost(rid, "first literal of the line transmitted by %s (format template not decodable)" % caller)
            continue
        word = lit.split(" ")[0]
        ok = word in kw
        ctx.ob(rid, "line-keyword|%s" % name, ok, "" if ok else "%s transmits a line starting with %r, which is not a UCI engine-to-GUI keyword %s" % (name, lit[:30], kw),
               ctx.where(f, t["line"]), sample={"method": name, "line_starts_with": lit})
    # method <-> keyword (the trait method names are the repository's API for the message kinds)
    want = {"id_name": "id name ", "id_author": "id author ", "uci_ok": "uciok", "ready_ok": "readyok", "best_move": "bestmove ", "copy_protection": "copyprotection ",
            "registration": "registration ", "info": "info"}
    for m, w in sorted(want.items()):
        key = TXIMPL + m
        f = prog.fns.get(key)
        if f is None:
            ctx.lost(rid, key, missing=True)
            continue
        ex = Exprs(f)
        lits = []
        for bb in f["blocks"]:
            tt = bb["term"]
            if tt["k"] == "call" and tt["callee"].get("key") == TX:
                lits.append(first_literal(ctx, f, ex, ex.operand(tt["args"][1]), tt["line"]))
        ok = len(lits) == 1 and lits[0] is not None and lits[0] == w
        if not lits or any(x is None for x in lits):
            # the line is assembled some other way (a helper builds it, parts are joined): its first literal is not read here
            ctx.lost(rid, "the literal UciTx::%s starts its line with" % m)
            continue
        ctx.ob(rid, "message|%s" % m, ok, "" if ok else "UciTx::%s writes %r, expected a line starting exactly with %r" % (m, lits, w), ctx.where(f))
    # info keys
    f = prog.fns.get(TXIMPL + "info")
    if f is None:
        return
    cfg, ex = Cfg(f), Exprs(f)
    app = [(b, f["blocks"][b]["term"]) for b in sorted(cfg.reach) if f["blocks"][b]["term"]["k"] == "call" and (f["blocks"][b]["term"]["callee"].get("key") or "").endswith("::info::append_maybe")]
    keys = []
    for b, t in app:
        # the key is the string literal among the arguments (its position is not fixed: a parameter may have been added)
        lit = [x for x in (ex.operand(a) for a in t["args"]) if x[0] == "c" and isinstance(x[1], str)]
        keys.append((lit[0][1] if len(lit) == 1 else None, b, t["line"]))
    if any(k is None for k, _, _ in keys):
        ctx.lost(rid, "the key literal of %d append_maybe call(s) in ConsoleUciTx::info" % len([1 for k, _, _ in keys if k is None]))
        return
    if len(keys) < 10:
        ctx.lost(rid, "append_maybe calls in ConsoleUciTx::info (found %d)" % len(keys))
        return
    bad = [k for k, _, _ in keys if k not in spec["info_keys"]]
    ctx.ob(rid, "info-keys-are-uci", not bad, "" if not bad else "info line uses keys %s that are not UCI info keys" % bad, ctx.where(f), sample={"keys": [k for k, _, _ in keys]})
    dup = sorted({k for k, _, _ in keys if [x for x, _, _ in keys].count(k) > 1})
    ctx.ob(rid, "info-keys-once", not dup, "" if not dup else "info keys appended more than once: %s" % dup, ctx.where(f))
    sb = [b for k, b, _ in keys if k == "string"]
    ok = len(sb) == 1 and all(cfg.dominates(b, sb[0]) for k, b, _ in keys)
    ctx.ob(rid, "info-string-last", ok, "" if ok else "`string` must be the last key of an info line (everything after it is free text)", ctx.where(f))
    # score formatting
    sc = prog.fns.get(TXIMPL + "info::score_to_string")
    if sc is None:
        ctx.lost(rid, "score_to_string")
    else:
        firsts = []
        for bb in sc["blocks"]:
            for s in bb["stmts"]:
                for a in s["rv"].get("a", []):
                    if a.get("k") == "const" and isinstance(a.get("v"), list):
                        p = decode_template(a["v"])
                        if p:
                            firsts.append(p)
        words = sorted({p[0].strip() for p in firsts if p and isinstance(p[0], str)})
        ok = bool(words) and all(w in spec["score_kinds"] for w in words) and set(words) == set(spec["score_kinds"])
        ctx.ob(rid, "score-kinds", ok, "" if ok else "score is written as %s, UCI knows %s" % (words, spec["score_kinds"]), ctx.where(sc), sample={"templates": [[x if x is not None else "{}" for x in p] for p in firsts]})
    bd = prog.fns.get("inkayaku_uci::uci::<Bound as Display>::fmt")
    if bd is None:
        ctx.lost(rid, "<Bound as Display>::fmt")
    else:
        strs = set()
        for bb in bd["blocks"]:
            for s in bb["stmts"]:
                for a in s["rv"].get("a", []):
                    if a.get("k") == "const" and isinstance(a.get("v"), str):
                        strs.add(a["v"])
        ok = strs == set(spec["score_bounds"])
        ctx.ob(rid, "score-bounds", ok, "" if ok else "bounds are written as %s, UCI knows %s" % (sorted(strs), spec["score_bounds"]), ctx.where(bd))
    # bestmove: "0000" only from the None arm
    bm = prog.fns.get(TXIMPL + "best_move")
    if bm is not None:
        zeros = []
        for k in prog.children(TXIMPL + "best_move") + [TXIMPL + "best_move"]:
            g = prog.fns[k]
            for bb in g["blocks"]:
                tt = bb["term"]
                for a in (tt.get("args") or []):
                    if a.get("k") == "const" and a.get("v") == "0000":
                        zeros.append(k)
                for s in bb["stmts"]:
                    for a in s["rv"].get("a", []):
                        if a.get("k") == "const" and a.get("v") == "0000":
                            zeros.append(k)
        exb = Exprs(bm)
        ok = False
        for bb in bm["blocks"]:
            tt = bb["term"]
            if tt["k"] == "call" and (tt["callee"].get("key") or "").endswith("Option::map_or_else"):
                args = [exb.operand(a) for a in tt["args"]]
                if args[0] == ("param", 2) and args[1][0] == "agg" and args[1][2] in zeros:
                    ok = True
        has_shape = any(bb["term"]["k"] == "call" and (bb["term"]["callee"].get("key") or "").endswith("Option::map_or_else") and exb.operand(bb["term"]["args"][0]) == ("param", 2) for bb in bm["blocks"])
        if not has_shape:
            # the line is not built with `best_move.map_or_else(|| "0000", ..)`: where the null move text comes from is
            # not read here
            ctx.lost(rid, "how UciTx::best_move chooses between the move text and 0000")
        else:
          ctx.ob(rid, "bestmove-0000-only-for-none", ok and len(zeros) == 1, "" if ok and len(zeros) == 1 else "the null move text 0000 is not produced exactly by the None arm of best_move (sites: %s)" % zeros, ctx.where(bm))


def r3_coassign(ctx):
    rid = "C16.R3"
    ctx.rule(rid, "in Search::best_move the announced move, the reported PV and the stored PV are assigned under the same control dependence (one accepted iteration sets all three)", floor=1)
    f = ctx.fn(rid, SEARCH + "best_move")
    cfg, ex = Cfg(f), Exprs(f)
    names = {int(k): v for k, v in f.get("names", {}).items()}
    want_locals = {n: l for l, n in names.items() if n in ("best_move", "uci_pv")}
    blocks = {}
    for b in sorted(cfg.reach):
        for s in f["blocks"][b]["stmts"]:
            d = s["dst"]
            if d is None:
                continue
            rv = s["rv"]
            tv = ex.rvalue(rv)
            is_some = tv[0] == "agg" and tv[2].endswith("Option::Some")
            if not is_some:
                continue
            if not d["p"] and d["l"] in want_locals.values():
                nm = [n for n, l in want_locals.items() if l == d["l"]][0]
                blocks.setdefault(nm, set()).add(b)
            if d["p"] and isinstance(d["p"][-1], dict) and d["p"][-1].get("name") == "principal_variation":
                blocks.setdefault("state.principal_variation", set()).add(b)
    if set(blocks) != {"best_move", "uci_pv", "state.principal_variation"}:
        ctx.lost(rid, "assignments of Some(..) to best_move, uci_pv and state.principal_variation in Search::best_move (found %s)" % sorted(blocks))
        return
    def deps(bs):
        out = set()
        for b in bs:
            out |= {(a, s) for (a, s) in cfg.control_deps_transitive(b)}
        return out
    ds = {n: deps(bs) for n, bs in blocks.items()}
    vals = list(ds.values())
    ok = all(v == vals[0] for v in vals) and all(len(bs) == 1 for bs in blocks.values())
    ctx.ob(rid, "bestmove-pv-coassigned", ok,
           "" if ok else "best_move / uci_pv / state.principal_variation are not updated under the same condition: %s" % {n: sorted(d) for n, d in ds.items()},
           ctx.where(f), sample={"assignment_blocks": {n: sorted(bs) for n, bs in blocks.items()}, "control_dependence": sorted(vals[0])})


def run(ctx):
    r1_stdout(ctx)
    r2_keywords(ctx)
    r3_coassign(ctx)
    r4_one_counter(ctx)


def r4_one_counter(ctx):
    """necessary condition of 'nodes / time never decrease within one search': every info line of a search reads the
    node count from one counter, and that counter is restarted by every go"""
    rid = "C16.R4"
    ctx.rule(rid, "every Info built by the search reports `nodes` from one and the same metrics counter, which reset_for_go restarts on every path; `time` always comes from the search's own clock", floor=3)
    prog = ctx.prog
    INFO = "inkayaku_uci::uci::Info"
    sources = {}   # (fn, line) -> (nodes source, time source)

    def info_fields(f, ex, rv):
        names = rv["fields"]
        return {n: ex.operand(a) for n, a in zip(names, rv["a"])}

    def metric_path(t):
        """('last'|'total'|...) for a tree that calls a Metrics method on self.state.metrics.<x>"""
        for x in leaves(t):
            if x[0] == "f" and x[1][0] == "f" and x[1][2] == "metrics":
                return x[2]
        return None
    gi = prog.fns.get(SEARCH + "generate_info")
    gi_fields = {}
    if gi is not None:
        gex = Exprs(gi)
        for b in gi["blocks"]:
            for s in b["stmts"]:
                if s["rv"]["op"] == "agg" and s["rv"].get("adt") == INFO:
                    gi_fields = info_fields(gi, gex, s["rv"])
    for k, f in prog.fns.items():
        if f.get("test") or f["kind"] == "promoted" or f["crate"] != "inkayaku_engine_core" or k == SEARCH + "generate_info":
            continue
        ex = None
        for b in f["blocks"]:
            if b["cleanup"]:
                continue
            for s in b["stmts"]:
                rv = s["rv"]
                if rv["op"] == "agg" and rv.get("adt") == INFO:
                    ex = ex or Exprs(f)
                    flds = info_fields(f, ex, rv)
                    res = {}
                    for name in ("nodes", "time", "depth"):
                        t = flds.get(name)
                        if t is None:
                            continue
                        if name == "depth":
                            tt = t
                            if tt[0] == "f" and tt[1][0] == "call" and tt[1][1] == SEARCH + "generate_info":
                                tt = gi_fields.get(name, tt)
                            if (tt[0] == "f" and tt[1][0] == "c") or (tt[0] == "c" and "None" in str(tt[1])) or (tt[0] == "agg" and tt[2].endswith("Option::None")):
                                res[name] = "EMPTY"
                            else:
                                res[name] = "set"
                            continue
                        # functional update `..self.generate_info()`: the field is moved out of the call's result
                        if t[0] == "f" and t[1][0] == "call" and t[1][1] == SEARCH + "generate_info":
                            t = gi_fields.get(name, t)
                        if t[0] == "f" and t[1][0] == "c":
                            res[name] = "EMPTY"     # taken from Info::EMPTY: not reported
                            continue
                        if t[0] == "c":
                            res[name] = "EMPTY" if "None" in str(t[1]) else "const"
                            continue
                        if name == "nodes":
                            res[name] = "metrics." + str(metric_path(t))
                        else:
                            calls = [x[1].rsplit("::", 1)[-1] for x in leaves(t) if x[0] == "call"]
                            res[name] = "elapsed" if "elapsed" in calls else ("local" if t[0] in ("local",) or any(x[0] == "local" for x in leaves(t)) else show(t)[:60])
                            if res[name] == "local":
                                # a local bound to self.state.elapsed() earlier in the function
                                for x in leaves(t):
                                    if x[0] == "local":
                                        init = ex.initial(x[1])
                                        if init[0] == "call" and init[1].endswith("::elapsed"):
                                            res[name] = "elapsed"
                    sources[(k, s["line"])] = res
    if len(sources) < 2:
        ctx.lost(rid, "Info constructions in the search (found %d)" % len(sources))
        return
    node_src = {v["nodes"] for v in sources.values() if v.get("nodes") not in (None, "EMPTY")}
    ok = len(node_src) == 1
    ctx.ob(rid, "nodes-from-one-counter", ok,
           "" if ok else "info lines of one search report `nodes` from different counters %s: %s - a line fed from a counter that is not restarted per go reports more nodes than the next line (nodes decrease within a search)"
           % (sorted(node_src), {("%s:%d" % (k.rsplit("::", 1)[-1], l)): v.get("nodes") for (k, l), v in sources.items()}), "",
           sample={"sources": {("%s:%d" % (k.rsplit("::", 1)[-1], l)): v for (k, l), v in sources.items()}})
    # depth: only the iteration report of best_move carries a depth; a progress line that also carries one reports
    # the running iteration, which the (possibly aborted, depth - 1) iteration report that follows undercuts
    # (the function that runs the iterations: the caller of search_negamax that is not search_negamax itself -
    # Search::best_move on the reviewed tree; it may have been renamed, split or merged into go)
    iter_fns = {k for k, g in prog.fns.items() if k != SEARCH + "search_negamax" and not g.get("test") and any(
        bb["term"]["k"] == "call" and bb["term"]["callee"].get("key") == SEARCH + "search_negamax" for bb in g["blocks"])}
    if len(iter_fns) != 1:
        ctx.lost(rid, "the function that runs the iterations (callers of search_negamax: %s)" % sorted(x.rsplit("::", 1)[-1] for x in iter_fns))
        return
    ITER = next(iter(iter_fns))
    deep = sorted("%s:%d" % (k.rsplit("::", 1)[-1], l) for (k, l), v in sources.items() if v.get("depth") == "set" and k != ITER)
    if ITER != SEARCH + "best_move" and len([1 for (k, l), v in sources.items() if v.get("depth") == "set" and k == ITER]) > 1:
        ctx.lost(rid, "which info line of %s is the iteration report (several carry a depth)" % ITER.rsplit("::", 1)[-1])
        return
    has_report = any(v.get("depth") == "set" and k == ITER for (k, l), v in sources.items())
    ctx.ob(rid, "depth-only-in-the-iteration-report", not deep and has_report,
           "" if (not deep and has_report) else ("info lines built outside Search::best_move carry a depth (%s): the iteration report of an interrupted iteration states depth - 1, so the reported depth decreases within one search" % deep if deep else "the iteration report of Search::best_move carries no depth"),
           "", sample={"depth_sources": {("%s:%d" % (k.rsplit("::", 1)[-1], l)): v.get("depth") for (k, l), v in sources.items()}})
    time_src = {v["time"] for v in sources.values() if v.get("time") not in (None, "EMPTY")}
    ok = time_src <= {"elapsed"} and bool(time_src)
    ctx.ob(rid, "time-from-search-clock", ok, "" if ok else "info lines report `time` from %s (expected SearchState::elapsed of the running search)" % sorted(time_src), "")
    # the counter is restarted by every go
    rg = prog.fns.get(SEARCH + "reset_for_go")
    if rg is None or not node_src:
        ctx.lost(rid, "Search::reset_for_go")
        return
    which = sorted(node_src)[0].split(".", 1)[-1]
    from ..paths import returning_paths, NotLoopFree
    try:
        pes = returning_paths(rg)
    except NotLoopFree:
        ctx.lost(rid, "reset_for_go has a loop")
        return
    bad = 0
    for pe in pes:
        hit = False
        for place, val, b in pe.writes:
            names = []
            t = place
            while t[0] == "f":
                names.append(t[2])
                t = t[1]
            names = names[::-1]
            if "metrics" in names and (names[-1] == which or names[-1] == "metrics"):
                hit = True
        if not hit:
            bad += 1
    ctx.ob(rid, "counter-restarted-per-go", bad == 0, "" if bad == 0 else "reset_for_go has %d path(s) that leave metrics.%s (the counter behind `nodes`) running from the previous search" % (bad, which), ctx.where(rg),
           sample={"counter": "metrics." + which, "paths": len(pes)})


def r5_clock_origin(ctx):
    """necessary condition of 'time never decreases within one search': the origin of the search clock is set only
    where a search starts, never while it runs"""
    rid = "C16.R5"
    ctx.rule(rid, "SearchState.started_at (the origin of every reported `time` / `nps`) is written only by Search::go and Search::best_move, outside any loop and before the iterations, and by the state's constructor; nothing reachable from the recursive search or the message poll writes it", floor=3)
    from ..callgraph import CallGraph
    prog = ctx.prog
    writers = {}
    for k, f in prog.fns.items():
        if f.get("test") or not k.startswith("inkayaku_engine_core"):
            continue
        cfg = None
        for bi, b in enumerate(f["blocks"]):
            if b["cleanup"]:
                continue
            for s in b["stmts"]:
                d = s["dst"]
                named = d is not None and d["p"] and isinstance(d["p"][-1], dict) and d["p"][-1].get("name") == "started_at"
                in_agg = s["rv"]["op"] == "agg" and s["rv"].get("adt", "").endswith("SearchState") and "started_at" in (s["rv"].get("fields") or [])
                if named or in_agg:
                    cfg = cfg or Cfg(f)
                    writers.setdefault(k, []).append((bi, s["line"], cfg.in_loop(bi), "field" if named else "constructor"))
    if not writers:
        ctx.lost(rid, "no write of SearchState.started_at found")
        return
    cg = CallGraph(prog)
    during, _ = cg.reachable([SEARCH + "search_negamax", SEARCH + "search_quiescence", SEARCH + "check_messages"])
    allowed = {SEARCH + "go", SEARCH + "best_move"}
    for k, ws in sorted(writers.items()):
        f = prog.fns[k]
        for bi, line, in_loop, how in ws:
            if how == "constructor":
                ok = k not in during
                why = "" if ok else "%s builds a fresh SearchState while a search is running" % f["display"]
            else:
                ok = k in allowed and not in_loop and k not in during
                why = "" if ok else "%s resets the clock origin%s: the `time` of the next info line of the same search restarts from 0 (time decreases within one search)" % (
                    f["display"], " inside a loop" if in_loop else (" while the search is running (reachable from the recursive search / message poll)" if k in during else ""))
            ctx.ob(rid, "writer|%s|%s" % (k, how), ok, why, ctx.where(f, line), sample={"function": k, "in_loop": in_loop})
    # in best_move the reset precedes the iteration loop
    f = ctx.fn(rid, SEARCH + "best_move")
    cfg = Cfg(f)
    ws = [w for w in writers.get(SEARCH + "best_move", []) if w[3] == "field"]
    heads = sorted({h for (a, h) in cfg.back_edges()})
    ok = bool(ws) and bool(heads) and all(cfg.dominates(w[0], h) for w in ws for h in heads)
    if not ws or not heads:
        ctx.lost(rid, "Search::best_move: the assignment of the clock origin and the iteration loop (found %d / %d)" % (len(ws), len(heads)))
        return
    ctx.ob(rid, "best_move|reset-before-iterations", ok, "" if ok else "Search::best_move does not set the clock origin before its iteration loop", ctx.where(f))


_run_before_r5 = run


def run(ctx):
    _run_before_r5(ctx)
    r5_clock_origin(ctx)


def r6_ponder_from_this_search(ctx):
    """the ponder move announced with bestmove is read from the stored PV, which outlives a go: it must belong to
    this search"""
    rid = "C16.R6"
    ctx.rule(rid, "the ponder move returned by Search::best_move is read from state.principal_variation only when this search stored a PV (guarded by the answer `best_move` being present), or the stored PV is cleared before the iterations: otherwise a go that completes no iteration announces the previous search's reply as ponder move", floor=1)
    f = ctx.fn(rid, SEARCH + "best_move")
    cfg, ex = Cfg(f), Exprs(f)
    names = {int(k): v for k, v in f.get("names", {}).items()}
    # the answer of the search: a local holding an Option of a move that is assigned inside the iteration loop
    # (whatever it is called)
    answers = {l for l, defs in ex.defs.items() if l > f["args"] and "Option<" in f["locals"][l]["ty"] and "Move" in f["locals"][l]["ty"] and any(cfg.in_loop(d[1]) for d in defs)}
    answers |= {l for l, n in names.items() if n == "best_move"}
    # ... or an Option of anything (a struct bundling the accepted iteration's results) that is assigned in the loop and
    # that the returned move is computed from
    from ..slice import Slicer
    ret_seeds = set()
    for b_ in sorted(cfg.reach):
        for s_ in f["blocks"][b_]["stmts"]:
            d_ = s_["dst"]
            if d_ is not None and d_["l"] == 0 and not d_["p"] and s_["rv"]["op"] == "agg" and s_["rv"].get("kind") == "tuple" and s_["rv"]["a"] and s_["rv"]["a"][0].get("k") in ("copy", "move"):
                ret_seeds.add(s_["rv"]["a"][0]["pl"]["l"])
    if ret_seeds:
        flow, _ = Slicer(f).data_backward(sorted(ret_seeds))
        answers |= {l for l in flow if l > f["args"] and f["locals"][l]["ty"].startswith(("std::option::Option<", "core::option::Option<", "Option<"))
                    and "&" not in f["locals"][l]["ty"] and any(cfg.in_loop(d[1]) for d in ex.defs.get(l, ()))}
    reads = [b for b in sorted(cfg.reach) if f["blocks"][b]["term"]["k"] == "call" and (f["blocks"][b]["term"]["callee"].get("key") or "").endswith("SearchState::ponder_move")]
    if not reads or not answers:
        ctx.lost(rid, "Search::best_move: the SearchState::ponder_move call and the local that holds the answer")
        return
    bm = min(answers)
    heads = sorted({h for (a, h) in cfg.back_edges()})
    # (a) the stored PV is cleared before the iteration loop
    cleared = False
    for b in sorted(cfg.reach):
        for s in f["blocks"][b]["stmts"]:
            d = s["dst"]
            if d is not None and d["p"] and isinstance(d["p"][-1], dict) and d["p"][-1].get("name") == "principal_variation":
                tv = ex.rvalue(s["rv"])
                if tv[0] == "agg" and tv[2].endswith("Option::None") and heads and all(cfg.dominates(b, h) for h in heads):
                    cleared = True
    for r in reads:
        guarded = False
        for (a, sb) in cfg.control_deps_transitive(r):
            sw = f["blocks"][a]["term"]
            if sw["k"] == "switch" and not cfg.in_loop(a):
                d = ex.operand(sw["discr"])
                if any(x[0] == "local" and x[1] in answers for x in [d] + list(leaves(d))):
                    guarded = True
        ok = guarded or cleared
        ctx.ob(rid, "ponder-move|from-this-search", ok,
               "" if ok else "Search::best_move reads the ponder move from state.principal_variation unconditionally; that field keeps the previous search's PV when no iteration of this go was accepted (`go wtime 5 btime 5` after an earlier search answers `bestmove 0000 ponder <reply of the previous search>`)",
               ctx.where(f, f["blocks"][r]["term"]["line"]), sample={"guarded_by_best_move": guarded, "pv_cleared_before_loop": cleared})


_run_before_r6 = run


def run(ctx):
    _run_before_r6(ctx)
    r6_ponder_from_this_search(ctx)


def r7_bestmove_text_is_the_whole_move(ctx):
    """the bestmove line carries the move as UciMove prints itself (source, target and promotion letter)"""
    rid = "C16.R7"
    ctx.rule(rid, "the console transmitter writes the best move (and the ponder move) through UciMove's own Display - or reads all three of its fields: a line assembled from source and target alone drops the promotion letter", floor=1)
    prog = ctx.prog
    root = TXIMPL + "best_move"
    ctx.fn(rid, root, positional=False)
    raw = getattr(prog, "raw_fns", {})
    fns = [raw.get(k, g) for k, g in prog.fns.items() if k == root or k.startswith(root + "::")]
    # helpers of the console module the method calls (one level), e.g. a `format_best_move` that was split off
    for g in list(fns):
        for bb in g["blocks"]:
            t = bb["term"]
            if t["k"] == "call":
                ck = t["callee"].get("key") or ""
                h = prog.fns.get(ck) or getattr(prog, "helper_bodies", {}).get(ck)
                if h is not None and ck.startswith("inkayaku_uci::uci::console::") and h not in fns and not ck.endswith("::tx"):
                    fns.append(h)
                    fns += [g2 for k2, g2 in prog.fns.items() if k2.startswith(ck + "::")]
    display, fields = 0, set()
    for g in fns:
        for bb in g["blocks"]:
            if bb["cleanup"]:
                continue
            t = bb["term"]
            if t["k"] == "call":
                ck = t["callee"].get("key") or ""
                ga = " ".join(str(x) for x in (t["callee"].get("generic_args") or []))
                if ("new_display" in ck or ck.endswith("ToString>::to_string") or "as Display>::fmt" in ck) and "UciMove" in (ga + ck):
                    display += 1
            for st in bb["stmts"]:
                for a in st["rv"].get("a", []) + ([{"k": "copy", "pl": st["rv"]["place"]}] if "place" in st["rv"] else []):
                    if a.get("k") in ("copy", "move"):
                        for e in a["pl"]["p"]:
                            if isinstance(e, dict) and (e.get("of") or "").endswith("::UciMove") and e.get("name"):
                                fields.add(e["name"])
    if display:
        ctx.ob(rid, "bestmove|whole-move-printed", True, "", ctx.where(prog.fns[root]), sample={"display_uses": display, "fields_read": sorted(fields)})
    elif fields:
        missing = sorted({"source", "target", "promote_to"} - fields)
        ctx.ob(rid, "bestmove|whole-move-printed", not missing,
               "" if not missing else "the bestmove line is assembled from the fields %s of the move, without %s (and not through UciMove's Display): %s" % (sorted(fields), missing, "a promotion is announced without its piece letter (e7e8 for e7e8q)" if "promote_to" in missing else "part of the move is not written"),
               ctx.where(prog.fns[root]), sample={"fields_read": sorted(fields)})
    else:
        ctx.lost(rid, "how the console transmitter turns the best move into text (neither UciMove's Display nor its fields are used in best_move and its helpers)")


_run_before_r7 = run


def run(ctx):
    _run_before_r7(ctx)
    r7_bestmove_text_is_the_whole_move(ctx)


def r8_time_is_the_whole_duration(ctx):
    """the `time` of an info line is the whole elapsed time, not its sub-second part"""
    rid = "C16.R8"
    ctx.rule(rid, "the console writer formats the elapsed time of an info line from the whole Duration (as_millis / as_secs-based), never from a sub-second part alone (subsec_millis / subsec_micros / subsec_nanos): those wrap at every full second, so the reported time would decrease within one search", floor=1)
    prog = ctx.prog
    f = ctx.fn(rid, TXIMPL + "info", positional=False)
    keys = [TXIMPL + "info"] + sorted(k for k in prog.fns if k.startswith(TXIMPL + "info::"))
    whole, part = [], []
    for k in keys:
        g = prog.fns.get(k)
        if g is None:
            continue
        for bb in g["blocks"]:
            t = bb["term"]
            if t["k"] == "call" and not bb["cleanup"]:
                ck = t["callee"].get("key") or ""
                if ck.startswith("core::time::Duration::"):
                    m = ck.rsplit("::", 1)[-1]
                    if m.startswith("subsec_"):
                        part.append((g, t["line"], m))
                    elif m.startswith("as_"):
                        whole.append((g, t["line"], m))
    if part and not any(m in ("as_secs", "as_secs_f32", "as_secs_f64") for _, _, m in whole):
        g, line, m = part[0]
        ctx.ob(rid, "info|time-from-the-whole-duration", False,
               "the info line's time is formatted from Duration::%s, the part below one second: after 1.19 s it prints 190, less than the 712 printed before - the reported time decreases within one search (use as_millis)" % m,
               ctx.where(g, line))
    elif whole:
        ctx.ob(rid, "info|time-from-the-whole-duration", True, "", ctx.where(f), sample={"via": sorted({m for _, _, m in whole})})
    else:
        ctx.lost(rid, "how ConsoleUciTx::info turns the elapsed Duration into a number")


_run_before_r8 = run


def run(ctx):
    _run_before_r8(ctx)
    r8_time_is_the_whole_duration(ctx)


def r9_pv_comes_from_this_iteration(ctx):
    """the line that is reported (and stored) is computed from this iteration's result, not from the stored line"""
    rid = "C16.R9"
    ctx.rule(rid, "in Search::best_move the principal variation that is put into the info message and stored in the state is computed from the iteration's own search result: the previously stored line (state.principal_variation - it survives `position` and `ucinewgame`) does not flow into it, otherwise a line of an earlier position is reported as the line of this one", floor=1)
    from ..slice import Slicer
    f = ctx.fn(rid, SEARCH + "best_move", positional=False)
    seeds, sink_line = set(), None
    for b in f["blocks"]:
        if b["cleanup"]:
            continue
        for s in b["stmts"]:
            d = s["dst"]
            if d is not None and d["p"] and isinstance(d["p"][-1], dict) and d["p"][-1].get("name") == "principal_variation":
                for a in s["rv"].get("a", []):
                    if a.get("k") in ("copy", "move"):
                        seeds.add(a["pl"]["l"]); sink_line = sink_line or s["line"]
            if s["rv"].get("op") == "agg" and str(s["rv"].get("adt", "")).endswith("uci::Info") and "principal_variation" in (s["rv"].get("fields") or []):
                a = s["rv"]["a"][s["rv"]["fields"].index("principal_variation")]
                if a.get("k") in ("copy", "move"):
                    seeds.add(a["pl"]["l"]); sink_line = sink_line or s["line"]
    if not seeds:
        ctx.lost(rid, "where Search::best_move reports / stores the principal variation")
        return
    sl = Slicer(f)
    # the iteration's own result is a source: what went into the search (is_pv = "a stored line exists" steers the move
    # ordering) is not part of the question
    stop = {b["term"]["dest"]["l"] for b in f["blocks"] if b["term"]["k"] == "call" and b["term"].get("dest") and not b["term"]["dest"]["p"]
            and (b["term"]["callee"].get("key") == SEARCH + "search_negamax" or ((b["term"]["callee"].get("key") or "").startswith(SEARCH) and "ValuedMove" in f["locals"][b["term"]["dest"]["l"]]["ty"]))}
    locs, work = set(), list(seeds)
    while work:
        l = work.pop()
        if l in locs:
            continue
        locs.add(l)
        if l in stop or l <= f["args"]:
            continue        # (parameters - `self` above all - are "redefined" by every call that borrows them mutably)
        for (b_, used, term) in sl.defs.get(l, []):
            work.extend(used)

    def reads_stored(pl):
        return any(isinstance(e, dict) and e.get("name") == "principal_variation" and "Info" not in str(e.get("of")) for e in pl.get("p", [])) and pl["l"] not in seeds

    from ..cfg import Cfg
    cfg = Cfg(f)
    # reading the line back after this iteration has stored it is reading this iteration's line
    writes = []
    for bi, b in enumerate(f["blocks"]):
        for si, s in enumerate(b["stmts"]):
            d = s["dst"]
            if d is not None and d["p"] and isinstance(d["p"][-1], dict) and d["p"][-1].get("name") == "principal_variation":
                writes.append((bi, si))
    bad = None
    for bi, b in enumerate(f["blocks"]):
        if b["cleanup"] or bi not in cfg.reach:
            continue
        for si, s in enumerate(b["stmts"]):
            d = s["dst"]
            if d is None or d["l"] not in locs:
                continue
            places = ([s["rv"]["place"]] if "place" in s["rv"] else []) + [a["pl"] for a in s["rv"].get("a", []) if a.get("k") in ("copy", "move")]
            if any(reads_stored(pl) for pl in places):
                fresh = any((wb == bi and wi < si) or (wb != bi and cfg.dominates(wb, bi)) for wb, wi in writes)
                if not fresh:
                    bad = bad or s["line"]
    ctx.ob(rid, "best_move|pv-from-this-iteration", bad is None,
           "" if bad is None else "the principal variation Search::best_move reports and stores depends on the line stored before (state.principal_variation is read into it): after `position` / `ucinewgame` that is the line of another position, and it is printed - and its second move announced as ponder move - although it is not playable here",
           ctx.where(f, bad or sink_line), sample={"sinks": len(seeds), "locals_in_slice": len(locs)})


_run_before_r9 = run


def run(ctx):
    _run_before_r9(ctx)
    r9_pv_comes_from_this_iteration(ctx)
