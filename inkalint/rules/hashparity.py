"""A running hash kept in the search state must follow the board: on every path, each hash field has been xor-ed an
odd number of times exactly when the path leaves one more move made than it found. The rule is a parity dataflow over
the CFG of every function of Search that xors such a field (functions new to the reviewed tree are spliced into their
callers, so a make/unmake helper pair is seen in place): state per field = (outstanding makes + xor writes) mod 2,
which every make, unmake and xor flips; it must be 0 at every return and agree at every join.

On the reviewed tree the search passes its hashes down as arguments (nothing is stored), so the rule has no instance
there; it exists for the refactoring that moves them into the state."""
from ..cfg import Cfg
from ..expr import Exprs, leaves, show
from .. import balance as B
from .common import SEARCH


def _hash_field(pl):
    p = pl.get("p") or []
    if p and isinstance(p[-1], dict) and p[-1].get("name") and any(w in p[-1]["name"].lower() for w in ("zobrist", "hash")):
        return p[-1]["name"]
    return None


def _events(f, ex, b):
    """ordered flips of block b: list of field names (a hash xor-write) or '*' (make / unmake: flips every field)"""
    out = []
    blk = f["blocks"][b]
    for s in blk["stmts"]:
        if s["dst"] is None:
            continue
        n = _hash_field(s["dst"])
        if n is None:
            continue
        tv = ex.rvalue(s["rv"]) if hasattr(ex, "rvalue") else None
        if tv is not None and any(x[0] == "bin" and x[1] == "BitXor" for x in leaves(tv)):
            out.append((n, s["line"]))
    t = blk["term"]
    if t["k"] == "call":
        k = t["callee"].get("key") or ""
        if k in (B.MAKE, B.UNMAKE):
            out.append(("*", t["line"]))
        elif k.endswith("BitXorAssign>::bitxor_assign") or k.endswith("::bitxor_assign"):
            a0 = t["args"][0]
            # the receiver is `&mut place`: find the statement that took the reference
            if a0.get("k") in ("copy", "move") and not a0["pl"]["p"]:
                for s in blk["stmts"]:
                    if s["dst"] is not None and not s["dst"]["p"] and s["dst"]["l"] == a0["pl"]["l"] and s["rv"]["op"] in ("ref", "addr"):
                        n = _hash_field(s["rv"]["place"])
                        if n:
                            out.append((n, t["line"]))
    return out


def run(ctx, rid):
    ctx.rule(rid, "a hash the search keeps in its state follows the board: on every path of every Search function, each stored hash has been xor-ed an odd number of times exactly when the path leaves one more Bitboard::make than unmake behind (a make/unmake that is not accompanied by the xor - an early return for an illegal move, an abort path that calls the raw unmake - leaves the stored hash of another position)", floor=0)
    prog = ctx.prog
    n_inst = 0
    for k in sorted(prog.fns):
        if not k.startswith(SEARCH) or prog.fns[k].get("test") or "::promoted[" in k:
            continue
        f = prog.fns[k]
        cfg = Cfg(f)
        ex = Exprs(f)
        ev = {b: _events(f, ex, b) for b in cfg.reach if not f["blocks"][b]["cleanup"]}
        fields = sorted({n for es in ev.values() for n, _ in es if n != "*"})
        if not fields:
            continue
        makes = any(n == "*" for es in ev.values() for n, _ in es)
        if not makes:
            continue        # sets / xors a hash without touching the board (set_position, reset): not this rule
        for fld in fields:
            n_inst += 1
            state = {0: 0}
            work = [0]
            conflict = None
            out_state = {}
            while work:
                b = work.pop()
                p = state[b]
                for n, line in ev.get(b, []):
                    if n == "*" or n == fld:
                        p ^= 1
                out_state[b] = p
                for s in cfg.succ[b]:
                    if f["blocks"][s]["cleanup"]:
                        continue
                    if s not in state:
                        state[s] = p
                        work.append(s)
                    elif state[s] != p and conflict is None:
                        conflict = (b, s)
            bad = [b for b in out_state if f["blocks"][b]["term"]["k"] == "return" and out_state[b] == 1]
            if conflict and not bad:
                ctx.ob(rid, "%s|%s|hash-follows-the-board" % (k.rsplit("::", 1)[-1], fld), False,
                       "in %s two paths meet (bb%d -> bb%d) with the stored %s xor-ed a different number of times relative to the moves made: on one of them a make or unmake is not accompanied by the hash update, and the search goes on with the hash of another position (transposition entries, repetition counts and the pawn-structure cache are keyed by it)" % (f["display"], conflict[0], conflict[1], fld),
                       ctx.where(f, f["blocks"][conflict[1]]["term"].get("line")))
            elif bad:
                ctx.ob(rid, "%s|%s|hash-follows-the-board" % (k.rsplit("::", 1)[-1], fld), False,
                       "%s can return (bb%d) with the stored %s out of step with the board: a make or unmake on that path is not accompanied by the xor of the move's hash delta (the raw Bitboard::unmake instead of the helper that also restores the hash), so every later node works with the hash of another position" % (f["display"], bad[0], fld),
                       ctx.where(f, f["blocks"][bad[0]]["term"].get("line")))
            else:
                ctx.ob(rid, "%s|%s|hash-follows-the-board" % (k.rsplit("::", 1)[-1], fld), True, "", ctx.where(f), sample={"field": fld})
    return n_inst
