"""Derivation of the packed Move layout from the getters/setters themselves (C02.R1/R2, C03.R1)."""
from ..cfg import Cfg
from ..expr import PathEval, fold, Unfoldable, INT_BITS, is_signed, show, leaves

MOVE = "inkayaku_board::board::Move::"
BITS = ("f", ("*", ("param", 1)), "bits")


def single_path(f):
    cfg = Cfg(f)
    if cfg.has_loops():
        return None
    paths = [p for p in cfg.acyclic_paths() if f["blocks"][p[-1]]["term"]["k"] == "return"]
    return paths[0] if len(paths) == 1 else None


def ones(ty):
    b = INT_BITS.get(ty)
    return (1 << b) - 1 if b else None


def maybits(tree, f):
    """A4: mask of the bits that may be 1 in an integer tree (sound over-approximation), with its type"""
    k = tree[0]
    if k == "c":
        v = tree[1]
        if isinstance(v, bool):
            return int(v)
        if isinstance(v, int):
            o = ones(tree[2])
            return v & o if o is not None else v
        return None
    if k == "param":
        return ones(f["locals"][tree[1]]["ty"])
    if k == "cast":
        ty, inner, from_ty = tree[1], tree[2], tree[3]
        m = maybits(inner, f)
        o = ones(ty)
        if o is None:
            return None
        if m is None:
            m = ones(from_ty) if from_ty else None
            if m is None:
                return o
        if from_ty and is_signed(from_ty):
            b = INT_BITS[from_ty]
            if m >> (b - 1) & 1:
                return o  # sign extension
        return m & o
    if k == "bin":
        op, a, b, ty = tree[1], tree[2], tree[3], tree[4]
        o = ones(ty) if ty else None
        ma, mb = maybits(a, f), maybits(b, f)
        base = op.replace("Unchecked", "").replace("WithOverflow", "")
        if base == "BitAnd":
            if ma is None:
                return mb
            if mb is None:
                return ma
            return ma & mb
        if base in ("BitOr", "BitXor"):
            if ma is None or mb is None:
                return o
            return ma | mb
        if base in ("Shl", "Shr"):
            try:
                kk = fold(b)
            except Unfoldable:
                return o
            if ma is None:
                ma = o
            if ma is None:
                return None
            if base == "Shl":
                return (ma << kk) & o if o is not None else ma << kk
            return ma >> kk
        return o
    return None


def derive(ctx, rid):
    """returns (fields, setters). fields: name -> {mask, shift, ret_ty, getter}; setters: name -> {tree, kind, ...}"""
    prog = ctx.prog
    fields, setters = {}, {}
    for k, f in prog.fns.items():
        if not k.startswith(MOVE) or f["kind"] != "method" or k.count("::") != MOVE.count("::"):
            continue
        name = k[len(MOVE):]
        p = single_path(f)
        if p is None:
            continue
        pe = PathEval(f, p)
        if f["args"] == 1 and not pe.writes:
            t = pe.ret()
            ret_ty = f["locals"][0]["ty"]
            core = t
            if core[0] == "cast":
                core = core[2]
            if core[0] == "bin" and core[1] == "Shr":
                a, s = core[2], core[3]
                if a[0] == "bin" and a[1] == "BitAnd" and BITS in (a[2], a[3]):
                    m = a[3] if a[2] == BITS else a[2]
                    try:
                        fields[name] = {"mask": fold(m), "shift": fold(s), "ret_ty": ret_ty, "getter": k, "file": f["file"], "line": f["line"]}
                    except Unfoldable:
                        pass
        elif pe.writes:
            ws = [w for w in pe.writes if w[0] == BITS]
            if len(ws) == 1 and ws[0][1][0] == "bin" and ws[0][1][1] == "BitOr" and BITS in (ws[0][1][2], ws[0][1][3]):
                v = ws[0][1]
                e = v[3] if v[2] == BITS else v[2]
                setters[name] = {"tree": e, "key": k, "file": f["file"], "line": f["line"], "fn": f}
    return fields, setters


def pair(fields, setters):
    """setter name -> field name (by shift constant inside the written expression, or by mask for flags)"""
    out = {}
    by_mask = {v["mask"]: n for n, v in fields.items()}
    by_shift = {v["shift"]: n for n, v in fields.items()}
    for sname, s in setters.items():
        e = s["tree"]
        if e[0] == "c" and isinstance(e[1], int):
            if e[1] in by_mask:
                out[sname] = by_mask[e[1]]
            continue
        shifts = set()
        for x in leaves(e):
            if x[0] == "bin" and x[1] == "Shl":
                try:
                    shifts.add(fold(x[3]))
                except Unfoldable:
                    pass
        shifts = [s_ for s_ in shifts if s_ in by_shift]
        if len(shifts) == 1:
            out[sname] = by_shift[shifts[0]]
    return out


def getter_callers(ctx, fields, fnkey):
    """names of the fields whose getter (or is_* predicate built on it) is called, transitively through Move's own
    loop-free helpers, from function fnkey"""
    prog = ctx.prog
    getter_of = {v["getter"]: n for n, v in fields.items()}
    # predicates: Move methods that call exactly one getter
    pred_of = {}
    for k, f in prog.fns.items():
        if k.startswith(MOVE) and k not in getter_of:
            called = [b["term"]["callee"].get("key") for b in f["blocks"] if b["term"]["k"] == "call"]
            gs = [getter_of[c] for c in called if c in getter_of]
            if len(gs) == 1 and len(called) == 1:
                pred_of[k] = gs[0]
    f = prog.fns.get(fnkey)
    if f is None:
        return None
    used = set()
    for b in f["blocks"]:
        if b["cleanup"]:
            continue
        t = b["term"]
        if t["k"] == "call":
            c = t["callee"].get("key")
            if c in getter_of:
                used.add(getter_of[c])
            elif c in pred_of:
                used.add(pred_of[c])
    # a function that reads the packed word itself (`mv.bits >> 6 & 0xF` to index a table of the four lost-right
    # flags) reads fields without calling their getters: which ones is not read here, none of them counts as unread
    direct = False
    for b in f["blocks"]:
        if b["cleanup"]:
            continue
        for s in b["stmts"]:
            for a in s["rv"].get("a", []):
                if a.get("k") in ("copy", "move") and any(isinstance(e, dict) and e.get("name") == "bits" and (e.get("of") or "").endswith("::Move") for e in a["pl"]["p"]):
                    direct = True
            pl = s["rv"].get("place")
            if pl and any(isinstance(e, dict) and e.get("name") == "bits" and (e.get("of") or "").endswith("::Move") for e in pl["p"]):
                direct = True
    if direct and not fnkey.startswith(MOVE):
        ctx.lost("C02.R3", "%s reads Move.bits directly: which fields it reads is not derived from getter calls" % fnkey.rsplit("::", 1)[-1])
        used |= set(fields)
    return used
