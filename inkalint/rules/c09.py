"""C09 — an interrupted search leaves the engine's position untouched."""
from .common import run_balance, workspace_fns, table, count_calls_on_paths, SEARCH, UCITX
from .. import balance as B

SCOPE = "engine"
LEVEL = "other"
PANIC_PROFILES = True
EXPLANATION = (
    "Static all-paths analysis of the resolved MIR. R1: for every function of the engine crates and every board "
    "it calls Bitboard::make/unmake on, the product (basic block x outstanding-make count x return kind) is "
    "explored exhaustively; obligation: no outstanding make on a borrowed (caller's) board at any return. This "
    "covers every interruption point of the search at once, because the abort flag can only redirect control "
    "along CFG edges and every CFG path is examined. R2: on every returning path of Search::go exactly one call "
    "resolves to UciTx::best_move. Decided: the take-back mechanism; not decided: the depth-1 score comparison.")


def bestmove_rule(ctx, rid):
    ctx.rule(rid, "every returning path of Search::go calls UciTx::best_move exactly once (min = max = 1, not in a loop)", floor=1)
    f = ctx.fn(rid, SEARCH + "go")
    mn, mx, marked = count_calls_on_paths(f, lambda t: (t["callee"].get("orig") or t["callee"].get("key") or "") == UCITX + "best_move")
    ok = (mn == 1 and mx == 1)
    ctx.ob(rid, SEARCH + "go|best_move-per-path", ok,
           "" if ok else "Search::go emits best_move min=%s max=%s times per path (None = inside a loop / no returning path)" % (mn, mx),
           ctx.where(f), sample={"function": f["key"], "min": mn, "max": mx, "call_blocks": sorted(marked)})


def balance_rule(ctx, rid="C09.R1"):
    committers = {k: v for k, v in table("committers.json").items() if not k.startswith("_")}
    for k in committers:
        if isinstance(committers[k]["contract"], dict) and committers[k]["contract"].get("Ok") == "any":
            committers[k] = dict(committers[k], contract=None, skip=True)
    ctx.rule(rid, "no path of any function returns with an outstanding Bitboard::make on a board it borrowed", floor=3)
    ctx.rule(rid + "m", "the move taken back is the move that was made (same expression)", floor=2)
    for anchor in (B.MAKE, B.UNMAKE, SEARCH + "search_negamax", SEARCH + "search_quiescence"):
        ctx.fn(rid, anchor)
    # the board crate's own probes and converters are judged by C03.R5 / C13.R1; everything that
    # uses a board from outside (search, engine, apps) is judged here
    fns = [(k, f) for k, f in workspace_fns(ctx.prog) if not committers.get(k, {}).get("skip") and f["crate"] != "inkayaku_board"]
    n = run_balance(ctx, rid, fns, {k: v for k, v in committers.items() if not v.get("skip")})
    ctx.extra["functions_scanned"] = len(fns)
    ctx.extra["effect_sites"] = n
    # the two recursive searches must be among the analysed instances (fail closed)
    for a in ("search_negamax", "search_quiescence"):
        if not any(o["key"].startswith(rid + "|" + SEARCH + a + "|") for o in ctx.obligations):
            ctx.lost(rid, SEARCH + a + " (no make/unmake site found in it)")


def run_panics(ctx):
    from . import c07
    c07.run_panics(ctx, "C09.R3")


def run(ctx):
    balance_rule(ctx, "C09.R1")
    bestmove_rule(ctx, "C09.R2")
    # 'an interrupted search still answers with exactly one bestmove': the search thread must not die between the
    # interruption and the answer (same inventory as C07.R4)
    from . import c07
    c07.run_panics(ctx, "C09.R3")
    ctx.assumptions += [
        "Bitboard::make/unmake are the only primitives that change a board in place during search (C03 covers that unmake restores what make changed)",
        "panics (unwind paths) are not interruption points of the property; cleanup blocks are ignored",
        "the analysis is path-insensitive: a correlated pair `if c {make} ... if c {unmake}` would be reported (no such idiom exists in the tree)",
    ]
