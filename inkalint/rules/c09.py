"""C09 — an interrupted search leaves the engine's position untouched."""
from .common import run_balance, workspace_fns, table, count_calls_on_paths, SEARCH, UCITX
from .. import balance as B

SCOPE = "engine"
LEVEL = "other"
PANIC_PROFILES = True
EXPLANATION = (
    "Static all-paths analysis of the resolved MIR. R1: for every function of the engine crates and every board "
    "it calls Bitboard::make/unmake on, the product (basic block x outstanding-make count x return kind) is "
    "explored exhaustively; obligation: no outstanding make on a borrowed (caller's) board at any return. This "
    "covers every interruption point of the search at once, because the abort flag can only redirect control "
    "along CFG edges and every CFG path is examined. R2: on every returning path of Search::go exactly one call "
    "resolves to UciTx::best_move. Decided: the take-back mechanism; not decided: the depth-1 score comparison.")


def bestmove_rule(ctx, rid):
    ctx.rule(rid, "every returning path of Search::go calls UciTx::best_move exactly once (min = max = 1, not in a loop)", floor=1)
    f = ctx.fn(rid, SEARCH + "go")
    mn, mx, marked = count_calls_on_paths(f, lambda t: (t["callee"].get("orig") or t["callee"].get("key") or "") == UCITX + "best_move")
    ok = (mn == 1 and mx == 1)
    ctx.ob(rid, SEARCH + "go|best_move-per-path", ok,
           "" if ok else "Search::go emits best_move min=%s max=%s times per path (None = inside a loop / no returning path)" % (mn, mx),
           ctx.where(f), sample={"function": f["key"], "min": mn, "max": mx, "call_blocks": sorted(marked)})


def balance_rule(ctx, rid="C09.R1"):
    committers = {k: v for k, v in table("committers.json").items() if not k.startswith("_")}
    for k in committers:
        if isinstance(committers[k]["contract"], dict) and committers[k]["contract"].get("Ok") == "any":
            committers[k] = dict(committers[k], contract=None, skip=True)
    ctx.rule(rid, "no path of any function returns with an outstanding Bitboard::make on a board it borrowed", floor=3)
    ctx.rule(rid + "m", "the move taken back is the move that was made (same expression)", floor=2)
    for anchor in (B.MAKE, B.UNMAKE, SEARCH + "search_negamax", SEARCH + "search_quiescence"):
        ctx.fn(rid, anchor, positional=False)     # (presence only: the balance is explored on whatever they look like)
    # the board crate's own probes and converters are judged by C03.R5 / C13.R1; everything that
    # uses a board from outside (search, engine, apps) is judged here
    fns = [(k, f) for k, f in workspace_fns(ctx.prog) if not committers.get(k, {}).get("skip") and f["crate"] != "inkayaku_board"]
    n = run_balance(ctx, rid, fns, {k: v for k, v in committers.items() if not v.get("skip")})
    ctx.extra["functions_scanned"] = len(fns)
    ctx.extra["effect_sites"] = n
    # the two recursive searches must be among the analysed instances (fail closed)
    for a in ("search_negamax", "search_quiescence"):
        if not any(o["key"].startswith(rid + "|" + SEARCH + a + "|") for o in ctx.obligations):
            ctx.lost(rid, SEARCH + a + " (no make/unmake site found in it)")


def run_panics(ctx):
    from . import c07
    c07.run_panics(ctx, "C09.R3")


def run(ctx):
    balance_rule(ctx, "C09.R1")
    bestmove_rule(ctx, "C09.R2")
    r4_flags_and_iterations(ctx)
    from . import c07_struct
    c07_struct.r7_first_result_kept(ctx, rid="C09.R6", interrupted_only=True)
    from . import hashparity
    hashparity.run(ctx, "C09.R7")
    # the per-go node counter also paces the message / time poll (every 100,000 nodes): a counter that is not restarted
    # by every go makes a later go poll - and abort - at its first node (shared with C16.R4)
    from . import c16
    c16.r4_one_counter(ctx)
    # 'an interrupted search still answers with exactly one bestmove': the search thread must not die between the
    # interruption and the answer (same inventory as C07.R4)
    from . import c07
    c07.run_panics(ctx, "C09.R3")
    ctx.assumptions += [
        "Bitboard::make/unmake are the only primitives that change a board in place during search (C03 covers that unmake restores what make changed)",
        "panics (unwind paths) are not interruption points of the property; cleanup blocks are ignored",
        "the analysis is path-insensitive: a correlated pair `if c {make} ... if c {unmake}` would be reported (no such idiom exists in the tree)",
    ]


def r4_flags_and_iterations(ctx):
    """what an interrupted search leaves behind besides the board, and which iteration answers"""
    rid = "C09.R4"
    ctx.rule(rid, "every go starts with cleared search flags (reset_for_go resets them unconditionally and go calls it before searching), and in best_move nothing between the return of an iteration and the test of the stop flag can set that flag (a stop seen after an iteration completed must not discard it)", floor=3)
    from ..cfg import Cfg
    from ..expr import Exprs, leaves
    from ..callgraph import CallGraph
    prog = ctx.prog
    f = ctx.fn(rid, SEARCH + "reset_for_go")
    cfg, ex = Cfg(f), Exprs(f)
    resets = []
    for b in sorted(cfg.reach):
        for s in f["blocks"][b]["stmts"]:
            d = s["dst"]
            if d is None or not d["p"] or not isinstance(d["p"][-1], dict):
                continue
            nm = d["p"][-1].get("name")
            whole = nm == "flags"
            stop = nm == "stop_as_soon_as_possible" and s["rv"]["op"] == "use" and s["rv"]["a"][0].get("v") is False
            if whole or stop:
                resets.append(b)
        t = f["blocks"][b]["term"]
        if t["k"] == "call" and t.get("dest") and t["dest"]["p"] and isinstance(t["dest"]["p"][-1], dict) and t["dest"]["p"][-1].get("name") == "flags":
            resets.append(b)
    exits = [b for b in sorted(cfg.reach) if f["blocks"][b]["term"]["k"] == "return"]
    # unconditional: every path from the entry to a return passes a reset
    def reach_exit_avoiding(avoid):
        seen, work = set(), [0]
        while work:
            x = work.pop()
            if x in seen or x in avoid:
                continue
            seen.add(x)
            if x in exits:
                return True
            work.extend(y for y in cfg.succ[x] if not f["blocks"][y]["cleanup"])
        return False
    ok = bool(resets) and not reach_exit_avoiding(set(resets))
    ctx.ob(rid, "reset_for_go|flags-cleared-on-every-path", ok,
           "" if ok else "reset_for_go can return without having cleared the search flags (the reset is conditional): a stop flag left by the interrupted search aborts the next go at its root and it is answered without a move",
           ctx.where(f), sample={"reset_sites": len(resets)})
    g = ctx.fn(rid, SEARCH + "go")
    gcfg = Cfg(g)
    rs = [b for b in sorted(gcfg.reach) if g["blocks"][b]["term"]["k"] == "call" and g["blocks"][b]["term"]["callee"].get("key") == SEARCH + "reset_for_go"]
    bm = [b for b in sorted(gcfg.reach) if g["blocks"][b]["term"]["k"] == "call" and g["blocks"][b]["term"]["callee"].get("key") == SEARCH + "best_move"]
    if not bm:
        # the search is started some other way (best_move renamed, merged into go): judged on the search_negamax calls
        bm = [b for b in sorted(gcfg.reach) if g["blocks"][b]["term"]["k"] == "call" and g["blocks"][b]["term"]["callee"].get("key") == SEARCH + "search_negamax"]
    if not bm:
        ctx.lost(rid, "the call that starts the search in Search::go")
        return
    ok = len(rs) >= 1 and len(bm) >= 1 and all(any(gcfg.dominates(r, b) for r in rs) for b in bm)
    ctx.ob(rid, "go|reset-before-search", ok, "" if ok else "Search::go does not call reset_for_go before best_move on every path", ctx.where(g))
    # best_move: between the iteration's return and the test of the stop flag nothing may set the flag
    h = ctx.fn(rid, SEARCH + "best_move")
    hcfg, hex_ = Cfg(h), Exprs(h)
    rec = [b for b in sorted(hcfg.reach) if h["blocks"][b]["term"]["k"] == "call" and h["blocks"][b]["term"]["callee"].get("key") == SEARCH + "search_negamax"]
    if len(rec) != 1:
        ctx.lost(rid, "the search_negamax call of Search::best_move")
        return
    # functions that can set the stop flag
    setters = set()
    for k, fn in prog.fns.items():
        if not k.startswith("inkayaku_engine_core::") or fn.get("test"):
            continue
        for b in fn["blocks"]:
            for s in b["stmts"]:
                d = s["dst"]
                if d is not None and d["p"] and isinstance(d["p"][-1], dict) and d["p"][-1].get("name") == "stop_as_soon_as_possible" and not (s["rv"]["op"] == "use" and s["rv"]["a"][0].get("v") is False):
                    setters.add(k)
    cg = CallGraph(prog)
    # first read of the flag after the iteration
    reads = []
    for b in sorted(hcfg.reach):
        if not hcfg.dominates(rec[0], b) or b == rec[0]:
            continue
        for s in h["blocks"][b]["stmts"]:
            for a in s["rv"].get("a", []):
                if a.get("k") in ("copy", "move") and a["pl"]["p"] and isinstance(a["pl"]["p"][-1], dict) and a["pl"]["p"][-1].get("name") == "stop_as_soon_as_possible":
                    reads.append(b)
        t = h["blocks"][b]["term"]
        if t["k"] == "switch" and any(x[0] == "f" and x[2] == "stop_as_soon_as_possible" for x in leaves(hex_.operand(t["discr"]))):
            reads.append(b)
    if not reads:
        ctx.lost(rid, "the read of flags.stop_as_soon_as_possible after the iteration in Search::best_move")
        return
    first = [r for r in reads if all(hcfg.dominates(r, o) or r == o for o in reads)]
    first = first[0] if first else reads[0]
    between = []
    seen, work = set(), [y for y in hcfg.succ[rec[0]] if not h["blocks"][y]["cleanup"]]
    while work:
        x = work.pop()
        if x in seen or x == first:
            continue
        seen.add(x)
        t = h["blocks"][x]["term"]
        if t["k"] == "call":
            k = t["callee"].get("key") or ""
            reach, _ = cg.reachable([k]) if k in prog.fns else (set(), None)
            if (reach | {k}) & setters:
                between.append((k.rsplit("::", 1)[-1], t["line"]))
        work.extend(y for y in hcfg.succ[x] if not h["blocks"][y]["cleanup"] and hcfg.dominates(rec[0], y))
    ctx.ob(rid, "best_move|stop-flag-as-of-the-iteration's-return", not between,
           "" if not between else "Search::best_move calls %s between the return of an iteration and the test of the stop flag: a stop that arrives after the iteration completed marks that completed iteration as aborted, and the answer is taken from an earlier iteration (or is no move at all after iteration 1)" % sorted(set(between)),
           ctx.where(h, between[0][1] if between else None), sample={"flag_setters": sorted(s_.rsplit("::", 1)[-1] for s_ in setters)})
