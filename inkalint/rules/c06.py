"""C06 — position hashes: incremental equals recomputed, and identifies the position."""
from ..cfg import Cfg
from ..expr import Exprs, PathEval, Inliner, fold, Unfoldable, show, leaves, fold_const_value
from ..paths import returning_paths, NotLoopFree
from ..callgraph import CallGraph
from .common import BB, SEARCH
from .. import balance as B

SCOPE = "engine"
LEVEL = "other"
EXPLANATION = (
    "Static analysis of compiler-evaluated key material and of the resolved MIR. R1: all 781 Zobrist keys (12x64 "
    "piece-square, 8 e.p. files, 4 castling, 1 side) are non-zero and pairwise distinct, the two 'no piece' rows are "
    "zero, and castle_hash(side, colour), folded over its four inputs, selects exactly the key the from-scratch hash "
    "xors for that colour's right. R2: the field read set below calculate_zobrist_hash / calculate_zobrist_pawn_hash "
    "contains placement, side, rights and e.p. and never the clocks; all 12 (accessor, piece, colour) combinations "
    "are hashed with the piece constant equal to the occupancy index the accessor reads; the e.p. key is indexed by "
    "file only. R3: make and zobrist_xor agree on the castling squares per target and toggle the rights keys under "
    "the same four predicates; the e.p. victim square is target +/-8 for the same colour in both. R4: the search "
    "threads hash ^ delta(mv) for the move it made. Decided: these necessary conditions; not decided: incremental == "
    "recomputed for every legal move.")

Z = "inkayaku_board::board::zobrist::Zobrist::"
PS = "inkayaku_board::board::PlayerState::"


def r1_keys(ctx):
    rid = "C06.R1"
    ctx.rule(rid, "Zobrist key material: 'no piece' rows zero; every other key non-zero and all keys pairwise distinct; castle_hash selects the key of its (colour, side)", floor=10)
    prog = ctx.prog
    psh = prog.const_value(Z + "PIECE_SQUARE_HASHES")
    eph = prog.const_value(Z + "EN_PASSANT_HASHES")
    if not isinstance(psh, list) or not isinstance(eph, list):
        ctx.lost(rid, "Zobrist::PIECE_SQUARE_HASHES / EN_PASSANT_HASHES constants")
        return None
    c = prog.consts[Z + "PIECE_SQUARE_HASHES"]
    where = "%s:%d" % (c["file"], c["line"])
    ok = len(psh) == 14 and all(len(r) == 64 for r in psh)
    ctx.ob(rid, "shape-14x64", ok, "" if ok else "PIECE_SQUARE_HASHES is not 14 x 64", where)
    if not ok:
        return None
    for row in (0, 7):
        z = all(v == 0 for v in psh[row])
        ctx.ob(rid, "row-%d-zero" % row, z, "" if z else "row %d of PIECE_SQUARE_HASHES (piece index 0 = no piece) is not all zero: capturing 'nothing' would change the hash" % row, where)
    named = {}
    for k, cc in prog.consts.items():
        if k.startswith(Z) and cc["ty"] == "u64" and isinstance(cc["value"], int) and k.count("::") == Z.count("::"):
            named[k[len(Z):]] = cc["value"]
    keys = []
    for r in range(14):
        if r in (0, 7):
            continue
        for sq in range(64):
            keys.append(("piece[%d][%d]" % (r, sq), psh[r][sq]))
    keys += [("ep[%d]" % i, v) for i, v in enumerate(eph)]
    keys += sorted(named.items())
    zero = [n for n, v in keys if v == 0]
    ctx.ob(rid, "all-keys-nonzero", not zero, "" if not zero else "zero keys (the component would not influence the hash): %s" % zero[:6], where, sample={"keys": len(keys)})
    seen = {}
    dup = []
    for n, v in keys:
        if v in seen:
            dup.append((seen[v], n))
        seen[v] = n
    ctx.ob(rid, "all-keys-distinct", not dup, "" if not dup else "equal keys (two different components cancel each other): %s" % dup[:6], where)
    ok = len(named) == 5 and len(eph) == 8
    ctx.ob(rid, "key-inventory", ok, "" if ok else "expected 4 castle keys + 1 side key and 8 e.p. keys, found %s / %d" % (sorted(named), len(eph)), where,
           sample={"named_keys": sorted(named), "total_keys": len(keys)})
    # castle_hash folded over its four inputs vs. the keys the from-scratch hash uses
    f = ctx.fn(rid, BB + "_zobrist_hash")
    inl = None
    scratch = {}  # (param index, flag name) -> key value
    cfg, ex = Cfg(f), Exprs(f)
    for b in sorted(cfg.reach):
        t = f["blocks"][b]["term"]
        if t["k"] != "switch":
            continue
        d = ex.operand(t["discr"])
        if d[0] == "f" and d[2].endswith("_castle") and d[1][0] == "*" and d[1][1][0] == "param":
            arm = t["otherwise"]
            # the key xored in the true arm: a BitXor with a named constant
            for s in f["blocks"][arm]["stmts"]:
                rv = s["rv"]
                if rv["op"] == "bin" and rv["bop"] == "BitXor":
                    for a in rv["a"]:
                        if a["k"] == "const" and isinstance(a.get("v"), int):
                            scratch[(d[1][1][1], d[2])] = a["v"]
    if len(scratch) != 4:
        ctx.lost(rid, "_zobrist_hash: four `if <player>.<side>_castle { hash ^= KEY }` arms (found %d)" % len(scratch))
        return None
    g = ctx.fn(rid, Z + "castle_hash")
    try:
        gp = returning_paths(g)
    except NotLoopFree:
        ctx.lost(rid, "castle_hash has a loop")
        return None
    consts = {k.rsplit("::", 1)[-1]: v["value"] for k, v in prog.consts.items() if k in ("inkayaku_board::board::constants::QUEEN", "inkayaku_board::board::constants::KING")}
    if len(consts) != 2 or len(gp) != 1:
        ctx.lost(rid, "QUEEN/KING constants or straight-line castle_hash")
        return None
    for colour, pidx in ((0, 1), (1, 2)):
        for side, flag in (("QUEEN", "queen_side_castle"), ("KING", "king_side_castle")):
            try:
                v = fold(gp[0].ret(), {("param", 1): consts[side], ("param", 2): colour})
            except Unfoldable as e:
                ctx.lost(rid, "castle_hash(%s, %d) does not fold: %s" % (side, colour, e))
                continue
            want = scratch.get((pidx, flag))
            ok = v == want
            ctx.ob(rid, "castle_hash(%s,%s)" % (side, "WHITE" if colour == 0 else "BLACK"), ok,
                   "" if ok else "incremental update uses key %#x for (%s side, colour %d) but the from-scratch hash xors %#x for that right" % (v, side, colour, want or 0),
                   ctx.where(g), sample={"side": side, "colour": colour, "key": hex(v)})
    return scratch


def fields_read_below(ctx, entry):
    prog = ctx.prog
    if not hasattr(ctx, "_cg"):
        ctx._cg = CallGraph(prog)
    seen, _ = ctx._cg.reachable([entry])
    names = set()
    for k in seen:
        f = prog.fns[k]
        for b in f["blocks"]:
            if b["cleanup"]:
                continue
            def scan_place(pl):
                for e in pl["p"]:
                    if isinstance(e, dict) and "f" in e and (e.get("of") or "") in ("inkayaku_board::board::Bitboard", "inkayaku_board::board::PlayerState"):
                        names.add(e["name"])
            for s in b["stmts"]:
                rv = s["rv"]
                for a in rv.get("a", []):
                    if a.get("k") in ("copy", "move"):
                        scan_place(a["pl"])
                if "place" in rv:
                    scan_place(rv["place"])
            t = b["term"]
            if t["k"] == "call":
                for a in t["args"]:
                    if a.get("k") in ("copy", "move"):
                        scan_place(a["pl"])
            if t["k"] == "switch" and t["discr"].get("k") in ("copy", "move"):
                scan_place(t["discr"]["pl"])
    return names, seen


def r2_reads(ctx):
    rid = "C06.R2"
    ctx.rule(rid, "the from-scratch hashes read placement, side, rights and e.p. and never the clocks; 12 (accessor, piece, colour) triples with piece = occupancy index; e.p. key indexed by file", floor=16)
    prog = ctx.prog
    for entry, need in ((BB + "calculate_zobrist_hash", {"white", "black", "turn", "en_passant_square_shift", "occupancy", "queen_side_castle", "king_side_castle"}),
                        (BB + "calculate_zobrist_pawn_hash", {"white", "black", "turn", "en_passant_square_shift", "occupancy"})):
        f = ctx.fn(rid, entry)
        names, seen = fields_read_below(ctx, entry)
        missing = need - names
        clocks = names & {"halfmove_clock", "fullmove_clock"}
        nm = entry.rsplit("::", 1)[-1]
        ctx.ob(rid, "%s|reads-position" % nm, not missing, "" if not missing else "%s never reads %s: positions differing only there hash identically" % (nm, sorted(missing)), ctx.where(f),
               sample={"entry": nm, "fields_read": sorted(names), "functions": len(seen)})
        ctx.ob(rid, "%s|ignores-clocks" % nm, not clocks, "" if not clocks else "%s reads %s: the same position with different clocks would hash differently" % (nm, sorted(clocks)), ctx.where(f))
        # the call passes white as first and black as second player
        pe = returning_paths(f)
        t = pe[0].ret() if len(pe) == 1 else None
        ok = False
        if t and t[0] == "call":
            a = [x[1] if x[0] == "&" else x for x in t[2]]
            ok = len(a) == 4 and a[0] == ("f", ("*", ("param", 1)), "white") and a[1] == ("f", ("*", ("param", 1)), "black") \
                and a[2] == ("f", ("*", ("param", 1)), "turn") and a[3] == ("f", ("*", ("param", 1)), "en_passant_square_shift")
        if not (t and t[0] == "call" and len(t[2]) == 4):
            # the from-scratch hash is not one call that is handed the four parts of the position (it was merged with
            # its helper, or composes several partial hashes)
            ctx.lost(rid, "%s as one call passing (white, black, turn, e.p. square)" % nm)
        else:
            ctx.ob(rid, "%s|argument-order" % nm, ok, "" if ok else "%s passes %s (expected white, black, turn, en_passant_square_shift)" % (nm, show(t) if t else "?"), ctx.where(f))
    # triples
    inl = Inliner(prog, only=lambda k: k.startswith(PS))
    triples = []

    def strip(t):
        while t[0] in ("cast", "&", "*"):
            t = t[2] if t[0] == "cast" else t[1]
        return t

    def root_param(t):
        t = strip(t)
        while t[0] in ("f", "idx", "*", "&", "cast"):
            t = strip(t[1]) if t[0] != "cast" else strip(t[2])
        return t[1] if t[0] == "param" else None
    for key in (BB + "_zobrist_hash", BB + "_zobrist_pawn_hash"):
        f = ctx.fn(rid, key)
        cfg = Cfg(f)
        ex = Exprs(f)
        for b in sorted(cfg.reach):
            t = f["blocks"][b]["term"]
            if t["k"] == "call" and t["callee"].get("key") == BB + "zobrist_hash_for_occupancy":
                occ, piece, colour = [ex.operand(a) for a in t["args"]]
                # where the occupancy comes from: an accessor of PlayerState (resolved to its index) or occupancy[i] itself
                src = occ
                if occ[0] == "call" and occ[1].startswith(PS) and len(occ[2]) == 1:
                    sm = inl(occ[1], list(occ[2]))
                    if sm is not None:
                        src = sm
                idx_tree, player = None, None
                for x in [strip(src)] + list(leaves(src)):
                    if x[0] == "idx" and strip(x[1])[0] == "f" and strip(x[1])[2] == "occupancy":
                        idx_tree = strip(x[2])
                        player = root_param(x[1])
                        break
                def val(tr):
                    try:
                        return fold(tr)
                    except Unfoldable:
                        return None
                triples.append((player, idx_tree, val(idx_tree) if idx_tree is not None else None, strip(piece), val(piece), val(colour), t["line"], f))
    symbolic = False
    for player, idx_tree, k_occ, piece_tree, pv, cv, line, f in triples:
        pname = {1: "white", 2: "black"}.get(player)
        if idx_tree is None or player not in (1, 2) or cv is None:
            symbolic = True
            ctx.lost(rid, "a zobrist_hash_for_occupancy call whose occupancy / colour is not read from a player parameter with a constant colour")
            continue
        if k_occ is not None and pv is not None:
            ok = k_occ == pv and cv == player - 1
        elif idx_tree == piece_tree:
            # occupancy[i] hashed as piece i for a running i (a loop over the piece codes)
            ok = cv == player - 1
            symbolic = True
        else:
            symbolic = True
            ctx.lost(rid, "a zobrist_hash_for_occupancy call whose occupancy index (%s) and piece (%s) are different non-constant expressions" % (show(idx_tree), show(piece_tree)))
            continue
        ctx.ob(rid, "triple|player%s|occ%s" % (player, k_occ if k_occ is not None else "i"), ok,
               "" if ok else "pieces read from occupancy[%s] of player %s are hashed as piece %s of colour %s" % (k_occ if k_occ is not None else show(idx_tree), pname, pv if pv is not None else show(piece_tree), cv),
               ctx.where(f, line), sample={"player": pname, "occupancy_index": k_occ, "piece_const": pv, "colour_const": cv})
    if not symbolic:
        combos = {(p, k) for p, _, k, _, _, _, _, _ in triples}
        ok = combos == {(p, k) for p in (1, 2) for k in range(1, 7)} and len(triples) == 12
        ctx.ob(rid, "twelve-combinations", ok, "" if ok else "hashed (player, piece) combinations: %s" % sorted(combos, key=str), "")
    else:
        ctx.lost(rid, "the twelve (player, piece) combinations: some are hashed in a loop / through an expression, their count is not read here")
    # en passant by file
    g = ctx.fn(rid, Z + "en_passant_square_hash")
    gp = returning_paths(g)
    t = gp[0].ret() if len(gp) == 1 else None
    ok = False
    if t and t[0] == "idx":
        i = t[2]
        while i[0] == "cast":
            i = i[2]
        ok = i[0] == "bin" and i[1] == "Rem" and i[2] == ("param", 1) and i[3][0] == "c" and i[3][1] == 8
    ctx.ob(rid, "ep-key-by-file", ok, "" if ok else "en_passant_square_hash indexes with %s, not square %% 8" % (show(t) if t else "?"), ctx.where(g))
    # zobrist_hash_for_occupancy passes (piece, lsb square, colour) through
    h = ctx.fn(rid, BB + "zobrist_hash_for_occupancy")
    ex = Exprs(h)
    ok = False
    for b in h["blocks"]:
        t = b["term"]
        if t["k"] == "call" and t["callee"].get("key") == Z + "piece_square_hash":
            a = [ex.operand(x) for x in t["args"]]
            ok = a[0] == ("param", 2) and a[2] == ("param", 3) and any(x[0] == "call" and (x[1].endswith("mask_and_shift_from_lowest_one_bit") or x[1].endswith("::trailing_zeros")) for x in [a[1]] + list(leaves(a[1])))
    ctx.ob(rid, "occupancy-hash-passes-piece-square-colour", ok, "" if ok else "zobrist_hash_for_occupancy does not call piece_square_hash(piece, lowest-set-bit square, colour)", ctx.where(h))


def r3_agreement(ctx):
    rid = "C06.R3"
    ctx.rule(rid, "make and zobrist_xor agree: castling squares per target, rights keys toggled under the same four predicates, e.p. victim square target +/- 8", floor=9)
    prog = ctx.prog
    from . import movefields as MF
    fields, setters = MF.derive(ctx, rid)
    used_make = MF.getter_callers(ctx, fields, BB + "make")
    used_xor = MF.getter_callers(ctx, fields, BB + "zobrist_xor")
    if used_make is None or used_xor is None or len(fields) < 16:
        ctx.lost(rid, "Move field derivation / make / zobrist_xor")
        return
    f = prog.fns[BB + "zobrist_xor"]
    # every position-changing field make reads must be read by zobrist_xor (clocks excepted: not hashed)
    rights = {n for n in fields if "lost" in n}
    for n in sorted((used_make - {"get_halfmove_reset"} - {n_ for n_ in used_make if "previous" in n_})):      # (undo fields: make can only look at them to assert, they change nothing)
        ok = n in used_xor
        ctx.ob(rid, "field-read-by-both|%s" % n, ok, "" if ok else "make applies move field %s but zobrist_xor never reads it: the incremental hash misses that effect" % n, ctx.where(f))
    # castling squares
    cfg, ex = Cfg(f), Exprs(f)
    tuples = {}
    for b in sorted(cfg.reach):
        for s in f["blocks"][b]["stmts"]:
            rv = s["rv"]
            if rv["op"] == "agg" and rv["kind"] == "tuple" and len(rv["a"]) == 4 and all(a["k"] == "const" and isinstance(a.get("v"), int) for a in rv["a"]):
                tgt = None
                for (a, sb) in cfg.control_deps().get(b, ()):
                    sw = f["blocks"][a]["term"]
                    if sw["k"] == "switch" and len(sw["targets"]) >= 4:
                        vals = [v for v, tb in sw["targets"] if tb == sb]
                        if len(vals) == 1:
                            tgt = vals[0]
                tuples[tgt] = tuple(a["v"] for a in rv["a"])
    from .c03 import r3_castle_swap  # reuse the arm extraction
    mk = {}
    g = prog.fns.get(BB + "make")
    gcfg, gex = Cfg(g), Exprs(g)
    for b in sorted(gcfg.reach):
        t = g["blocks"][b]["term"]
        if t["k"] == "call" and t["callee"].get("key") == BB + "make_castle":
            args = [gex.operand(a) for a in t["args"]]
            consts = tuple(a[1] for a in args if a[0] == "c" and isinstance(a[1], int))
            tgt = None
            for (a, sb) in gcfg.control_deps().get(b, ()):
                sw = g["blocks"][a]["term"]
                if sw["k"] == "switch" and len(sw["targets"]) >= 4:
                    vals = [v for v, tb in sw["targets"] if tb == sb]
                    if len(vals) == 1:
                        tgt = vals[0]
            mk[tgt] = consts
    if len(tuples) != 4 or len(mk) != 4:
        ctx.lost(rid, "four castle arms in zobrist_xor (%d) and make (%d)" % (len(tuples), len(mk)))
        return
    # generator: make_castle_move(source, target) constants
    gen = prog.fns.get(BB + "castle_moves")
    src_of = {}
    if gen:
        gx = Exprs(gen)
        for b in gen["blocks"]:
            t = b["term"]
            if t["k"] == "call" and t["callee"].get("key") == BB + "make_castle_move":
                a = [gx.operand(x) for x in t["args"]]
                try:
                    src_of[fold(a[3])] = fold(a[2])
                except (Unfoldable, IndexError):
                    pass
    gen_lost = False
    for tgt in sorted(tuples, key=str):
        rs, ks, rt, kt = tuples[tgt]
        m = mk.get(tgt)
        if tgt not in src_of and not gen_lost:
            # the generator no longer passes constant squares (a table of castle rules, a loop): its squares are not read here
            gen_lost = True
            ctx.lost(rid, "the king's source squares the castle generator passes to make_castle_move")
        ok = m is not None and len(m) == 2 and m[0] == 1 << rs and m[1] == 1 << rt and kt == tgt and (src_of.get(tgt) == ks or tgt not in src_of)
        ctx.ob(rid, "castle-squares|target-%s" % tgt, ok,
               "" if ok else "castling to square %s: zobrist_xor moves rook %s->%s, king %s->%s; make moves rook masks %s; generator king source %s"
               % (tgt, rs, rt, ks, kt, [hex(x) for x in (m or ())], src_of.get(tgt)),
               ctx.where(f), sample={"target": tgt, "rook": [rs, rt], "king": [ks, kt]})
    # e.p. victim: +8 for white mover in both (make: target_mask << 8 ; xor: target_shift + 8)
    def ep_offset(fn, kind):
        c, e = Cfg(fn), Exprs(fn)
        out = {}
        for b in sorted(c.reach):
            for s in fn["blocks"][b]["stmts"]:
                rv = s["rv"]
                if rv["op"] != "bin":
                    continue
                bop = rv["bop"].replace("WithOverflow", "")
                if kind == "mask" and bop in ("Shl", "Shr") and rv["a"][1].get("k") == "const" and rv["a"][1].get("v") == 8:
                    sign = 8 if bop == "Shl" else -8
                elif kind == "shift" and bop in ("Add", "Sub") and rv["a"][1].get("k") == "const" and rv["a"][1].get("v") == 8:
                    sign = 8 if bop == "Add" else -8
                else:
                    continue
                # which colour: control dependence on is_white_turn / self_color == WHITE
                for (a, sb) in c.control_deps().get(b, ()):
                    sw = fn["blocks"][a]["term"]
                    if sw["k"] == "switch":
                        true_edge = sb == sw["otherwise"]
                        out["white" if true_edge else "black"] = sign
        return out
    om, ox = ep_offset(g, "mask"), ep_offset(f, "shift")
    ok = om == ox and set(om) == {"white", "black"} and om.get("white") == 8 and om.get("black") == -8
    if not ox or not om:
        ctx.lost(rid, "the e.p. victim offset in %s (not written as a +8 / -8 under a test of the side)" % ("zobrist_xor" if not ox else "make"))
        ok = None
    if ok is not None:
      ctx.ob(rid, "ep-victim-square", ok, "" if ok else "e.p. victim offset: make %s, zobrist_xor %s (expected white +8, black -8 in both)" % (om, ox), ctx.where(f),
           sample={"make": om, "zobrist_xor": ox})


def _delta_by_helper(ctx, f, ex, a, ai, mv, name):
    """the hash delta is computed by a helper that is new to the reviewed tree (and was spliced into the caller): its
    paths are compared, move kind by move kind, with the matching component of zobrist_xor. Returns (ok, text) or None
    when this does not apply / cannot be read."""
    from . import movefx as FX
    prog = ctx.prog
    sites = [s_ for s_ in prog.inline_sites if s_["caller"] == f["key"]]
    cands = []
    for s_ in sites:
        g = prog.helper_bodies.get(s_["callee"]) or prog.fns.get(s_["callee"])
        if g is None:
            continue
        n = g["args"] if isinstance(g["args"], int) else len(g["args"])
        if n == 1 and "Move" in g["locals"][1]["ty"] and g["locals"][0]["ty"] in ("u64", "inkayaku_board::constants::ZobristHash"):
            if mv is not None and ex.local(s_["local_offset"] + 1) == mv:
                cands.append(g)
    if len(cands) != 1 or not (a[0] == "bin" and a[1] == "BitXor" and ("param", ai + 1) in (a[2], a[3])):
        return None
    g = cands[0]
    want = 0 if (name == "search_negamax" and ai == 7) else 1
    try:
        acc = FX.accessor_indices(prog)
        ref, _ = FX.xor_table(prog, acc)
        mine, _ = FX.xor_table(prog, acc, fn=g)
    except FX.FxError as e:
        return None
    except Exception:
        return None
    norm = lambda ts: sorted((("piece", x[1], x[2], FX.base_name_sq(x[3])) if x[0] == "piece" else x) for x in ts)
    _C = {n_: prog.const_value("inkayaku_board::board::constants::" + n_) for n_ in ("PAWN", "KING", "NO_PIECE")}
    n_pairs = 0
    for p_ in mine:
        for q_ in ref:
            if not FX.compatible_paths(p_, q_):
                continue
            eqs = dict(q_[1]); eqs.update(p_[1])
            for k_ in set(q_[1]) & set(p_[1]):
                if k_.startswith("ne:"):
                    eqs[k_] = set(q_[1][k_]) | set(p_[1][k_])
            # moves the generator can produce: a promotion or an e.p. capture is a pawn move (e.p. captures a pawn),
            # a castling move is a king move that captures nothing
            kd = {k: (p_[0].get(k) if p_[0].get(k) is not None else q_[0].get(k)) for k in ("castle", "ep", "promo")}
            def known(g, v):
                return eqs.get(g) == v
            def excluded(g, v):
                return (g in eqs and eqs[g] != v) or v in eqs.get("ne:" + g, ())
            PAWN_, KING_, NONE_ = _C["PAWN"], _C["KING"], _C["NO_PIECE"]
            if (kd["promo"] or kd["ep"]) and excluded("get_piece_moved", PAWN_):
                continue
            if kd["ep"] and excluded("get_piece_attacked", PAWN_):
                continue
            if "ne:get_next_en_passant_square" in eqs and excluded("get_piece_moved", PAWN_):
                continue        # only a pawn's double step creates an e.p. target
            if kd["castle"] and (excluded("get_piece_moved", KING_) or excluded("get_piece_attacked", NONE_)):
                continue
            n_pairs += 1
            def canon(ts):
                out = []
                for x in norm(ts):
                    if x[0] == "piece" and x[2][0] == "getter" and x[2][1] in eqs and not isinstance(eqs[x[2][1]], set):
                        x = ("piece", x[1], ("const", eqs[x[2][1]]), x[3])
                    out.append(x)
                return sorted(out, key=repr)
            got, exp = canon(p_[2]), canon(q_[2 + want])
            if got != exp:
                kind = {k: v for k, v in q_[0].items() if v is not None}
                return (False, "the hash delta is computed by %s, which differs from zobrist_xor(mv).%d for a move with %s (established: %s): it toggles %s, zobrist_xor toggles %s"
                        % (g["display"], want, kind or "no special kind", {k: (sorted(v) if isinstance(v, set) else v) for k, v in eqs.items()}, got, exp))
    if n_pairs == 0:
        return None
    return (True, "%s agrees with zobrist_xor(mv).%d on all %d compatible path pairs" % (g["display"], want, n_pairs))


def r4_threading(ctx):
    rid = "C06.R4"
    ctx.rule(rid, "the recursive searches pass hash ^ zobrist_xor(mv) for the move handed to the dominating make", floor=3)
    prog = ctx.prog
    for name, hash_args in (("search_negamax", (7, 8)), ("search_quiescence", (5,))):
        f = ctx.fn(rid, SEARCH + name)
        cfg, ex = Cfg(f), Exprs(f)
        rec = [b for b in sorted(cfg.reach) if f["blocks"][b]["term"]["k"] == "call" and f["blocks"][b]["term"]["callee"].get("key") == SEARCH + name]
        makes = [b for b in sorted(cfg.reach) if f["blocks"][b]["term"]["k"] == "call" and f["blocks"][b]["term"]["callee"].get("key") == B.MAKE]
        if not rec or not makes:
            ctx.lost(rid, "%s: recursive call / make" % name)
            continue
        for rb in rec:
            t = f["blocks"][rb]["term"]
            dom = [m for m in makes if cfg.dominates(m, rb)]
            mv = ex.operand(f["blocks"][dom[-1]]["term"]["args"][1]) if dom else None
            for ai in hash_args:
                a = ex.operand(t["args"][ai])
                ok = False
                opaque = a != ("param", ai + 1)      # an unchanged hash is wrong; anything else unread so far is unknown
                why = "argument %d is %s" % (ai, show(a))
                if a[0] == "bin" and a[1] == "BitXor":
                    parts = [a[2], a[3]]
                    par = [p for p in parts if p == ("param", ai + 1)]
                    delta = [p for p in parts if p != ("param", ai + 1)]
                    if par and delta:
                        d = delta[0]
                        calls = [x for x in leaves(d) if x[0] == "call" and x[1] == BB + "zobrist_xor"]
                        if calls and mv is not None and calls[0][2][0] == mv:
                            # full hash takes component 0, pawn hash component 1
                            comp = d[2] if d[0] == "f" else None
                            want = "0" if (name == "search_negamax" and ai == 7) else "1"
                            ok = comp == want
                            opaque = False
                            why = "component .%s of zobrist_xor used for hash parameter %d (expected .%s)" % (comp, ai + 1, want)
                        else:
                            # zobrist_xor of another move: wrong; a delta computed some other way (a helper, a local
                            # assigned on several paths): not read by this rule
                            opaque = not calls
                            why = "delta %s is not zobrist_xor of the move made (%s)" % (show(d), show(mv) if mv else None)
                if not ok and opaque:
                    verdict = _delta_by_helper(ctx, f, ex, a, ai, mv, name)
                    if verdict is not None:
                        okh, whyh = verdict
                        ctx.ob(rid, "%s|hash-arg-%d" % (name, ai + 1), okh, "" if okh else "%s: %s" % (name, whyh), ctx.where(f, t["line"]), sample={"function": name, "argument": show(a), "delta_helper": whyh if okh else None})
                        continue
                    ctx.lost(rid, "%s: hash argument %d is computed in a way this rule does not read (%s)" % (name, ai + 1, show(a)[:80]))
                    continue
                ctx.ob(rid, "%s|hash-arg-%d" % (name, ai + 1), ok, "" if ok else "%s: %s" % (name, why), ctx.where(f, t["line"]), sample={"function": name, "argument": show(a)})


def run(ctx):
    r1_keys(ctx)
    r2_reads(ctx)
    r3_agreement(ctx)
    r4_threading(ctx)


_run_before_fx = run


def run(ctx):
    _run_before_fx(ctx)
    from . import movefx_rules
    movefx_rules.rule_hash_vs_make(ctx)
    # the hash delta is computed from the packed move: its fields must be disjoint and wide enough for their values
    # (shared with C02.R1), otherwise a large clock leaks into the previous-e.p. field the delta reads
    from . import c02, movefields as MF_
    fields, setters = MF_.derive(ctx, "C02.R1")
    if len(fields) >= 16:
        c02.r1_layout(ctx, fields)
    else:
        ctx.lost("C02.R1", "Move getters (derived %d fields)" % len(fields))


_run_before_parity = run


def run(ctx):
    _run_before_parity(ctx)
    from . import hashparity
    hashparity.run(ctx, "C06.R7")
