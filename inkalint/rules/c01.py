"""C01 — legal move generation is exactly the rules of chess (structural clauses)."""
from ..cfg import Cfg
from ..expr import Exprs, PathEval, Inliner, fold, Unfoldable, show, leaves, resolve_promoted
from ..paths import returning_paths, NotLoopFree
from .. import geometry as G
from .common import BB
from . import c02

SCOPE = "engine"
LEVEL = "other"
EXPLANATION = (
    "Static analysis of the resolved MIR with a board-geometry oracle. R1: every path of castle_moves is enumerated; "
    "each castling move is emitted under exactly: side to move, that side's right for that wing, emptiness of the "
    "squares strictly between king and rook, and no attack (by the opponent, with the mover's colour) on the king's "
    "path from e-file to target; source/target squares are e-file and +-2 files on the mover's back rank (8 mask "
    "constants judged by value). R2: the capture/promotion generator calls the same piece generators with the same "
    "tables, piece constants and occupancies as the full generator, minus castling, with the quiet-filter flag set. "
    "R3: promotions are generated to exactly queen, rook, bishop, knight. R4: a generated move is dropped exactly "
    "when it captures nothing, promotes to nothing and the filter flag is set (all paths of make_move). R5: in every "
    "two-armed branch on the side to move of the generator/make/unmake/hash code, shifts by 8 face the opposite shift, "
    "bitboard masks face their byte-swapped image, +8 faces -8, white player/table faces black. Decided: these "
    "necessary conditions; not decided: that the generated set equals the FIDE set for every position.")

GEN_FULL = BB + "generate_pseudo_legal_moves_with_buffer"
GEN_NQ = BB + "generate_pseudo_legal_non_quiescent_moves_with_buffer"
PS = "inkayaku_board::board::PlayerState::"


def files_mask(files, row):
    return sum(1 << G.sq_of(f, row) for f in files)


def r1_castling(ctx):
    rid = "C01.R1"
    ctx.rule(rid, "castling: emitted under side-to-move, the right of that wing, empty squares between king and rook, no attack on the king's path; squares and masks equal the geometry of the rules", floor=4)
    prog = ctx.prog
    f = ctx.fn(rid, BB + "castle_moves")
    try:
        inl = Inliner(prog, only=lambda k: k == BB + "is_white_turn")
        pes = returning_paths(f, inliner=inl)
    except NotLoopFree:
        ctx.lost(rid, "castle_moves has a loop")
        return
    per_call = {}
    for pe in pes:
        conds = set()
        for (d, c, b, ty) in pe.conds:
            conds.add((d, c != ("in", (0,))))
        for b, t in pe.calls:
            if t[0] == "call" and t[1] == BB + "make_castle_move":
                try:
                    key = (fold(t[2][2]), fold(t[2][3]))
                except Unfoldable:
                    ctx.lost(rid, "make_castle_move called with non-constant squares: %s" % show(t))
                    return
                per_call[key] = conds if key not in per_call else (per_call[key] & conds)
    if len(per_call) != 4:
        ctx.lost(rid, "four distinct castling moves in castle_moves (found %s)" % sorted(per_call))
        return
    ctx.extra["castle_paths"] = len(pes)
    expected = {}
    for colour, row, me, other in ((0, 7, "white", "black"), (1, 0, "black", "white")):
        for wing, to_file, empty, check, flag in (("queen", 2, (1, 2, 3), (2, 3, 4), "queen_side_castle"), ("king", 6, (5, 6), (4, 5, 6), "king_side_castle")):
            expected[(G.sq_of(4, row), G.sq_of(to_file, row))] = dict(colour=colour, me=me, other=other, wing=wing, empty=files_mask(empty, row), check=files_mask(check, row), flag=flag)
    SELF = ("*", ("param", 1))
    for key in sorted(set(per_call) | set(expected)):
        if key not in expected:
            ctx.ob(rid, "castle|%d->%d" % key, False, "castle_moves emits a king move %d -> %d that is not a castling move of the rules (e-file to c/g-file on the back rank)" % key, ctx.where(f))
            continue
        e = expected[key]
        if key not in per_call:
            ctx.ob(rid, "castle|%d->%d" % key, False, "castling %s side for %s (king %d -> %d) is never generated" % (e["wing"], e["me"], key[0], key[1]), ctx.where(f))
            continue
        conds = per_call[key]
        got = {"turn": None, "flags": [], "empty": [], "attack": []}
        for d, truth in conds:
            if d[0] == "bin" and d[1] == "Eq" and ("f", SELF, "turn") in (d[2], d[3]):
                cst = d[3] if d[2] == ("f", SELF, "turn") else d[2]
                got["turn"] = (fold(cst), truth)
            elif d[0] == "call" and d[1] == BB + "is_white_turn":
                got["turn"] = (0, truth)
            elif d[0] == "f" and d[2].endswith("_castle"):
                got["flags"].append((d[1], d[2], truth))
            elif d[0] == "bin" and d[1] in ("Eq", "Ne") and any(x[0] == "bin" and x[1] == "BitAnd" for x in (d[2], d[3])):
                band = d[2] if d[2][0] == "bin" else d[3]
                zero = d[3] if d[2][0] == "bin" else d[2]
                mask = [x for x in (band[2], band[3]) if x[0] == "c"]
                occ = [x for x in (band[2], band[3]) if x[0] != "c"]
                if mask and zero[0] == "c" and zero[1] == 0:
                    got["empty"].append((mask[0][1], occ[0] if occ else None, truth if d[1] == "Eq" else not truth))
            elif d[0] == "call" and d[1] == BB + "_is_occupancy_in_check":
                got["attack"].append((d[2], truth))
        problems = []
        turn_ok = got["turn"] is not None and ((got["turn"][0] == e["colour"]) == got["turn"][1])
        if not turn_ok:
            problems.append("side-to-move condition is %s" % (got["turn"],))
        want_flag = (("f", SELF, e["me"]), e["flag"], True)
        if got["flags"] != [want_flag]:
            problems.append("right tested: %s (expected %s.%s)" % ([(show(a), b, c) for a, b, c in got["flags"]], e["me"], e["flag"]))
        if not (len(got["empty"]) == 1 and got["empty"][0][0] == e["empty"] and got["empty"][0][1] == ("param", 3) and got["empty"][0][2]):
            problems.append("emptiness test: %s (expected occupancy & %#x == 0)" % ([(hex(m), show(o) if o else None, t) for m, o, t in got["empty"]], e["empty"]))
        if len(got["attack"]) != 1:
            problems.append("attack test missing or duplicated (%d)" % len(got["attack"]))
        else:
            args, truth = got["attack"][0]
            a_col, a_other, a_occ, a_mask = args
            other = a_other[1] if a_other[0] == "&" else a_other
            try:
                ok = fold(a_col) == e["colour"] and other == ("f", SELF, e["other"]) and a_occ == ("param", 3) and fold(a_mask) == e["check"] and truth is False
            except Unfoldable:
                ok = False
            if not ok:
                problems.append("attack test is %s_is_occupancy_in_check(%s) (expected colour %d, attackers %s, occupancy, mask %#x, result false)" % ("" if not truth else "!!", ", ".join(show(a) for a in args), e["colour"], e["other"], e["check"]))
        ctx.ob(rid, "castle|%d->%d" % key, not problems, "castling %s side for %s: %s" % (e["wing"], e["me"], "; ".join(problems)) if problems else "", ctx.where(f),
               sample={"king": list(key), "wing": e["wing"], "colour": e["me"], "empty_mask": hex(e["empty"]), "check_mask": hex(e["check"])})
    # make_castle_move passes its squares through with the castle flag mask and the king piece
    g = ctx.fn(rid, BB + "make_castle_move")
    try:
        gp = returning_paths(g)
        t = [tt for b, tt in gp[0].calls if tt[0] == "call" and tt[1] == BB + "make_move"][0] if len(gp) == 1 else None
    except (NotLoopFree, IndexError):
        t = None
    ok = False
    if t:
        a = t[2]
        try:
            king = prog.const_value("inkayaku_board::board::constants::KING")
            cm = prog.const_value("inkayaku_board::board::constants::CASTLE_MOVE_TRUE_MASK")
            ok = a[3] == ("param", 3) and a[4] == ("param", 4) and fold(a[5]) == king and fold(a[6]) == cm and fold(a[2]) == 0
        except (Unfoldable, IndexError):
            ok = False
    if not t:
        ctx.lost(rid, "the call of make_move in make_castle_move (one straight-line call expected)")
    else:
        ctx.ob(rid, "make_castle_move|passes-king-squares-and-flag", ok, "" if ok else "make_castle_move builds %s" % (show(t) if t else "?"), ctx.where(g))


def gen_calls(ctx, key, rid):
    f = ctx.fn(rid, key)
    try:
        inl = Inliner(ctx.prog, only=lambda k: k.startswith(PS))
        ps = returning_paths(f)
    except NotLoopFree:
        return f, None
    if len(ps) != 1:
        return f, None
    out = []
    for b, t in ps[0].calls:
        if t[0] == "call" and t[1].startswith(BB) and t[1].rsplit("::", 1)[-1] in ("sliding_moves", "single_moves", "pawn_attacks", "pawn_moves", "castle_moves"):
            args = tuple(resolve_promoted(ctx.prog, a) for a in t[2])
            out.append((t[1].rsplit("::", 1)[-1], args))
    return f, out


def norm_table(a, prog):
    """replace table references by the constant's path so that the comparison is by table identity"""
    t = a
    while t[0] in ("&", "*"):
        t = t[1]
    if t[0] == "c" and t[3]:
        return ("table", t[3])
    return a


def r2_siblings(ctx):
    rid = "C01.R2"
    ctx.rule(rid, "the capture/promotion generator = the full generator minus castling, same callee / piece set / occupancies / table / piece constant, with the quiet filter on", floor=8)
    prog = ctx.prog
    ff, full = gen_calls(ctx, GEN_FULL, rid)
    fn, nq = gen_calls(ctx, GEN_NQ, rid)
    if full is None or nq is None:
        ctx.lost(rid, "straight-line generator functions")
        return
    def key(c, flag_expected):
        name, args = c
        norm = []
        flag = None
        for i, a in enumerate(args):
            if a[0] == "c" and a[2] == "bool":
                flag = a[1]
                norm.append("<flag>")
            else:
                norm.append(norm_table(a, prog))
        return (name, tuple(norm)), flag
    fk = [key(c, False) for c in full]
    nk = [key(c, True) for c in nq]
    full_wo_castle = [k for k in fk if k[0][0] != "castle_moves"]
    has_castle = len(fk) - len(full_wo_castle)
    KNOWN_GENS = {"pawn_moves", "pawn_attacks", "sliding_moves", "single_moves", "castle_moves"}
    if not ({k[0][0] for k in fk} & KNOWN_GENS) or not ({k[0][0] for k in nk} & KNOWN_GENS):
        # one of the two generators does not call the per-piece generators itself (a loop over a table of piece
        # kinds, a shared body): the call-by-call comparison does not apply
        ctx.lost(rid, "the per-piece generator calls of the full and the capture generator (found %d / %d)" % (len(fk), len(nk)))
        return
    ctx.ob(rid, "full|castle_moves-once", has_castle == 1, "" if has_castle == 1 else "the full generator calls castle_moves %d times" % has_castle, ctx.where(ff))
    ok = not any(k[0][0] == "castle_moves" for k in nk)
    ctx.ob(rid, "captures|no-castling", ok, "" if ok else "the capture generator generates castling moves", ctx.where(fn))
    a = sorted(repr(k[0]) for k in full_wo_castle)
    b = sorted(repr(k[0]) for k in nk)
    missing = [x for x in a if x not in b]
    extra = [x for x in b if x not in a]
    for k, flag in full_wo_castle:
        nm = "%s(%s)" % (k[0], ", ".join(show(x) if isinstance(x, tuple) and x and x[0] != "table" else (x[1].rsplit("::", 1)[-1] if isinstance(x, tuple) else str(x)) for x in k[1][2:]))
        ok = repr(k) in b or b.count(repr(k)) > 0
        ok = repr(k) in [repr(x[0]) for x in nk]
        ctx.ob(rid, "sibling|%s" % nm, ok, "" if ok else "the capture generator has no call matching the full generator's %s" % nm, ctx.where(fn), sample={"call": nm})
    ctx.ob(rid, "captures|no-extra-generator", not extra, "" if not extra else "the capture generator has calls without counterpart in the full generator: %s" % extra[:2], ctx.where(fn))
    flags_full = {f_ for k, f_ in fk if f_ is not None}
    flags_nq = {f_ for k, f_ in nk if f_ is not None}
    ok = flags_full == {False} and flags_nq == {True}
    ctx.ob(rid, "filter-flag", ok, "" if ok else "quiet-filter flags: full generator %s, capture generator %s (expected false / true)" % (flags_full, flags_nq), ctx.where(fn))
    # the full generator itself: every piece kind with its table
    want = {("sliding_moves", "queens", "rook", "QUEEN"), ("sliding_moves", "queens", "bishop", "QUEEN"), ("sliding_moves", "bishops", "bishop", "BISHOP"),
            ("sliding_moves", "rooks", "rook", "ROOK"), ("single_moves", "knights", "knight", "KNIGHT"), ("single_moves", "kings", "king", "KING")}
    from .c05 import table_kind
    consts = {prog.const_value("inkayaku_board::board::constants::" + n): n for n in ("QUEEN", "ROOK", "BISHOP", "KNIGHT", "KING", "PAWN")}
    got = set()
    for name, args in full:
        if name not in ("sliding_moves", "single_moves"):
            continue
        acc = [x[1][len(PS):] for a in args for x in leaves(a) if x[0] == "call" and x[1].startswith(PS) and x[1][len(PS):] in ("queens", "rooks", "bishops", "knights", "kings", "pawns")]
        tab = [norm_table(a, prog) for a in args if norm_table(a, prog)[0] == "table"]
        piece = [consts.get(a[1]) for a in args if a[0] == "c" and a[2] == "u64" and a[3] and a[1] in consts]
        got.add((name, acc[0] if acc else None, table_kind(prog, tab[0][1]) if tab else None, piece[-1] if piece else None))
    ok = got == want
    ctx.ob(rid, "full|piece-table-pairing", ok, "" if ok else "generator calls (generator, piece set, table kind, piece constant): missing %s, unexpected %s" % (sorted(want - got, key=str), sorted(got - want, key=str)), ctx.where(ff),
           sample={"calls": sorted(got, key=str)})


def r3_promotions(ctx):
    rid = "C01.R3"
    ctx.rule(rid, "promotions are generated to exactly queen, rook, bishop and knight, once each, from the same source/target", floor=1)
    prog = ctx.prog
    f = ctx.fn(rid, BB + "generate_pawn_promotions")
    try:
        ps = returning_paths(f)
    except NotLoopFree:
        ps = []
    if len(ps) != 1:
        ctx.lost(rid, "generate_pawn_promotions is not straight-line")
        return
    names = {prog.const_value("inkayaku_board::board::constants::" + n): n for n in ("QUEEN", "ROOK", "BISHOP", "KNIGHT", "KING", "PAWN", "NO_PIECE")}
    got, sq_ok = [], True
    for b, t in ps[0].calls:
        if t[0] == "call" and t[1] == BB + "generate_pawn_promotion":
            try:
                got.append(names.get(fold(t[2][4]), "?"))
            except Unfoldable:
                got.append("?")
            sq_ok = sq_ok and t[2][2] == ("param", 3) and t[2][3] == ("param", 4)
    ok = sorted(got) == ["BISHOP", "KNIGHT", "QUEEN", "ROOK"] and sq_ok
    ctx.ob(rid, "promotion-pieces", ok, "" if ok else "promotions generated: %s (same squares: %s)" % (got, sq_ok), ctx.where(f), sample={"pieces": got})
    g = ctx.fn(rid, BB + "generate_pawn_promotion")
    try:
        gp = returning_paths(g)
        cs = [tt for b, tt in gp[0].calls if tt[0] == "call" and tt[1] == BB + "make_move"] if len(gp) == 1 else []
    except NotLoopFree:
        cs = []
    if len(cs) != 1 or len(cs[0][2]) < 9:
        ctx.lost(rid, "the call of make_move in generate_pawn_promotion (one straight-line call with nine arguments expected)")
        return
    try:
        t = cs[0]
        pawn = prog.const_value("inkayaku_board::board::constants::PAWN")
        ok = t[2][3] == ("param", 3) and t[2][4] == ("param", 4) and fold(t[2][5]) == pawn and t[2][8] == ("param", 5) and fold(t[2][2]) == 0
    except (IndexError, Unfoldable):
        ok = False
    ctx.ob(rid, "promotion-move", ok, "" if ok else "generate_pawn_promotion does not build (source, target, PAWN, promote_to) unfiltered", ctx.where(g))


def r4_quiet_filter(ctx):
    rid = "C01.R4"
    ctx.rule(rid, "make_move drops a move exactly when it captures nothing, promotes to nothing and the quiet filter is on", floor=2)
    from . import genmove_table as GT
    from ..semtable import judge
    tb = GT.table(ctx, rid)
    if tb is None:
        return
    f, leaves, domains, c, home = tb
    names = ["filter", "promote", "attacked"]
    viol, und, n = judge(leaves, names, domains, GT.pushed, lambda e: not GT.dropped_expected(e, c))
    ctx.ob(rid, "drop-iff-quiet-and-filtered", not viol,
           "" if not viol else "make_move %s a move with %s (the move is dropped exactly when it captures nothing, promotes to nothing and the quiet filter is on)"
           % ("pushes" if viol[0][1] else "drops", GT.describe(viol[0][0], c)),
           ctx.where(f), sample={"leaves": len(leaves), "cases": n})
    n_keep = len([lf for lf in leaves if GT.pushed(lf)])
    n_drop = len(leaves) - n_keep
    ctx.ob(rid, "both-outcomes-exist", n_drop >= 1 and n_keep >= 1, "" if n_drop >= 1 and n_keep >= 1 else "dropping paths %d, keeping paths %d" % (n_drop, n_keep), ctx.where(f))
    for u in und[:1]:
        ctx.lost(rid, "quiet filter under a condition the table cannot evaluate (%s)" % "; ".join(show(d) for d, cc in u[3].opaque)[:160])


MIRROR_FNS = ("pawn_moves", "pawn_attacks", "make_move", "make", "unmake", "zobrist_xor", "_is_square_in_check", "_is_in_check_by_bits", "get_active_and_passive", "get_active_and_passive_mut")


def mirror_pairs(ctx, f):
    """[(white rvalue tree, black rvalue tree, line)] for assignments to the same destination in the two arms of a
    switch on the side to move"""
    cfg, ex = Cfg(f), Exprs(f)
    out = []
    SELF_TURN = ("f", ("*", ("param", 1)), "turn")
    for b in sorted(cfg.reach):
        t = f["blocks"][b]["term"]
        if t["k"] != "switch" or len(t["targets"]) != 1:
            continue
        d = ex.operand(t["discr"])
        white_on_true = None
        if d[0] == "call" and d[1] == BB + "is_white_turn":
            white_on_true = True
        elif d[0] == "bin" and d[1] == "Eq" and any(x[0] == "c" and x[1] == 0 and (x[3] or "").endswith("WHITE") for x in (d[2], d[3])):
            white_on_true = True
        elif d[0] == "local":
            init = ex.initial(d[1])
            if init[0] == "call" and init[1] == BB + "is_white_turn":
                white_on_true = True
            if init[0] == "bin" and init[1] == "Eq" and any(x[0] == "c" and x[1] == 0 and (x[3] or "").endswith("WHITE") for x in (init[2], init[3])):
                white_on_true = True
        if white_on_true is None:
            continue
        tb, fb = t["otherwise"], t["targets"][0][1]
        arms = {}
        for arm, blk in (("white", tb), ("black", fb)):
            # statements of the arm: blocks reachable from the arm's first block that are control dependent on this edge
            region = [x for x in sorted(cfg.reach) if (b, blk) in cfg.control_deps().get(x, ())]
            asg = {}
            for x in region:
                for s in f["blocks"][x]["stmts"]:
                    dst = s["dst"]
                    if dst is None:
                        continue
                    asg[(dst["l"], repr(dst["p"]))] = (ex.rvalue(s["rv"], f["locals"][dst["l"]]["ty"] if not dst["p"] else None), s["line"])
            arms[arm] = asg
        for k in arms["white"]:
            if k in arms["black"]:
                out.append((arms["white"][k][0], arms["black"][k][0], arms["white"][k][1]))
    return out


def mirror_verdict(w, b, prog):
    """None = not judged; True/False = mirror relation holds / is violated; with a reason"""
    if w[0] == "agg" and b[0] == "agg" and w[1] == b[1] == "tuple" and len(w[3]) == len(b[3]):
        res = [mirror_verdict(x, y, prog) for x, y in zip(w[3], b[3])]
        judged = [r for r in res if r[0] is not None]
        if not judged:
            return (None, "")
        bad = [r for r in judged if r[0] is False]
        return (not bad, "; ".join(r[1] for r in bad))
    if w[0] == "bin" and b[0] == "bin":
        ow, ob_ = w[1].replace("WithOverflow", ""), b[1].replace("WithOverflow", "")
        if {ow, ob_} <= {"Shl", "Shr"}:
            same_amount = w[3] == b[3] and w[3][0] == "c" and w[3][1] == 8
            if same_amount and w[2] == b[2]:
                return (ow != ob_, "both colours shift the same way: %s / %s" % (show(w), show(b)))
            return (None, "")
        if {ow, ob_} <= {"Add", "Sub"} and ((w[2] == b[2] and w[3] == b[3]) or (w[2] == b[3] and w[3] == b[2])):
            return (ow != ob_, "both colours step in the same direction: %s / %s" % (show(w), show(b)))
        return (None, "")
    if w[0] == "c" and b[0] == "c" and w[2] == "u64" and b[2] == "u64" and isinstance(w[1], int) and isinstance(b[1], int) and (w[1] >= 256 or b[1] >= 256):
        return (G.bswap64(w[1]) == b[1], "mask %#x for white faces %#x for black, the vertical mirror image would be %#x" % (w[1], b[1], G.bswap64(w[1])))
    if w[0] == "c" and b[0] == "c" and isinstance(w[1], tuple) and isinstance(b[1], tuple) and len(w[1]) == 64 and len(b[1]) == 64 and all(isinstance(x, int) for x in w[1]):
        ok = all(b[1][sq ^ 56] == G.bswap64(w[1][sq]) for sq in range(64))
        return (ok, "the two per-square tables are not vertical mirror images of each other")
    # references to the two players
    def player(t):
        while t[0] in ("&", "*"):
            t = t[1]
        if t[0] == "f" and t[2] in ("white", "black") and t[1] == ("*", ("param", 1)):
            return t[2]
        return None
    pw, pb = player(w), player(b)
    if pw and pb:
        return (pw != pb, "both colours use the %s player" % pw)
    return (None, "")


def r5_mirror(ctx):
    rid = "C01.R5"
    ctx.rule(rid, "in two-armed branches on the side to move, the black arm is the vertical mirror of the white arm (shift direction, byte-swapped masks, +-8, white/black player, mirrored tables)", floor=8)
    prog = ctx.prog
    n = 0
    unjudged = 0
    for name in MIRROR_FNS:
        f = prog.fns.get(BB + name)
        if f is None:
            ctx.lost(rid, BB + name, missing=True)
            continue
        for i, (w, b, line) in enumerate(mirror_pairs(ctx, f)):
            w2, b2 = resolve_promoted(prog, w), resolve_promoted(prog, b)
            v, why = mirror_verdict(w2, b2, prog)
            if v is None:
                unjudged += 1
                continue
            n += 1
            ctx.ob(rid, "%s|pair-%d" % (name, i), v, "" if v else "%s: %s" % (f["display"], why), ctx.where(f, line),
                   sample={"function": name, "white_arm": show(w2)[:120], "black_arm": show(b2)[:120]})
    ctx.extra["mirror_pairs_judged"] = n
    ctx.extra["mirror_pairs_not_judged"] = unjudged


def colour_switches(f, cfg, ex):
    """[(switch block, white successor, black successor)] for two-way switches on the side to move"""
    out = []
    for b in sorted(cfg.reach):
        t = f["blocks"][b]["term"]
        if t["k"] != "switch" or len(t["targets"]) != 1:
            continue
        d = ex.operand(t["discr"])
        cands = [d]
        if d[0] == "local":
            cands.append(ex.initial(d[1]))
        hit = False
        for c in cands:
            if c[0] == "call" and c[1] == BB + "is_white_turn":
                hit = True
            if c[0] == "bin" and c[1] == "Eq" and any(x[0] == "c" and x[1] == 0 and (x[3] or "").endswith("WHITE") for x in (c[2], c[3])):
                hit = True
        if hit:
            out.append((b, t["otherwise"], t["targets"][0][1]))
    return out


def r7_colour_relative_constants(ctx):
    rid = "C01.R7"
    ctx.rule(rid, "a rank mask that is not its own vertical mirror image (RANK_7, RANK_2, a promotion or double-push rank) is colour relative: in the move generators it is used only inside an arm of a branch on the side to move whose other arm uses the mirrored rank, or together with its mirror image", floor=4)
    from ..callgraph import CallGraph
    prog = ctx.prog
    cg = CallGraph(prog)
    gens = [k for k in (BB + "generate_pseudo_legal_moves_with_buffer", BB + "generate_pseudo_legal_non_quiescent_moves_with_buffer", BB + "generate_pseudo_legal_moves", BB + "generate_pawn_attacks") if k in prog.fns]
    if len(gens) < 2:
        ctx.lost(rid, "the pseudo-legal generators")
        return
    reach, _ = cg.reachable(gens)

    def rankset(c):
        if not isinstance(c, int) or isinstance(c, bool) or c <= 0 or c >= (1 << 64) - 1:
            return False
        return all(((c >> (8 * i)) & 0xFF) in (0, 0xFF) for i in range(8))

    def consts_of(blk):
        out = []
        for st in blk["stmts"]:
            for a in st["rv"].get("a", []):
                if a.get("k") == "const" and rankset(a.get("v")):
                    out.append((a["v"], st["line"]))
        t = blk["term"]
        if t["k"] == "call":
            for a in t["args"]:
                if a.get("k") == "const" and rankset(a.get("v")):
                    out.append((a["v"], t["line"]))
        return out

    n = 0
    for k in sorted(reach):
        f = prog.fns.get(k)
        if f is None or f["crate"] != "inkayaku_board" or f.get("test"):
            continue
        used = [(bi, consts_of(blk)) for bi, blk in enumerate(f["blocks"]) if not blk["cleanup"]]
        used = [(bi, cs) for bi, cs in used if cs]
        if not used:
            continue
        cfg, ex = Cfg(f), Exprs(f)
        sw = colour_switches(f, cfg, ex)
        outside = []       # (block, mask, line) not inside any colour arm
        for bi, cs in used:
            deps = cfg.control_deps_transitive(bi)
            arms = [(a, mine, other) for (a, wb, bb_) in sw for mine, other in ((wb, bb_), (bb_, wb)) if (a, mine) in deps]
            union = 0
            for v, _ in cs:
                union |= v
            if not arms:
                outside.append((bi, union, cs[0][1]))
                continue
            if G.bswap64(union) == union:
                continue
            n += 1
            ok, why = False, ""
            for (a, mine, other) in arms:
                region = [x for x in sorted(cfg.reach) if (a, other) in cfg.control_deps_transitive(x)]
                other_union = 0
                for x in region:
                    for v, _ in consts_of(f["blocks"][x]):
                        other_union |= v
                if other_union & G.bswap64(union) == G.bswap64(union):
                    ok = True
                else:
                    why = "the other colour's arm does not use the mirrored rank %#x" % G.bswap64(union)
            ctx.ob(rid, "%s|%#x" % (k.rsplit("::", 1)[-1], union), ok,
                   "" if ok else "%s uses the rank mask %#x inside a branch on the side to move, but %s" % (f["display"], union, why),
                   ctx.where(f, cs[0][1]), sample={"function": k.rsplit("::", 1)[-1], "mask": hex(union)})
        if outside:
            total = 0
            for _, u, _ in outside:
                total |= u
            if total and G.bswap64(total) != total or any(G.bswap64(u) != u for _, u, _ in outside):
                n += 1
                ok = G.bswap64(total) == total
                lonely = [(u, line) for _, u, line in outside if G.bswap64(u) != u and not (total & G.bswap64(u) == G.bswap64(u))]
                ctx.ob(rid, "%s|outside-colour-branches|%#x" % (k.rsplit("::", 1)[-1], total), ok,
                       "" if ok else "%s uses the rank mask(s) %s outside any branch on the side to move and without the mirrored rank: the mask means a different rank for white and for black, so one colour gets the other colour's rank (a promotion / double-push / capture-only filter silently loses that colour's moves)" % (f["display"], [hex(u) for u, _ in lonely]),
                       ctx.where(f, (lonely or [(0, outside[0][2])])[0][1]), sample={"function": k.rsplit("::", 1)[-1], "masks": [hex(u) for _, u, _ in outside]})
    if n == 0:
        ctx.lost(rid, "no colour-relative rank mask found in the generators")


def r6_legal_filter(ctx):
    rid = "C01.R6"
    ctx.rule(rid, "generate_legal_moves = the pseudo-legal moves filtered by is_move_legal on every accepting path of its filter; is_any_move_legal tests is_move_legal; is_move_legal = make, is_valid, unmake", floor=3)
    prog = ctx.prog
    f = ctx.fn(rid, BB + "generate_legal_moves")
    ex = Exprs(f)
    filters, src_ok = [], False
    cfg = Cfg(f)
    pushes_unprobed, pushes = [], 0
    for bi in sorted(cfg.reach):
        b = f["blocks"][bi]
        t = b["term"]
        if b["cleanup"] or t["k"] != "call":
            continue
        k = t["callee"].get("key") or ""
        last = k.rsplit("::", 1)[-1]
        if last in ("filter", "retain", "retain_mut", "take_while", "skip_while", "filter_map", "extract_if", "partition"):
            for a in t["args"]:
                tr = ex.operand(a)
                if tr[0] == "agg" and tr[1] == "closure":
                    filters.append(tr[2])
        if last in ("push", "push_back", "extend", "insert") and cfg.in_loop(bi):
            # a hand-written loop: the push must be control dependent on a successful probe
            pushes += 1
            dep = False
            for (a, sb) in cfg.control_deps_transitive(bi):
                sw = f["blocks"][a]["term"]
                if sw["k"] == "switch":
                    dt = ex.operand(sw["discr"])
                    if dt[0] == "call" and dt[1] == BB + "is_move_legal" and sb == sw["otherwise"]:
                        dep = True
            if not dep:
                pushes_unprobed.append(t["line"])
        if k == BB + "generate_pseudo_legal_moves" or k == BB + "generate_pseudo_legal_moves_with_buffer":
            src_ok = True
    strict = []
    for ck in filters:
        g = prog.fns.get(ck)
        if g is None:
            continue
        try:
            pes = returning_paths(g)
        except NotLoopFree:
            continue
        acc = []
        for pe in pes:
            r = pe.ret()
            try:
                if fold(r) == 0:
                    continue
            except Unfoldable:
                pass
            trees = [d for (d, c, bb_, ty) in pe.conds] + [r]
            acc.append(any(x[0] == "call" and x[1] == BB + "is_move_legal" for t in trees for x in leaves(t)))
        if acc and all(acc):
            strict.append(ck)
    ok = src_ok and (len(filters) + pushes) >= 1 and len(strict) == len(filters) and not pushes_unprobed
    ctx.ob(rid, "generate_legal_moves|every-move-probed", ok,
           "" if ok else "generate_legal_moves does not put every pseudo-legal move through is_move_legal (filter/retain closures: %d, of which always probing: %d; pushes in loops not under a successful probe: %d; source is the pseudo-legal generator: %s): a move accepted without make/is_valid/unmake can leave the own king in check (pins, en passant discoveries)" % (len(filters), len(strict), len(pushes_unprobed), src_ok),
           ctx.where(f), sample={"filters": len(filters), "always_probing": len(strict)})
    g = ctx.fn(rid, BB + "is_move_legal")
    try:
        gp = returning_paths(g, limit=20000)
    except (NotLoopFree, OverflowError):
        gp = None
    if not gp:
        ctx.lost(rid, "is_move_legal as a loop-free function")
    else:
        # on every returning path: make, then is_valid, then unmake (other calls - assertions, snapshots - may sit in
        # between), and the answer is what is_valid said
        bad = []
        for pe in gp:
            calls = [t[1] for b, t in pe.calls if t[0] == "call"]
            want = [BB + "make", BB + "is_valid", BB + "unmake"]
            it = iter(calls)
            in_order = all(any(c == w for c in it) for w in want)
            r = pe.ret()
            from_valid = any(x[0] == "call" and x[1] == BB + "is_valid" for x in [r] + list(leaves(r)))
            if not in_order or not from_valid:
                bad.append("calls %s, returns %s" % ([c.rsplit("::", 1)[-1] for c in calls if c.startswith(BB)], show(r)[:60]))
        ctx.ob(rid, "is_move_legal|make-is_valid-unmake", not bad, "" if not bad else "is_move_legal is not `make; is_valid; unmake` returning is_valid's result on every path: %s" % bad[0], ctx.where(g))
    h = ctx.fn(rid, BB + "is_any_move_legal")
    hex_ = Exprs(h)
    hcfg = Cfg(h)
    probes = [b for b in sorted(hcfg.reach) if h["blocks"][b]["term"]["k"] == "call" and h["blocks"][b]["term"]["callee"].get("key") == BB + "is_move_legal"]
    ok = len(probes) == 1 and hcfg.in_loop(probes[0])
    if ok:
        # `true` is returned only under a successful probe
        for b in sorted(hcfg.reach):
            for s in h["blocks"][b]["stmts"]:
                d = s["dst"]
                if d is not None and d["l"] == 0 and not d["p"] and s["rv"]["op"] == "use" and s["rv"]["a"][0].get("v") is True:
                    dep = False
                    for (a, sb) in hcfg.control_deps_transitive(b):
                        sw = h["blocks"][a]["term"]
                        if sw["k"] == "switch":
                            dt = hex_.operand(sw["discr"])
                            if dt[0] == "call" and dt[1] == BB + "is_move_legal" and sb == sw["otherwise"]:
                                dep = True
                    ok = ok and dep
    if len(probes) != 1 or not hcfg.in_loop(probes[0]):
        ctx.lost(rid, "is_any_move_legal: one is_move_legal probe inside a loop (found %d)" % len(probes))
    else:
      ctx.ob(rid, "is_any_move_legal|probes-each-move", ok, "" if ok else "is_any_move_legal does not return true exactly under a successful is_move_legal probe inside its loop", ctx.where(h))


def run(ctx):
    r6_legal_filter(ctx)
    r7_colour_relative_constants(ctx)
    r8_hand_written_steps(ctx)
    # the castling rights that castle_moves trusts are maintained by make_move's bookkeeping (shared with C02.R5)
    try:
        from . import movefields as MF_
        fields, setters = MF_.derive(ctx, "C02.R5")
        if len(fields) >= 16:
            pairing = MF_.pair(fields, setters)
            roles = c02.derive_roles(ctx, fields)
            if len(roles) == 4:
                c02.r4_r5_generation(ctx, fields, setters, pairing, roles)
    except Exception as e:
        ctx.lost("C02.R5", "shared castling-right bookkeeping rule: %s" % e)
    r1_castling(ctx)
    r2_siblings(ctx)
    r3_promotions(ctx)
    r4_quiet_filter(ctx)
    r5_mirror(ctx)
    ctx.assumptions += ["C04 (tables), C05 (check test) and C02/C03 (make/unmake) hold; the legality filter is make + is_valid + unmake"]


def r8_hand_written_steps(ctx, rid="C01.R8"):
    """attack sets computed by shifting a whole occupancy (instead of the verified tables) must not wrap around the
    board edge"""
    ctx.rule(rid, "a set-wise step of an occupancy by one file (shift by 1, 7 or 9) in the board crate is pre-masked so that no bit wraps around the a/h edge (index = file + 8 * row: << 9 and >> 7 and << 1 move one file up, << 7 and >> 9 and >> 1 one file down); the matcher is exercised by the ±8 pawn pushes on every run", floor=1)
    prog = ctx.prog
    MOVE_PREFIX = "inkayaku_board::board::Move::"
    FILE_A = sum(1 << (8 * r) for r in range(8))
    FILE_H = FILE_A << 7
    control = 0
    sites = []
    for k, f in sorted(prog.fns.items()):
        if f["crate"] != "inkayaku_board" or f.get("test") or k.startswith(MOVE_PREFIX) or "precalculated" in k or f["kind"] == "promoted":
            continue
        ex = None
        for b in f["blocks"]:
            if b["cleanup"]:
                continue
            for s in b["stmts"]:
                rv = s["rv"]
                if rv["op"] != "bin" or rv["bop"].replace("Unchecked", "").replace("WithOverflow", "") not in ("Shl", "Shr"):
                    continue
                amt = rv["a"][1]
                if amt.get("k") != "const" or not isinstance(amt.get("v"), int):
                    continue
                from ..expr import operand_ty
                if (operand_ty(f, rv["a"][0]) or "") != "u64":
                    continue
                if amt["v"] in (8, 16):
                    control += 1
                    continue
                if amt["v"] not in (1, 7, 9):
                    continue
                ex = ex or Exprs(f)
                left = rv["bop"].startswith("Shl")
                up = (left and amt["v"] in (9, 1)) or (not left and amt["v"] == 7)      # file + 1
                operand = ex.operand(rv["a"][0])
                # a small value widened to 64 bits and shifted into its field of a packed word (`(piece as u64) << 7`)
                # is no occupancy
                core_ = operand
                if core_[0] == "cast" and core_[3] in ("u8", "u16", "u32", "bool", "usize", "i32"):
                    continue
                from ..panics import upper_bound
                ub_ = upper_bound(core_, f)
                if ub_ is not None and ub_ < (1 << 32):
                    continue
                # the constant masks AND-ed into the operand
                allowed = (1 << 64) - 1
                def walk(t):
                    nonlocal allowed
                    if t[0] == "bin" and t[1] == "BitAnd":
                        for side in (t[2], t[3]):
                            if side[0] == "c" and isinstance(side[1], int):
                                allowed &= side[1]
                            elif side[0] == "un" and side[1] == "Not" and side[2][0] == "c" and isinstance(side[2][1], int):
                                allowed &= ~side[2][1] & ((1 << 64) - 1)
                            else:
                                walk(side)
                walk(operand)
                wraps = allowed & (FILE_H if up else FILE_A)
                sites.append((k, s["line"], ("<<" if left else ">>") + str(amt["v"]), wraps, f))
    ctx.ob(rid, "matcher-control", control >= 2, "" if control >= 2 else "the shift matcher no longer sees the ±8 pawn pushes (%d found)" % control, "", sample={"rank_steps_seen": control})
    for k, line, what, wraps, f in sites:
        ok = wraps == 0
        ctx.ob(rid, "%s|%s|line-order-%d" % (k.rsplit("::", 1)[-1], what, [x for x in sites if x[0] == k].index((k, line, what, wraps, f))), ok,
               "" if ok else "%s steps an occupancy with `%s` without masking out the %s-file first: the bits on that file wrap around the board edge (a pawn on the a-file 'attacks' the h-file). Use the attack tables or mask with the file that cannot make the step" % (f["display"], what, "h" if wraps & FILE_H else "a"),
               ctx.where(f, line), sample={"function": k.rsplit("::", 1)[-1], "shift": what})


def r9_relevant_blocker_mask_is_not_a_ray(ctx):
    """the `mask` of a magic entry is the set of squares whose occupancy changes the attack set - the rays without
    their last (border) square. It is input to the hash and nothing else: used as 'the squares this slider can reach'
    it hides every victim on a border square."""
    rid = "C01.R9"
    ctx.rule(rid, "MagicConfiguration.mask (the relevant-blocker mask: rays without their border squares) is read only to compute the table index; a move generator that uses it to decide whether a slider has anything to attack never sees a victim on a border square", floor=1)
    prog = ctx.prog
    users = {}
    for k, f in prog.fns.items():
        if f.get("test") or not k.startswith("inkayaku_board::"):
            continue
        def scan(pl, line):
            for e in pl.get("p", []):
                if isinstance(e, dict) and e.get("name") == "mask" and "MagicConfiguration" in str(e.get("of")):
                    users.setdefault(k, line)
        for b in f["blocks"]:
            for s in b["stmts"]:
                if s["dst"] is not None:
                    scan(s["dst"], s["line"])
                if "place" in s["rv"]:
                    scan(s["rv"]["place"], s["line"])
                for a in s["rv"].get("a", []):
                    if a.get("k") in ("copy", "move"):
                        scan(a["pl"], s["line"])
            t = b["term"]
            for a in (t.get("args") or []):
                if a.get("k") in ("copy", "move"):
                    scan(a["pl"], t.get("line"))
    if not users:
        ctx.lost(rid, "readers of MagicConfiguration.mask (field renamed or the tables restructured)")
        return
    for k, line in sorted(users.items()):
        in_tables = ("::precalculated::" in k)
        ctx.ob(rid, "mask-reader|%s" % k.rsplit("::", 1)[-1], in_tables,
               "" if in_tables else "%s reads the relevant-blocker mask of a magic entry: that mask leaves out the last square of every ray, so a test like `mask & opponent == 0` skips a slider whose only victims stand on border squares (Ra1xa8 is not generated)" % prog.fns[k]["display"],
               ctx.where(prog.fns[k], line))


_run_before_r9 = run


def run(ctx):
    _run_before_r9(ctx)
    r9_relevant_blocker_mask_is_not_a_ray(ctx)
