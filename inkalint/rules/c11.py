"""C11 — evaluation is colour-symmetric; terminal scores have the right sign."""
from ..cfg import Cfg
from ..expr import Exprs, PathEval, Inliner, fold, Unfoldable, show, leaves, subst, resolve_promoted
from ..paths import truth_table, returning_paths, NotLoopFree
from .common import SEARCH

SCOPE = "engine"
LEVEL = "proof"
EXHAUSTIVE = True
TRUSTED_BASE = [
    "rustc const evaluation of the piece-square tables and rustc's MIR of the evaluation functions",
    "the fact extractor's constant decoder",
    "the path enumerator / truth-table builder and affine-form evaluator of the checker",
]
EXPLANATION = (
    "Exhaustive checks on compiler-evaluated constants and on finite truth tables extracted from MIR. R1: for every "
    "pair of piece-square table constants of a heuristic module, BLACK[s][p][sq ^ 56] == -WHITE[s][p][sq] for all "
    "entries, and the evaluation pairs board.white with one table and board.black with the other, at the same stage "
    "index, each piece accessor with table index piece-1. R2: game_stage is enumerated over all 2^n assignments of "
    "its branch atoms; the atom set is closed under swapping the two players and the result is equal for every "
    "assignment and its swapped twin. R3: evaluate_ongoing is f(white) - f(black) + psv with one colour-blind f. R4: "
    "the terminal branch of Heuristic::evaluate is enumerated path by path; the two mate values are affine in the "
    "full-move number and exact negations of each other with the sign that makes nearer mates better for the mating "
    "side, everything else without legal moves is the draw score; the colour factor folds to +1 / -1. R5: the mate "
    "distance shown to the user: the move number of the mating position is obtained by simulating make's own "
    "side/number update ply by ply, and the affine form of score_from_value's mate_in must then be +N / -N for a mate "
    "in N for both colours. Decided: colour symmetry of the static evaluation, of terminal scores and of the mate "
    "distance formula; not decided: search-score symmetry for non-terminal scores (it follows from these plus the "
    "colour-blind search only by an argument the checker does not mechanise).")

H = "inkayaku_engine_core::engine::heuristic::"
SIMPLE = H + "simple::SimpleHeuristic::"
TRAIT = H + "Heuristic::"
PS = "inkayaku_board::board::PlayerState::"


def table_consts(prog, module):
    out = []
    for k, c in prog.consts.items():
        if k.startswith(module) and k.count("::") == module.count("::") and c["ty"].replace(" ", "").startswith("[[[i32;64];") and isinstance(c["value"], list):
            out.append((k, c))
    return out


def r1_tables(ctx):
    rid = "C11.R1"
    ctx.rule(rid, "black piece-square tables are the vertically mirrored, negated white tables: B[s][p][sq^56] == -W[s][p][sq] for every entry", floor=1900)
    prog = ctx.prog
    mods = sorted({k.rsplit("::", 1)[0] + "::" for k, c in prog.consts.items() if k.startswith(H) and c["ty"].replace(" ", "").startswith("[[[i32;64];")})
    n_pairs = 0
    for m in mods:
        tabs = table_consts(prog, m)
        if len(tabs) != 2:
            ctx.lost(rid, "exactly two stage x piece x square table constants in %s (found %d)" % (m, len(tabs)))
            continue
        (ka, a), (kb, b) = tabs
        A, Bv = a["value"], b["value"]
        if len(A) != len(Bv):
            ctx.ob(rid, "%s|shape" % m, False, "tables %s and %s have different stage counts" % (ka, kb), "%s:%d" % (a["file"], a["line"]))
            continue
        n_pairs += 1
        for s in range(len(A)):
            for p in range(len(A[s])):
                bad = [sq for sq in range(64) if Bv[s][p][sq ^ 56] != -A[s][p][sq]]
                for sq in range(64):
                    ok = Bv[s][p][sq ^ 56] == -A[s][p][sq]
                    ctx.ob(rid, "%s[%d][%d][%d]" % (m.split("::")[-2], s, p, sq), ok,
                           "" if ok else "%s[%d][%d][%d] = %d but %s[%d][%d][%d] = %d (expected the negation on the mirrored square)"
                           % (ka.rsplit("::", 1)[-1], s, p, sq, A[s][p][sq], kb.rsplit("::", 1)[-1], s, p, sq ^ 56, Bv[s][p][sq ^ 56]),
                           "%s:%d" % (b["file"], b["line"]),
                           sample={"module": m, "stage": s, "piece_index": p, "square": sq, "white": A[s][p][sq], "black_mirrored": Bv[s][p][sq ^ 56]} if (s, p, sq) == (0, 0, 12) else None)
    ctx.extra["table_pairs"] = n_pairs


def r1_pairing(ctx):
    rid = "C11.R1p"
    ctx.rule(rid, "piece_square_value pairs board.white and board.black with the two mirrored tables at the same stage index; each piece accessor reads the table row piece-1", floor=8)
    prog = ctx.prog
    f = ctx.fn(rid, SIMPLE + "piece_square_value")
    try:
        pes = returning_paths(f)
    except NotLoopFree:
        ctx.lost(rid, "piece_square_value has a loop")
        return
    if len(pes) != 1:
        ctx.lost(rid, "piece_square_value is not straight-line")
        return
    pe = pes[0]
    calls = [(b, resolve_promoted(prog, t)) for b, t in pe.calls if t[0] == "call" and t[1] == SIMPLE + "piece_square_sum_for_player"]
    if len(calls) != 2:
        ctx.lost(rid, "two calls of piece_square_sum_for_player in piece_square_value (found %d)" % len(calls))
        return
    seen = {}
    if any(len(t[2]) != 2 for b, t in calls):
        ctx.lost(rid, "piece_square_sum_for_player(player, table) with two arguments (found %s): the pairing of players and tables is expressed differently" % sorted({len(t[2]) for b, t in calls}))
        return
    for b, t in calls:
        player, tab = t[2]
        pl = player[1] if player[0] == "&" else player
        side = pl[2] if pl[0] == "f" and pl[1] == ("*", ("param", 1)) else None
        tb = tab[1] if tab[0] == "&" else tab
        cname, stage = None, None
        if tb[0] == "idx":
            base = tb[1]
            while base[0] in ("*", "&"):
                base = base[1]
            if base[0] == "c" and base[3]:
                cname = base[3]
            stage = tb[2]
        seen[side] = (cname, stage)
    ok = set(seen) == {"white", "black"} and all(v[0] for v in seen.values())
    if not seen or None in seen or not all(v[0] for v in seen.values()):
        # the two players / the tables are not named directly in piece_square_value (a helper takes them, a stage
        # enum selects the table): not read here
        ctx.lost(rid, "piece_square_value: the player and the named table of each of its two evaluations")
        return
    ctx.ob(rid, "both-players", ok, "" if ok else "piece_square_value does not evaluate exactly board.white and board.black against named tables: %s" % {k: (v[0], show(v[1]) if v[1] else None) for k, v in seen.items()}, ctx.where(f))
    if not ok:
        return
    tabs = table_consts(prog, H + "simple::")
    names = sorted(k for k, _ in tabs)
    ok = sorted(v[0] for v in seen.values()) == names
    ctx.ob(rid, "distinct-mirrored-tables", ok, "" if ok else "white/black are evaluated against %s, the module's mirrored pair is %s" % (sorted(v[0] for v in seen.values()), names), ctx.where(f),
           sample={k: v[0].rsplit("::", 1)[-1] for k, v in seen.items()})
    ok = seen["white"][1] == seen["black"][1] and any(x[0] == "call" and x[1] == SIMPLE + "game_stage" for x in leaves(seen["white"][1]))
    ctx.ob(rid, "same-stage-index", ok, "" if ok else "stage index differs between the colours: white %s, black %s" % (show(seen["white"][1]), show(seen["black"][1])), ctx.where(f))
    # orientation: the white table is the one whose pawn row rewards advancing towards rank 8 (low indices) -- not judged;
    # the mirror relation (R1) is symmetric, so only the pairing white<->one, black<->other matters.
    # accessor <-> row
    g = ctx.fn(rid, SIMPLE + "piece_square_sum_for_player")
    inl = Inliner(prog, only=lambda k: k.startswith(PS))
    try:
        gp = returning_paths(g, inliner=inl)
    except NotLoopFree:
        ctx.lost(rid, "piece_square_sum_for_player has a loop")
        return
    if len(gp) != 1:
        ctx.lost(rid, "piece_square_sum_for_player is not straight-line")
        return
    rows = []
    for b, t in gp[0].calls:
        if t[0] == "call" and t[1] == SIMPLE + "piece_square_sum":
            occ, row = t[2]
            # occ: player.occupancy[k]
            k_occ = None
            for x in leaves(occ):
                if x[0] == "idx" and x[1][0] == "f" and x[1][2] == "occupancy":
                    try:
                        k_occ = fold(x[2])
                    except Unfoldable:
                        pass
            rw = row[1] if row[0] == "&" else row
            k_row = None
            if rw[0] == "idx":
                try:
                    k_row = fold(rw[2])
                except Unfoldable:
                    pass
            rows.append((k_occ, k_row))
    if len(rows) != 6:
        ctx.lost(rid, "six piece_square_sum calls (found %d)" % len(rows))
        return
    for k_occ, k_row in rows:
        ok = k_occ is not None and k_row == k_occ - 1
        ctx.ob(rid, "piece-%s-row" % k_occ, ok, "" if ok else "pieces with occupancy index %s are scored with table row %s (expected %s)" % (k_occ, k_row, None if k_occ is None else k_occ - 1),
               ctx.where(g), sample={"occupancy_index": k_occ, "table_row": k_row})
    ok = sorted(r[0] for r in rows if r[0] is not None) == [1, 2, 3, 4, 5, 6]
    ctx.ob(rid, "all-six-pieces", ok, "" if ok else "piece kinds scored: %s" % sorted(r[0] for r in rows if r[0] is not None), ctx.where(g))


def swap_players(t):
    if not isinstance(t, tuple):
        return t
    if t[0] == "f" and t[2] in ("white", "black") and t[1] == ("*", ("param", 1)):
        return ("f", t[1], "black" if t[2] == "white" else "white")
    mapping = {}
    for x in leaves(t):
        if isinstance(x, tuple) and x[0] == "f" and x[2] in ("white", "black") and x[1] == ("*", ("param", 1)):
            mapping[x] = ("f", x[1], "black" if x[2] == "white" else "white")
    return subst(t, mapping) if mapping else t


def r2_game_stage(ctx):
    rid = "C11.R2"
    ctx.rule(rid, "game_stage: the branch atoms are closed under swapping the players and the result is equal for every assignment and its swapped twin (full truth table)", floor=8)
    prog = ctx.prog
    f = ctx.fn(rid, SIMPLE + "game_stage")
    inl = Inliner(prog, only=lambda k: k.startswith(PS))
    try:
        atoms, tab, problems = truth_table(f, inliner=inl)
    except (NotLoopFree, OverflowError):
        ctx.lost(rid, "game_stage is not loop-free / has too many paths")
        return
    if problems or not atoms:
        ctx.lost(rid, "game_stage truth table: %s" % (problems[:2] or "no atoms"))
        return
    swapped = [swap_players(a) for a in atoms]
    closed = all(s in atoms for s in swapped)
    ctx.ob(rid, "atoms-closed-under-colour-swap", closed,
           "" if closed else "game_stage tests %s; swapping the players gives conditions that are not tested: %s" % ([show(a) for a in atoms], [show(s) for s in swapped if s not in atoms]),
           ctx.where(f), sample={"atoms": [show(a) for a in atoms]})
    if not closed:
        return
    perm = [atoms.index(s) for s in swapped]
    consts = set()
    for assign, res in sorted(tab.items()):
        twin = tuple(assign[perm.index(i)] if False else None for i in range(len(atoms)))
        twin = [0] * len(atoms)
        for i, a in enumerate(assign):
            twin[perm[i]] = a
        twin = tuple(twin)
        r1, r2 = res, tab.get(twin)
        try:
            v1, v2 = fold(r1), fold(r2)
            consts.add(v1)
        except (Unfoldable, TypeError):
            ctx.lost(rid, "game_stage returns a non-constant")
            return
        ok = v1 == v2
        ctx.ob(rid, "row:%s" % "".join(map(str, assign)), ok,
               "" if ok else "game_stage is not colour symmetric: atoms %s -> stage %d, swapped colours %s -> stage %d; atoms: %s" % (assign, v1, twin, v2, [show(a) for a in atoms]),
               ctx.where(f), sample={"assignment": assign, "stage": v1, "swapped_assignment": twin, "swapped_stage": v2} if sum(assign) == 1 else None)
    ctx.extra["game_stage_values"] = sorted(consts)
    ctx.extra["game_stage_rows"] = len(tab)


def _material_by_cases(ctx, rid, f, pes):
    """evaluate_ongoing with branches: read as a piecewise function of the per-side terms g(white), g(black) and the
    board-wide piece-square term, and compared with itself under the colour swap (g(white) <-> g(black), the
    piece-square term negated - its own antisymmetry is R1/R2/R5) on a grid of values around every constant the
    conditions compare with."""
    import itertools
    syms = {}
    def collect(t):
        for x in leaves(t):
            if x[0] == "call" and x[1].startswith("inkayaku_"):
                syms.setdefault(x, None)
    for pe in pes:
        collect(pe.ret())
        for (d, c, b, ty) in pe.conds:
            collect(d)
    # outermost symbols only
    tops = [s for s in syms if not any(s is not o and s in list(leaves(o)) for o in syms)]
    def side(x):
        for a in x[2]:
            for y in leaves(a):
                if y[0] == "f" and y[2] in ("white", "black"):
                    return y[2]
        return None
    pair, whole = {}, []
    for s in tops:
        sd = side(s)
        if sd is None:
            whole.append(s)
            continue
        twin = [o for o in tops if o is not s and o[1] == s[1] and side(o) not in (None, sd)]
        if len(twin) != 1:
            ctx.lost(rid, "evaluate_ongoing has branches and a per-side term without its twin (%s)" % show(s)[:80])
            return
        pair[s] = twin[0]
    if any(w[1] != SIMPLE + "piece_square_value" for w in whole) or not pair:
        ctx.lost(rid, "evaluate_ongoing has branches over terms that are not per-side values or the piece-square term (%s)" % [show(w)[:50] for w in whole])
        return
    consts = set()
    for pe in pes:
        for (d, c, b, ty) in pe.conds:
            for x in leaves(d):
                if x[0] == "c" and isinstance(x[1], int) and not isinstance(x[1], bool):
                    consts.add(abs(x[1]))
    grid = sorted({0, 1, 7} | {v + dlt for v in consts for dlt in (-1, 0, 1) if v + dlt >= 0} | {2 * v + 3 for v in consts})
    whites = [s for s in pair if side(s) == "white"]

    def value(env):
        m = {s: ("c", v, "i32", None) for s, v in env.items()}
        for pe in pes:
            try:
                holds = True
                for (d, c, b, ty) in pe.conds:
                    v = fold(subst(d, m))
                    if (v in c[1]) != (c[0] == "in"):
                        holds = False
                        break
                if holds:
                    return fold(subst(pe.ret(), m))
            except (Unfoldable, TypeError):
                return None
        return None
    n = 0
    for combo in itertools.product(grid, repeat=2 * len(whites)):
        for psv in (0, 13, -13):
            env, twin_env = {}, {}
            for i, w in enumerate(whites):
                a, b_ = combo[2 * i], combo[2 * i + 1]
                env[w], env[pair[w]] = a, b_
                twin_env[w], twin_env[pair[w]] = b_, a
            for s in whole:
                env[s], twin_env[s] = psv, -psv
            v1, v2 = value(env), value(twin_env)
            if v1 is None or v2 is None:
                ctx.lost(rid, "evaluate_ongoing has branches this rule cannot evaluate")
                return
            n += 1
            if v1 != -v2:
                ctx.ob(rid, "material-antisymmetric", False,
                       "evaluate_ongoing is not negated by the colour swap: with %s it returns %d, with the colours exchanged %d (expected %d) - a shortcut or bonus applies to one side only, so the same position scores differently for White and Black" % (
                           ", ".join("%s(%s)=%d" % (s[1].rsplit("::", 1)[-1], side(s) or "board", v) for s, v in sorted(env.items(), key=lambda kv: (kv[0][1], side(kv[0]) or ""))), v1, v2, -v1),
                       ctx.where(f), sample={"cases": n})
                return
            if n > 20000:
                break
    ctx.ob(rid, "material-antisymmetric", True, "", ctx.where(f), sample={"cases": n, "piecewise": True})


def r3_material(ctx):
    rid = "C11.R3"
    ctx.rule(rid, "evaluate_ongoing = f(board.white) - f(board.black) + piece_square_value(board) with the same callee f on both sides", floor=1)
    f = ctx.fn(rid, H + "simple::<SimpleHeuristic as Heuristic>::evaluate_ongoing")
    try:
        pes = returning_paths(f)
    except NotLoopFree:
        ctx.lost(rid, "evaluate_ongoing has a loop")
        return
    if len(pes) != 1:
        _material_by_cases(ctx, rid, f, pes)
        return
    t = pes[0].ret()
    ok, why = False, "shape is %s" % show(t)
    if t[0] == "bin" and t[1] == "Add":
        parts = [t[2], t[3]]
        sub = [p for p in parts if p[0] == "bin" and p[1] == "Sub"]
        psv = [p for p in parts if p[0] == "call" and p[1] == SIMPLE + "piece_square_value"]
        if len(sub) == 1 and len(psv) == 1:
            a, b = sub[0][2], sub[0][3]
            def side(x):
                if x[0] == "call" and len(x[2]) == 1:
                    p = x[2][0]
                    p = p[1] if p[0] == "&" else p
                    if p[0] == "f" and p[2] in ("white", "black"):
                        return x[1], p[2]
                return None, None
            fa, sa = side(a)
            fb, sb = side(b)
            if fa and fa == fb and (sa, sb) == ("white", "black"):
                ok, why = True, ""
            else:
                why = "material term is %s(%s) - %s(%s)" % (fa, sa, fb, sb)
    ctx.ob(rid, "material-antisymmetric", ok, why, ctx.where(f), sample={"tree": show(t)})


def affine(t, syms):
    """tree -> {symbol or 1: coefficient}; symbols are call / field leaves"""
    k = t[0]
    if k == "c" and isinstance(t[1], int) and not isinstance(t[1], bool):
        return {1: t[1]}
    if k == "cast":
        return affine(t[2], syms)
    if k == "un" and t[1] == "Neg":
        return {s: -c for s, c in affine(t[2], syms).items()}
    if k == "bin" and t[1] in ("Add", "Sub"):
        a, b = affine(t[2], syms), affine(t[3], syms)
        out = dict(a)
        for s, c in b.items():
            out[s] = out.get(s, 0) + (c if t[1] == "Add" else -c)
        return {s: c for s, c in out.items() if c != 0}
    if k == "bin" and t[1] in ("Mul", "MulWithOverflow"):
        a, b = affine(t[2], syms), affine(t[3], syms)
        for x, y in ((a, b), (b, a)):
            if set(x) <= {1}:           # a constant times an affine form
                c0 = x.get(1, 0)
                return {s: c * c0 for s, c in y.items() if c * c0 != 0}
    if k in ("call", "f"):
        syms.add(t)
        return {t: 1}
    raise Unfoldable("not affine: %s" % show(t))


def r4_terminal(ctx):
    rid = "C11.R4"
    ctx.rule(rid, "terminal scores: side to move mated -> losing score, affine in the full-move number, the two colours exact negations, nearer mates better for the mating side; otherwise draw; colour factor is +1/-1", floor=5)
    prog = ctx.prog
    f = ctx.fn(rid, TRAIT + "evaluate")
    # the defaults must not be overridden, otherwise the symbolic scores below are per implementation
    over = [i["self_ty"] for i in prog.impls if i.get("trait") == H + "Heuristic" and any(m in i["methods"] for m in ("win_score", "loss_score", "draw_score", "evaluate"))]
    if over:
        ctx.lost(rid, "an implementation overrides win_score/loss_score/draw_score/evaluate: %s" % over)
        return
    inl = Inliner(prog, only=lambda k: k in (TRAIT + "loss_score",))
    try:
        pes = returning_paths(f, inliner=inl)
    except NotLoopFree:
        ctx.lost(rid, "Heuristic::evaluate has a loop")
        return
    LMR = ("param", 4)
    mate = {}
    others = []
    for pe in pes:
        conds = {}
        for (d, c, b, ty) in pe.conds:
            conds[d] = c
        if LMR not in conds or conds[LMR] != ("in", (0,)):
            continue  # legal moves remain: not terminal
        in_check = None
        turn = None
        turn_not = set()
        for d, c in conds.items():
            if d[0] == "call" and d[1].endswith("Bitboard::is_current_in_check"):
                in_check = c != ("in", (0,))
            if d[0] == "bin" and d[1] == "Eq":
                x, y = d[2], d[3]
                cst = x if x[0] == "c" else y
                oth = y if x[0] == "c" else x
                if oth[0] == "f" and oth[2] == "turn" and c != ("in", (0,)):
                    turn = cst[1]
                elif oth[0] == "f" and oth[2] == "turn" and cst[1] in (0, 1):
                    turn_not.add(cst[1])
        if turn is None and len(turn_not) == 1:
            turn = 1 - turn_not.pop()      # `if turn == WHITE { .. } else { .. }`: the else branch is the other colour
        others.append((in_check, turn, pe.ret()))
    mates = [(t, r) for ic, t, r in others if ic and t is not None]
    rest = [(ic, t, r) for ic, t, r in others if not (ic and t is not None)]
    if len(mates) != 2 or {t for t, _ in mates} != {0, 1}:
        ctx.lost(rid, "two mate branches (in check, turn == WHITE / BLACK) in Heuristic::evaluate; found %s" % [(t, show(r)) for t, r in mates])
        return
    syms = set()
    try:
        aw = affine(dict(mates)[0], syms)
        ab = affine(dict(mates)[1], syms)
    except Unfoldable as e:
        ctx.lost(rid, "mate score is not affine: %s" % e)
        return
    W = [s for s in syms if s[0] == "call" and s[1].endswith("::win_score")]
    N = [s for s in syms if s[0] == "f" and s[2] == "fullmove_clock"]
    if len(W) != 1 or len(N) != 1 or len(syms) != 2:
        ctx.lost(rid, "mate scores are not built from win_score and fullmove_clock only: %s" % [show(s) for s in syms])
        return
    W, N = W[0], N[0]
    ok = aw == {s: -c for s, c in ab.items()}
    ctx.ob(rid, "mate-scores-negate", ok, "" if ok else "white mated = %s, black mated = %s: not exact negations" % (show(dict(mates)[0]), show(dict(mates)[1])), ctx.where(f),
           sample={"white_to_move_mated": show(dict(mates)[0]), "black_to_move_mated": show(dict(mates)[1])})
    ok = aw.get(W, 0) < 0 and ab.get(W, 0) > 0
    ctx.ob(rid, "mated-side-loses", ok, "" if ok else "sign of the mate score is wrong: white mated has win_score coefficient %s, black mated %s (white-centric evaluation)" % (aw.get(W), ab.get(W)), ctx.where(f))
    ok = aw.get(N, 0) > 0 and ab.get(N, 0) < 0
    ctx.ob(rid, "nearer-mate-better", ok, "" if ok else "the full-move number enters with coefficient %s / %s: later mates would score better for the mating side" % (aw.get(N), ab.get(N)), ctx.where(f))
    bad = [(ic, t, show(r)) for ic, t, r in rest if not (r[0] == "call" and r[1].endswith("::draw_score"))]
    ctx.ob(rid, "no-moves-not-in-check-is-draw", not bad and len(rest) >= 1, "" if not bad else "a move-less position that is not (check, WHITE/BLACK to move) returns %s instead of the draw score" % bad, ctx.where(f),
           sample={"other_terminal_paths": len(rest)})
    # colour factor
    g = ctx.fn(rid, "inkayaku_engine_core::engine::search::calculate_heuristic_factor")
    try:
        gp = returning_paths(g)
        vals = {}
        for c in (0, 1):
            vs = set()
            for pe in gp:
                vs.add(fold(pe.ret(), {("param", 1): c}))
            vals[c] = vs
        ok = vals == {0: {1}, 1: {-1}}
    except (NotLoopFree, Unfoldable):
        ok, vals = False, "not foldable"
    ctx.ob(rid, "colour-factor", ok, "" if ok else "calculate_heuristic_factor gives %s for WHITE/BLACK (expected +1 / -1)" % vals, ctx.where(g), sample={"factor": {k: sorted(v) for k, v in vals.items()} if isinstance(vals, dict) else vals})
    # Search::evaluate multiplies the white-centric value by that factor of the side to move
    h = ctx.fn(rid, SEARCH + "evaluate")
    try:
        hp = returning_paths(h)
        t = hp[0].ret() if len(hp) == 1 else None
    except NotLoopFree:
        t = None
    ok = bool(t) and t[0] == "bin" and t[1] == "Mul" and any(x[0] == "call" and x[1].endswith("calculate_heuristic_factor") for x in (t[2], t[3])) \
        and any(x[0] == "call" and x[1].endswith("Heuristic::evaluate") for x in (t[2], t[3]))
    ctx.ob(rid, "search-evaluate-is-factor-times-evaluate", ok, "" if ok else "Search::evaluate is %s" % (show(t) if t else "not straight-line"), ctx.where(h))


def r5_mate_distance(ctx):
    rid = "C11.R5"
    ctx.rule(rid, "mate distance: with the terminal values of R4 and the move-number rule of make (simulated ply by ply), score_from_value's mate_in is +N when the mover mates in N moves and -N when it is mated in N, for both colours; decided on the affine form of the returned expression", floor=4)
    prog = ctx.prog
    from . import c03
    run_fn = c03.side_number_runner(ctx, rid, ("make",))
    if run_fn is None:
        return
    def delta(t, plies):
        turn, num = t, 0
        for _ in range(plies):
            out = run_fn("make", turn, 1000 + num)
            if len(out) != 1:
                raise Unfoldable("make's side/number update is not a function of the side")
            (turn, n2), = out.keys()
            if not isinstance(n2, int):
                raise Unfoldable("make's number update does not fold")
            num = n2 - 1000
        return num
    f = ctx.fn(rid, TRAIT + "score_from_value")
    try:
        pes = returning_paths(f)
    except NotLoopFree:
        ctx.lost(rid, "score_from_value has a loop")
        return
    VALUE = ("param", 2)
    seen = set()
    for pe in pes:
        r = pe.ret()
        if not (r[0] == "agg" and r[2].endswith("Mate")):
            continue
        # sign of the value on this path
        sgn = None
        for (d, c, b, ty) in pe.conds:
            truth = c != ("in", (0,))
            if d[0] == "bin" and d[1] in ("Gt", "Lt", "Ge", "Le") and VALUE in (d[2], d[3]):
                other = d[3] if d[2] == VALUE else d[2]
                try:
                    if fold(other) != 0:
                        continue
                except Unfoldable:
                    continue
                gt = d[1] in ("Gt", "Ge") if d[2] == VALUE else d[1] in ("Lt", "Le")
                # value is never 0 on a mate path (|value| > win/2): > and >= agree
                sgn = 1 if gt == truth else -1
        signs = [sgn] if sgn is not None else [1, -1]
        for sg in signs:
            for t in (0, 1):
                try:
                    offs = set()
                    for n in (1, 2, 3):
                        plies = 2 * n - 1 if sg > 0 else 2 * n
                        offs.add(n - delta(t, plies))
                    if len(offs) != 1:
                        raise Unfoldable("the required offset is not constant in N: %s" % sorted(offs))
                    want_off = offs.pop()

                    def prep(x):
                        if not isinstance(x, tuple):
                            return x
                        if x[0] == "call" and x[1].endswith("::signum") and x[2] == (VALUE,):
                            return ("c", sg, "i32", None)
                        if x[0] == "call" and "From<bool>" in x[1]:
                            inner = subst(x[2][0], {})
                            v = fold(sub_turn(inner, t, sg))
                            return ("c", int(bool(v)), "i32", None)
                        if x[0] == "cast" and x[3] == "bool":
                            # `cond as i32` / `i32::from(cond)`: 0 or 1 by the condition
                            v = fold(sub_turn(subst(x[2], {}), t, sg))
                            return ("c", int(bool(v)), "i32", None)
                        if x[0] == "bin":
                            return ("bin", x[1], prep(x[2]), prep(x[3]), x[4])
                        if x[0] in ("cast", "un"):
                            return (x[0], x[1], prep(x[2]), x[3])
                        return x

                    def sub_turn(x, t_, sg_):
                        m = {}
                        for lf in leaves(x):
                            if lf[0] == "f" and lf[2] == "turn":
                                m[lf] = ("c", t_, "u8", None)
                        x = subst(x, m)
                        # comparisons of the value with 0
                        def cmp0(y):
                            if not isinstance(y, tuple):
                                return y
                            if y[0] == "bin" and y[1] in ("Gt", "Lt", "Ge", "Le") and VALUE in (y[2], y[3]):
                                return subst(y, {VALUE: ("c", sg_ * 1000, "i32", None)})
                            if y[0] == "bin":
                                return ("bin", y[1], cmp0(y[2]), cmp0(y[3]), y[4])
                            if y[0] in ("cast", "un"):
                                return (y[0], y[1], cmp0(y[2]), y[3])
                            return y
                        return cmp0(x)

                    # a path that branches on the side to move (or on the sign once more) serves only the
                    # combinations its conditions admit
                    from ..paths import cond_holds
                    feasible = True
                    for (d_, c_, b_, ty_) in pe.conds:
                        if not any(x[0] == "f" and x[2] == "turn" for x in [d_] + list(leaves(d_))) and VALUE not in list(leaves(d_)):
                            continue
                        try:
                            v_ = fold(sub_turn(d_, t, sg))
                        except Unfoldable:
                            continue
                        if not cond_holds(c_, v_):
                            feasible = False
                            break
                    if not feasible:
                        continue
                    expr = prep(sub_turn(r[3][0], t, sg))
                    syms = set()
                    form = affine_mul(expr, syms)
                except Unfoldable as e:
                    ctx.lost(rid, "mate_in of score_from_value is not an affine expression the rule can read (%s)" % e)
                    return
                W = [x for x in syms if x[0] == "call" and x[1].endswith("::win_score")]
                A = [x for x in syms if x[0] == "call" and x[1].endswith("::abs") and x[2] == (VALUE,)]
                N = [x for x in syms if x[0] == "f" and x[2] == "fullmove_clock"]
                if len(W) != 1 or len(A) != 1 or len(N) != 1 or len(syms) != 3:
                    ctx.lost(rid, "mate_in is not built from win_score, |value| and the full-move number only: %s" % sorted(show(x) for x in syms))
                    return
                want = {W[0]: sg, A[0]: -sg, N[0]: -sg}
                if want_off:
                    want[1] = sg * want_off
                key = "mate_in|%s|%s-to-move" % ("mover-mates" if sg > 0 else "mover-mated", "white" if t == 0 else "black")
                if key in seen:
                    continue
                seen.add(key)
                ok = form == want
                got = {("1" if k == 1 else show(k)): v for k, v in form.items()}
                ctx.ob(rid, key, ok,
                       "" if ok else "%s, %s to move: mate_in = %s; with |value| = win_score - (move number of the mate) this is not %sN for a mate in N (it needs win_score %+d, |value| %+d, move number %+d, constant %+d): the distance reported differs from the colour-flipped twin" % (
                           "the mover mates" if sg > 0 else "the mover is mated", "white" if t == 0 else "black", got, "+" if sg > 0 else "-", sg, -sg, -sg, sg * want_off),
                       ctx.where(f), sample={"form": got, "offset_required": want_off})
    # the mate branch is chosen by |value| only (colour blind)
    ok = False
    for pe in pes:
        for (d, c, b, ty) in pe.conds:
            if any(x[0] == "call" and x[1].endswith("::abs") for x in leaves(d)) and not any(x[0] == "f" and x[2] == "turn" for x in leaves(d)):
                ok = True
    ctx.ob(rid, "mate-branch-by-absolute-value", ok, "" if ok else "score_from_value does not select the mate branch by |value|", ctx.where(f))


def affine_mul(t, syms):
    """affine() extended by multiplication with a constant factor"""
    if t[0] == "bin" and t[1] == "Mul":
        for a, b in ((t[2], t[3]), (t[3], t[2])):
            try:
                c = fold(a)
            except Unfoldable:
                continue
            return {k: v * c for k, v in affine_mul(b, syms).items() if v * c != 0}
        raise Unfoldable("product of two non-constants: %s" % show(t))
    k = t[0]
    if k == "cast":
        return affine_mul(t[2], syms)
    if k == "un" and t[1] == "Neg":
        return {s_: -c for s_, c in affine_mul(t[2], syms).items()}
    if k == "bin" and t[1] in ("Add", "Sub"):
        a, b = affine_mul(t[2], syms), affine_mul(t[3], syms)
        out = dict(a)
        for s_, c in b.items():
            out[s_] = out.get(s_, 0) + (c if t[1] == "Add" else -c)
        return {s_: c for s_, c in out.items() if c != 0}
    return affine(t, syms)


def r6_square_transforms(ctx):
    """a square index computed for the other colour is the vertical mirror, not the rotation"""
    rid = "C11.R6"
    ctx.rule(rid, "in the heuristic modules a square index is never transformed by `63 - sq` (180 degree rotation: files mirrored too); viewing a table from the other side of the board is `sq ^ 56`. The matcher is exercised by the table index projections it sees on every run", floor=1)
    prog = ctx.prog
    idx_uses, rot, mir = 0, [], 0
    for k, f in sorted(prog.fns.items()):
        if not k.startswith(H) or f.get("test") or f["kind"] == "promoted":
            continue
        for b in f["blocks"]:
            if b["cleanup"]:
                continue
            for st in b["stmts"]:
                rv = st["rv"]
                for a in rv.get("a", []):
                    if a.get("k") in ("copy", "move") and any(isinstance(e, dict) and "idx" in e for e in a["pl"]["p"]):
                        idx_uses += 1
                if st["dst"] is not None and any(isinstance(e, dict) and "idx" in e for e in st["dst"]["p"]):
                    idx_uses += 1
                if rv["op"] == "bin":
                    op = rv["bop"].replace("WithOverflow", "").replace("Unchecked", "")
                    consts = [a.get("v") for a in rv["a"] if a.get("k") == "const"]
                    if op == "Sub" and rv["a"][0].get("k") == "const" and rv["a"][0].get("v") == 63:
                        rot.append((k, st["line"], f))
                    if op == "BitXor" and 56 in consts:
                        mir += 1
    ctx.ob(rid, "matcher-control", idx_uses >= 3, "" if idx_uses >= 3 else "no indexed table reads seen in the heuristic modules (%d)" % idx_uses, "", sample={"indexed_accesses": idx_uses, "xor_56": mir})
    for k, line, f in rot:
        ctx.ob(rid, "rotation|%s" % k.rsplit("::", 1)[-1], False,
               "%s computes `63 - square`: that rotates the board by 180 degrees (a5 -> h4), the colour flip is the vertical mirror `square ^ 56` (a5 -> a4); tables that are not left-right symmetric are then read on the wrong file for one colour" % f["display"],
               ctx.where(f, line))
    ctx.ob(rid, "no-rotation", not rot, "" if not rot else "%d rotation(s) of a square index" % len(rot), "")


def run(ctx):
    r1_tables(ctx)
    r1_pairing(ctx)
    r2_game_stage(ctx)
    r3_material(ctx)
    r4_terminal(ctx)
    r5_mate_distance(ctx)
    r6_square_transforms(ctx)
    # 'a checkmated side to move always receives a losing mate score': no other rule of the evaluator may take
    # precedence over the mate branch (shared with C05.R3)
    from . import c05
    c05.r3_evaluator(ctx)
