"""Named, machine-checked preconditions of reviewed panic sites (tables/panic_sites.json `requires`)."""
from .common import guard
from ..cfg import Cfg
from ..expr import Exprs, leaves
from .. import balance as B

FEN_FROM_STR = "inkayaku_core::fen::<Fen as FromStr>::from_str"


def _fns_with_closures(prog, key):
    out = [prog.fns[key]] if key in prog.fns else []
    out += [prog.fns[k] for k in prog.children(key) if prog.fns[k]["kind"] == "closure"]
    return out


@guard("fen_clock_guard")
def fen_clock_guard(ctx):
    """Fen::from_str parses a field as u32 and returns Err when that fails: some `_0 = Err(..)` block is
    control dependent on a branch whose condition is computed from a `str::parse::<u32>` result."""
    prog = ctx.prog
    for f in _fns_with_closures(prog, FEN_FROM_STR):
        cfg, ex = Cfg(f), Exprs(f)
        parse_blocks = [b for b in cfg.reach if f["blocks"][b]["term"]["k"] == "call"
                        and (f["blocks"][b]["term"]["callee"].get("key") or "").endswith("core::str::<str>::parse")
                        and "u32" in f["blocks"][b]["term"]["callee"].get("generic_args", [])]
        if not parse_blocks:
            continue
        err_blocks = []
        for b in cfg.reach:
            for s in f["blocks"][b]["stmts"]:
                d = s["dst"]
                if d is not None and d["l"] == 0 and not d["p"] and B.ret_kind_of_rv(s["rv"]) == "Err":
                    err_blocks.append(b)
        for eb in err_blocks:
            for (a, s) in cfg.control_deps_transitive(eb):
                t = f["blocks"][a]["term"]
                if t["k"] != "switch":
                    continue
                d = ex.operand(t["discr"])
                for x in leaves(d):
                    if x[0] == "call" and x[1].endswith("core::str::<str>::parse"):
                        return True
    # the same test written through an iterator: a closure of from_str parses the field as u32 (str::parse::<u32> or
    # u32::from_str) and the Err return depends on a call (`any`, `all`, `find` ...) that is given that closure
    def parses_u32(g):
        for bb in g["blocks"]:
            t = bb["term"]
            if t["k"] == "call":
                k = t["callee"].get("key") or ""
                if (k.endswith("core::str::<str>::parse") and "u32" in t["callee"].get("generic_args", [])) or "u32 as" in k and k.endswith("FromStr>::from_str") or k.endswith("<impl FromStr for u32>::from_str") or ("from_str" in k and "u32" in k):
                    return True
        return False
    fs = _fns_with_closures(prog, FEN_FROM_STR)
    if fs:
        f = fs[0]
        parsing = {g["key"] for g in fs[1:] if parses_u32(g)}
        # closures nested one level deeper (filter_map(..).any(..))
        for g in list(fs[1:]):
            for k2 in prog.children(g["key"]):
                if prog.fns[k2]["kind"] == "closure" and parses_u32(prog.fns[k2]):
                    parsing.add(k2); parsing.add(g["key"])
        if parsing:
            cfg, ex = Cfg(f), Exprs(f)
            for b in cfg.reach:
                for s in f["blocks"][b]["stmts"]:
                    d = s["dst"]
                    if d is not None and d["l"] == 0 and not d["p"] and B.ret_kind_of_rv(s["rv"]) == "Err":
                        for (a, sb) in cfg.control_deps_transitive(b):
                            t = f["blocks"][a]["term"]
                            if t["k"] == "switch" and any(x[0] == "agg" and x[1] == "closure" and x[2] in parsing for x in leaves(ex.operand(t["discr"]))):
                                return True
    return False


ZH = "inkayaku_engine_core::engine::zobrist_history::ZobristHistory"


@guard("zobrist_history_covers_u16")
def zobrist_history_covers_u16(ctx):
    """every ZobristHistory is built with a history vector of at least 65,536 entries (the whole u16
    index domain) and nothing but `history[i] = x` ever borrows that vector mutably"""
    from ..expr import fold, Unfoldable
    prog = ctx.prog
    built = 0
    for k, f in prog.fns.items():
        if f.get("test") or f["kind"] == "promoted":
            continue
        ex = None
        for b in f["blocks"]:
            if b["cleanup"]:
                continue
            for s in b["stmts"]:
                rv = s["rv"]
                if rv["op"] == "agg" and rv["kind"] == "adt" and rv["adt"] == ZH:
                    ex = ex or Exprs(f)
                    idx = rv["fields"].index("history") if "history" in rv["fields"] else None
                    if idx is None:
                        return False
                    t = ex.operand(rv["a"][idx])
                    if t[0] != "call" or not t[1].endswith("alloc::vec::from_elem"):
                        return False
                    try:
                        if fold(t[2][1]) < 65536:
                            return False
                    except Unfoldable:
                        return False
                    built += 1
            t = b["term"]
            if t["k"] == "call" and t["args"]:
                ex = ex or Exprs(f)
                key = t["callee"].get("key") or ""
                for a in t["args"]:
                    if a["k"] == "const":
                        continue
                    tr = ex.operand(a)
                    touches = any(x[0] == "f" and x[2] == "history" for x in leaves(tr))
                    is_mut = "&mut" in (f["locals"][a["pl"]["l"]]["ty"])
                    if touches and is_mut and not key.endswith("::index_mut") and not key.endswith("DerefMut>::deref_mut"):
                        return False
    return built >= 1


@guard("fen_ranks_validated_after_grammar")
def fen_ranks_validated_after_grammar(ctx):
    """the per-rank validation indexes characters by byte position, which is sound only for text the FEN grammar has
    accepted (ASCII by its character classes): in Fen::from_str every call that reaches validate_rank(s) is dominated
    by the grammar match (Fen::parse / a regex captures call)"""
    prog = ctx.prog
    f = prog.fns.get(FEN_FROM_STR)
    if f is None:
        return False
    cfg = Cfg(f)
    def calls(pred):
        return [b for b in sorted(cfg.reach) if f["blocks"][b]["term"]["k"] == "call" and not f["blocks"][b]["cleanup"] and pred(f["blocks"][b]["term"]["callee"].get("key") or "")]
    grammar = calls(lambda k: k.endswith("Fen::parse") or k.endswith("Regex::captures") or k.endswith("Regex::is_match") or k.endswith("Regex::captures_iter"))
    validate = calls(lambda k: k.endswith("Fen::validate_ranks") or k.endswith("Fen::validate_rank"))
    if not validate:
        # validated inside a closure / helper of from_str: look there
        for g in _fns_with_closures(prog, FEN_FROM_STR)[1:]:
            if any(bb["term"]["k"] == "call" and (bb["term"]["callee"].get("key") or "").endswith(("Fen::validate_ranks", "Fen::validate_rank")) for bb in g["blocks"]):
                return bool(grammar)
        return False
    return bool(grammar) and all(any(cfg.dominates(g_, v) for g_ in grammar) for v in validate)
