"""C05 — check, checkmate and stalemate are recognised exactly."""
from ..cfg import Cfg
from ..expr import Exprs, PathEval, Inliner, fold, Unfoldable, show, leaves, resolve_promoted, subst
from ..paths import returning_paths, NotLoopFree
from .. import geometry as G
from .common import BB
from .c04 import EXT_MAGIC, EXT_NONMAGIC, classify_leaper

SCOPE = "engine"
LEVEL = "other"
EXPLANATION = (
    "Static analysis of the resolved MIR (all paths of the loop-free check test enumerated) and of the evaluated table "
    "constants. R1: the reverse-attack lookup from the king square consults every attacker kind with the right table "
    "and piece set: {(orthogonal rays, rooks|queens), (diagonal rays, bishops|queens), (knight steps, knights), (king "
    "steps, kings), (pawn captures, pawns)}, all sets read from the attacking player, the lookups at the king square "
    "with the full occupancy; the pawn table is the defended colour's capture table (tables are classified by what "
    "C04 established they compute, not by name). R2: is_valid tests the side that just moved, is_current_in_check "
    "the side to move, is_in_check the argument's colour; _is_in_check_by_bits pairs (that colour, the other) and "
    "takes the king square from that colour's king set. R3: in the evaluator, mate scores are returned only when "
    "the side to move is in check and has no legal move; every other move-less case is the draw score. Decided: "
    "these necessary conditions; not decided: exactness for every position.")

PS = "inkayaku_board::board::PlayerState::"


def table_kind(prog, path):
    c = prog.consts.get(path)
    if c is None or not isinstance(c["value"], list) or len(c["value"]) != 64:
        return None
    v = c["value"]
    if isinstance(v[0], int):
        return classify_leaper(v)
    if isinstance(v[0], dict) and "mask" in v[27]:
        m = v[27]["mask"]
        r, b = G.relevant_mask(27, G.ROOK_DIRS), G.relevant_mask(27, G.BISHOP_DIRS)
        if r & ~m == 0 and b & m == 0:
            return "rook"
        if b & ~m == 0 and r & m == 0:
            return "bishop"
    return None


def set_accessors(tree):
    """names of PlayerState accessors or-ed together, and the player they are read from"""
    names, players = set(), set()
    def go(t):
        if t[0] == "bin" and t[1] == "BitOr":
            go(t[2])
            go(t[3])
        elif t[0] == "call" and t[1].startswith(PS):
            names.add(t[1][len(PS):])
            players.add(t[2][0])
        else:
            names.add("?" + show(t))
    go(tree)
    return names, players


def r1_reverse_lookup(ctx):
    rid = "C05.R1"
    ctx.rule(rid, "the check test consults every attacker kind with the matching table and piece set, at the king square, from the attacking player; pawn table = defended colour's capture table", floor=7)
    prog = ctx.prog
    f = ctx.fn(rid, BB + "_is_square_in_check")
    try:
        pes = returning_paths(f)
    except NotLoopFree:
        ctx.lost(rid, "_is_square_in_check has a loop")
        return
    found = {}   # (kind) -> set of (frozenset accessors, colour condition)
    true_paths = 0
    WANT = {"rook": {"rooks", "queens"}, "bishop": {"bishops", "queens"}, "knight": {"knights"}, "king": {"kings"}, "pawn": {"pawns"}}

    def lookup_tests(d):
        """several lookups OR-ed into one test: `(knights & knight_attacks) | (pawns & pawn_attacks) | .. != 0`"""
        if not (d[0] == "bin" and d[1] in ("Ne", "Eq") and any(x[0] == "c" and x[1] == 0 for x in (d[2], d[3]))):
            return None
        body = d[3] if d[2][0] == "c" else d[2]
        terms = []
        def flat(t):
            if t[0] == "bin" and t[1] == "BitOr":
                flat(t[2]); flat(t[3])
            else:
                terms.append(t)
        flat(body)
        if len(terms) < 2:
            return None
        out = []
        for tm in terms:
            lt = lookup_test(("bin", d[1], tm, ("c", 0, "u64", None), "bool"))
            if lt is None:
                return None
            out.append(lt)
        return out

    def lookup_test(d):
        """(kind, accessor names, players, square/occupancy ok, table path) when d is `lookup & piece set != 0`"""
        if not (d[0] == "bin" and d[1] in ("Ne", "Eq") and any(x[0] == "c" and x[1] == 0 for x in (d[2], d[3]))):
            return None
        band = d[3] if d[2][0] == "c" else d[2]
        if not (band[0] == "bin" and band[1] == "BitAnd"):
            return None
        def as_lookup(x):
            # the step tables read directly (`TABLE[sq]`, `TABLE.get_unchecked(sq)`) instead of through get_attacks
            y = x
            while y[0] in ("*", "&"):
                y = y[1]
            tab = sq = None
            if y[0] == "call" and y[1].rsplit("::", 1)[-1] in ("get_unchecked", "index") and len(y[2]) == 2:
                tab, sq = y[2]
            elif y[0] == "idx":
                tab, sq = y[1], y[2]
            if tab is None:
                return x

            def bare(t):
                while t[0] in ("*", "&", "cast"):
                    t = t[1] if t[0] != "cast" else t[2]
                return t
            tb = bare(resolve_promoted(prog, bare(tab)))
            if tb[0] == "c" and tb[3] and table_kind(prog, tb[3]) in ("king", "knight", "white_pawn", "black_pawn", "pawn"):
                return ("call", EXT_NONMAGIC, (tab if bare(tab)[0] == "c" else tb, bare(sq)))
            return x
        sides = [as_lookup(band[2]), as_lookup(band[3])]
        look = [x for x in sides if x[0] == "call" and x[1] in (EXT_MAGIC, EXT_NONMAGIC)]
        sets = [x for x in sides if x not in look]
        if len(look) != 1 or len(sets) != 1:
            return None
        lk = look[0]
        tab = resolve_promoted(prog, lk[2][0])
        while tab[0] in ("&", "*"):
            tab = tab[1]
        path = tab[3] if tab[0] == "c" else None
        kind = table_kind(prog, path) if path else None
        sq_ok = lk[2][1] == ("param", 3)
        occ_ok = (len(lk[2]) < 3) or lk[2][2] == ("param", 4)
        names, players = set_accessors(sets[0])
        return kind, names, players, sq_ok and occ_ok, path

    def emptiness_guard(d, truth):
        """accessor names known to be empty on this path: `set == 0` true or `set != 0` false, set read from the attacker"""
        if not (d[0] == "bin" and d[1] in ("Ne", "Eq") and any(x[0] == "c" and x[1] == 0 for x in (d[2], d[3]))):
            return None
        inner = d[3] if d[2][0] == "c" else d[2]
        names, players = set_accessors(inner)
        if any(n.startswith("?") for n in names) or players != {("param", 2)}:
            return None
        empty = truth if d[1] == "Eq" else not truth
        return names if empty else None

    path_problems = []
    for pe in pes:
        colour = None
        consulted, empty_sets, others = {}, set(), []
        last_positive = None
        conds = list(pe.conds)
        r = pe.ret()
        try:
            rv = fold(r)
        except Unfoldable:
            rv = None
            conds.append((r, ("notin", (0,)), -1, "bool"))   # `return test` = true when the test holds: handled as its own case below
        for (d, c, b, ty) in conds:
            truth = c != ("in", (0,))
            if d == ("param", 1) and c[0] in ("in", "notin") and len(c[1]) == 1:
                # `match colour { WHITE => .., _ => .. }`: a switch on the colour itself
                colour = ("==%d" % c[1][0]) if c[0] == "in" else ("!=%d" % c[1][0])
                continue
            if d[0] == "bin" and d[1] == "Eq" and ("param", 1) in (d[2], d[3]):
                cst = d[3] if d[2] == ("param", 1) else d[2]
                try:
                    cv = fold(cst)
                    colour = ("==%d" % cv) if truth else ("!=%d" % cv)
                    continue
                except Unfoldable:
                    pass
            lts = lookup_tests(d)
            if lts is not None:
                # one test over several attacker kinds: a miss rules all of them out, a hit means one of them attacks
                hit = truth if d[1] == "Ne" else not truth
                for (kind, names, players, geo_ok, path) in lts:
                    found.setdefault(kind, set()).add((frozenset(names), frozenset(players), colour if kind and "pawn" in kind else None, geo_ok, path))
                    k2 = "pawn" if kind and "pawn" in kind else kind
                    consulted[k2] = "returned" if b == -1 else ("hit" if hit else "miss")
                    if hit and b != -1:
                        last_positive = k2
                continue
            lt = lookup_test(d)
            if lt is not None:
                kind, names, players, geo_ok, path = lt
                hit = truth if d[1] == "Ne" else not truth
                found.setdefault(kind, set()).add((frozenset(names), frozenset(players), colour if kind and "pawn" in kind else None, geo_ok, path))
                k2 = "pawn" if kind and "pawn" in kind else kind
                if b == -1:
                    consulted[k2] = "returned"
                else:
                    consulted[k2] = "hit" if hit else "miss"
                    if hit:
                        last_positive = k2
                continue
            eg = emptiness_guard(d, truth)
            if eg is not None:
                empty_sets |= eg
                continue
            others.append("%s is %s" % (show(d), "true" if truth else "false"))
        if rv == 1:
            true_paths += 1
            if last_positive is None:
                path_problems.append(("true-without-attacker", "a path returns true without a positive attacker lookup (conditions: %s)" % (others or "none")))
        elif rv == 0 or rv is None:
            # `false` (or the value of the last lookup) needs every other kind consulted and missed, or its pieces absent
            missing = [k for k in sorted(WANT) if consulted.get(k) not in ("miss", "returned") and not (WANT[k] <= empty_sets)]
            if missing:
                path_problems.append(("false-without-" + "+".join(missing), "a path answers `not attacked` without consulting the %s table(s)%s" % (
                    ", ".join(missing), (" - it is taken when " + " and ".join(others)) if others else "")))
    if None in found:
        # a lookup in a table this rule cannot name (an array of tables indexed by the colour, a table passed in):
        # which attacker kind it stands for is not read here
        ctx.lost(rid, "_is_square_in_check uses an attack table that is selected by a computation (not one of the six named tables)")
        return
    if not found:
        # not one `lookup & pieces != 0` test on any path: the function decides some other way (a table of
        # (attack set, pieces) pairs reduced with any(), a fold ...). Are the tables consulted at all?
        called = set()
        for blk in f["blocks"]:
            t_ = blk["term"]
            if not blk["cleanup"] and t_["k"] == "call" and (t_["callee"].get("key") in (EXT_MAGIC, EXT_NONMAGIC)):
                called.add(blk["term"]["callee"]["key"])
        if called:
            ctx.lost(rid, "_is_square_in_check consults the attack tables but does not test them with `lookup & pieces != 0` on its own paths")
            return
    seen_pp = set()
    for key, msg in path_problems:
        if key in seen_pp:
            continue
        seen_pp.add(key)
        ctx.ob(rid, "path|" + key, False, "_is_square_in_check: " + msg, ctx.where(f))
    ctx.ob(rid, "paths|every-answer-backed-by-lookups", not path_problems, "" if not path_problems else "%d path(s) answer without the lookups the answer needs" % len(path_problems), ctx.where(f),
           sample={"paths": len(pes), "true_paths": true_paths})
    want = {"rook": {"rooks", "queens"}, "bishop": {"bishops", "queens"}, "knight": {"knights"}, "king": {"kings"}}
    for kind, acc in sorted(want.items()):
        got = found.get(kind, set())
        ok = len(got) >= 1 and all(g[0] == frozenset(acc) and g[1] == frozenset({("param", 2)}) and g[3] for g in got)
        ctx.ob(rid, "attacker|%s" % kind, ok,
               "" if ok else "attackers along %s lines: the check test combines the %s table with %s" % (kind, kind, [(sorted(g[0]), [show(p) for p in g[1]], "king square/occupancy ok" if g[3] else "wrong square or occupancy") for g in got] or "nothing (attacker kind never consulted)"),
               ctx.where(f), sample={"table_kind": kind, "piece_sets": [sorted(g[0]) for g in got], "table": [g[4].rsplit("::", 1)[-1] for g in got if g[4]]})
    # pawns: defended WHITE -> the white capture table (squares a white pawn on sq would attack)
    for kind, col in (("white_pawn", 0), ("black_pawn", 1)):
        got = found.get(kind, set())
        conds = {g[2] for g in got}
        good = {"==%d" % col, "!=%d" % (1 - col)}
        ok = len(got) >= 1 and conds <= good and all(g[0] == frozenset({"pawns"}) and g[1] == frozenset({("param", 2)}) and g[3] for g in got)
        ctx.ob(rid, "attacker|pawn-vs-%s-king" % ("white" if col == 0 else "black"), ok,
               "" if ok else "the %s capture table is used under colour condition(s) %s with sets %s (expected: only when the defended colour is %d, with the attacker's pawns)" % (kind, sorted(map(str, conds)), [sorted(g[0]) for g in got], col),
               ctx.where(f), sample={"table_kind": kind, "colour_condition": sorted(map(str, conds))})
    extra = sorted(str(k) for k in found if k not in set(want) | {"white_pawn", "black_pawn"})
    ctx.ob(rid, "no-unclassified-table", not extra, "" if not extra else "the check test uses a table that is none of the six attack tables: %s" % extra, ctx.where(f))


def r2_colours(ctx):
    rid = "C05.R2"
    ctx.rule(rid, "is_valid tests the side that just moved, is_current_in_check the side to move, is_in_check the given colour; _is_in_check_by_bits pairs (colour, other) and uses that colour's king", floor=6)
    prog = ctx.prog
    # the rule reads the chain is_valid / is_current_in_check / is_in_check -> _is_in_check_by_bits -> _is_square_in_check
    # by name and by parameter position: all of it has to be there as reviewed
    for anchor in ("_is_in_check_by_bits", "_is_square_in_check"):
        ctx.fn(rid, BB + anchor)
    def ret_of(key):
        f = ctx.fn(rid, key)
        try:
            ps = returning_paths(f)
        except NotLoopFree:
            return f, None
        return f, ps
    def every_path(key, inst, pred, expected):
        f, ps = ret_of(key)
        if not ps:
            ctx.lost(rid, key + " (loop-free paths)")
            return
        bad = [show(pe.ret()) for pe in ps if not pred(pe.ret())]
        ctx.ob(rid, inst, not bad,
               "" if not bad else "%s has %d path(s) whose result is not %s: it returns %s without consulting the reverse attack lookup for that colour"
               % (f["display"], len(bad), expected, bad[:2]), ctx.where(f), sample={"function": key.rsplit("::", 1)[-1], "paths": len(ps), "result": show(ps[0].ret())})
    TURN = ("f", ("*", ("param", 1)), "turn")
    every_path(BB + "is_valid", "is_valid|not-in-check(opposite_turn)",
               lambda t: t[0] == "un" and t[1] == "Not" and t[2][0] == "call" and t[2][1] == BB + "_is_in_check_by_bits" and t[2][2][0] == ("param", 1) and t[2][2][1][0] == "call" and t[2][2][1][1] == BB + "opposite_turn",
               "!_is_in_check_by_bits(self, opposite_turn())")
    every_path(BB + "is_current_in_check", "is_current_in_check|turn",
               lambda t: t[0] == "call" and t[1] == BB + "_is_in_check_by_bits" and t[2][0] == ("param", 1) and t[2][1] == TURN,
               "_is_in_check_by_bits(self, self.turn)")
    every_path(BB + "is_in_check", "is_in_check|colour-index",
               lambda t: t[0] == "call" and t[1] == BB + "_is_in_check_by_bits" and t[2][0] == ("param", 1) and t[2][1] == ("f", ("*", ("param", 2)), "index"),
               "_is_in_check_by_bits(self, colour.index)")
    f, ps = ret_of(BB + "opposite_turn")
    if ps:
        inl = Inliner(prog, only=lambda k: k.endswith("::opposite_color"))
        try:
            vals = {}
            for c in (0, 1):
                vs = set()
                for pe in returning_paths(f, inliner=inl):
                    # evaluate only paths whose conditions hold
                    env = {("f", ("*", ("param", 1)), "turn"): c, ("param", 1): c}
                    good = True
                    for (d, cc, b, ty) in pe.conds:
                        try:
                            v = fold(d, env)
                        except Unfoldable:
                            good = False
                            break
                        if (v in cc[1]) != (cc[0] == "in"):
                            good = False
                            break
                    if good:
                        vs.add(fold(pe.ret(), env))
                vals[c] = vs
            ok = vals == {0: {1}, 1: {0}}
        except Unfoldable:
            ok, vals = False, "not foldable"
        ctx.ob(rid, "opposite_turn|swaps", ok, "" if ok else "opposite_turn maps WHITE/BLACK to %s" % vals, ctx.where(f))
    f, ps = ret_of(BB + "_is_in_check_by_bits")
    if not ps:
        ctx.lost(rid, "_is_in_check_by_bits (loop-free paths)")
        return
    # every answer comes from the reverse lookup: a path that answers by itself (an early `return false` for a
    # "harmless" material configuration) skips the king-adjacency and all other attacker tests
    shortcuts = []
    for pe in ps:
        t = pe.ret()
        if not (t[0] == "call" and t[1] == BB + "_is_square_in_check"):
            extra = ["%s is %s" % (show(d)[:80], "true" if c != ("in", (0,)) else "false") for (d, c, b, ty) in pe.conds if not (d[0] == "bin" and d[1] == "Eq" and ("param", 2) in (d[2], d[3]))]
            shortcuts.append("returns %s when %s" % (show(t)[:40], " and ".join(extra) or "-"))
    if shortcuts and not any(pe.ret()[0] == "call" and pe.ret()[1] == BB + "_is_square_in_check" for pe in ps):
        # no path ends in the reverse lookup call at all: the function is written some other way (the lookup's result
        # goes through a temporary, an Option, a helper)
        ctx.lost(rid, "_is_in_check_by_bits: paths that end in `_is_square_in_check(..)`")
        return
    ctx.ob(rid, "_is_in_check_by_bits|every-answer-from-the-lookup", not shortcuts,
           "" if not shortcuts else "_is_in_check_by_bits answers without the reverse attack lookup: %s" % "; ".join(sorted(set(shortcuts))[:2]), ctx.where(f), sample={"paths": len(ps)})
    ps = [pe for pe in ps if pe.ret()[0] == "call" and pe.ret()[1] == BB + "_is_square_in_check"]
    seen_colours = set()
    for pe in ps:
        white = None
        for (d, c, b, ty) in pe.conds:
            if d[0] == "bin" and d[1] == "Eq" and ("param", 2) in (d[2], d[3]):
                white = c != ("in", (0,))
            if d == ("param", 2) and c[0] in ("in", "notin") and c[1] in ((0,), (1,)):
                # `match colour { WHITE => .., _ => .. }`: a switch on the colour itself (WHITE = 0)
                white = (c[1] == (0,)) == (c[0] == "in")
        if white in seen_colours:
            continue
        seen_colours.add(white)
        t = pe.ret()
        me, other = ("white", "black") if white else ("black", "white")
        ok = False
        if t[0] == "call" and t[1] == BB + "_is_square_in_check" and len(t[2]) == 4:
            col, passive, sq, occ = t[2]
            if sq[0] == "call" and sq[1].endswith("Option::unwrap_or") and sq[2][0][0] == "agg" and sq[2][0][2].endswith("::Some") and sq[2][0][3]:
                sq = sq[2][0][3][0]      # `Some(square).unwrap_or(64)`: the square
            P = lambda n: ("f", ("*", ("param", 1)), n)
            sq_ok = sq[0] == "call" and sq[1].endswith("trailing_zeros") and sq[2][0][0] == "call" and sq[2][0][1] == PS + "kings" and sq[2][0][2][0] in (P(me), ("&", P(me)))
            pas_ok = passive in (P(other), ("&", P(other)))
            occ_ok = occ[0] == "bin" and occ[1] == "BitOr" and {x[2][0] if x[0] == "call" and x[1] == PS + "full_occupancy" else None for x in (occ[2], occ[3])} <= {P("white"), P("black"), ("&", P("white")), ("&", P("black"))} \
                and len({show(x) for x in (occ[2], occ[3])}) == 2
            ok = col == ("param", 2) and sq_ok and pas_ok and occ_ok
        ctx.ob(rid, "_is_in_check_by_bits|%s" % ("WHITE" if white else "BLACK"), ok,
               "" if ok else "for colour %s the test is %s (expected: colour passed on, attackers = %s, king square of %s, occupancy of both)" % ("WHITE" if white else "other", show(t), other, me),
               ctx.where(f), sample={"colour": "WHITE" if white else "BLACK", "call": show(t)})


def r3_evaluator(ctx):
    rid = "C05.R3"
    ctx.rule(rid, "the evaluator returns a mate score only when the side to move is in check and has no legal move; any other move-less position is the draw score", floor=2)
    H = "inkayaku_engine_core::engine::heuristic::Heuristic::"
    f = ctx.fn(rid, H + "evaluate")
    try:
        pes = returning_paths(f)
    except NotLoopFree:
        ctx.lost(rid, "Heuristic::evaluate has a loop")
        return
    bad, mates, draws = [], 0, 0
    for pe in pes:
        conds = {d: c for (d, c, b, ty) in pe.conds}
        lmr = conds.get(("param", 4))
        in_check = None
        for d, c in conds.items():
            if d[0] == "call" and d[1].endswith("Bitboard::is_current_in_check"):
                in_check = c != ("in", (0,))
        r = pe.ret()
        is_mate_score = any(x[0] == "call" and x[1].rsplit("::", 1)[-1] in ("win_score", "loss_score") for x in leaves(r))
        if is_mate_score:
            mates += 1
            if not (lmr == ("in", (0,)) and in_check is True):
                bad.append("a mate score %s is returned with legal_moves_remaining %s, in check %s" % (show(r), lmr, in_check))
        if lmr == ("in", (0,)) and not is_mate_score:
            draws += 1
            if not (r[0] == "call" and r[1].endswith("::draw_score")):
                bad.append("move-less, not mate: returns %s" % show(r))
    # (how many paths carry a mate score depends on how the match is written - an exhaustive match, a debug assertion
    # before it - and is no finding; a wrong path is)
    ok = not bad and mates >= 1 and draws >= 1
    if not bad and not (mates >= 1 and draws >= 1):
        ctx.lost(rid, "the mate and the draw branch of Heuristic::evaluate (found %d mate / %d move-less draw paths)" % (mates, draws))
        ok = None
    if ok is not None:
      ctx.ob(rid, "mate-needs-check-and-no-moves", ok, "" if ok else "; ".join(bad) or "expected two mate branches and a draw branch (found %d/%d)" % (mates, draws), ctx.where(f),
           sample={"mate_paths": mates, "stalemate_paths": draws})
    # converse: whenever there is no legal move and the side to move is in check, the answer is a mate score - also
    # on paths that never looked at one of the two facts (a draw rule hoisted in front of the terminal branch)
    missing = []
    for pe in pes:
        conds = {d: c for (d, c, b, ty) in pe.conds}
        lmr = conds.get(("param", 4))
        in_check = None
        others = []
        for d, c in conds.items():
            if d[0] == "call" and d[1].endswith("Bitboard::is_current_in_check"):
                in_check = c != ("in", (0,))
            elif d != ("param", 4) and not any(x[0] == "f" and x[2] == "turn" for x in leaves(d)):
                others.append("%s is %s" % (show(d)[:70], "true" if c != ("in", (0,)) else "false"))
        compatible_with_mate = (lmr is None or lmr == ("in", (0,))) and (in_check is None or in_check is True)
        # the side to move is WHITE or BLACK: a path that has excluded both is not a path
        turn_conds = [(d, c) for d, c in conds.items() if any(x[0] == "f" and x[2] == "turn" for x in leaves(d))]
        if turn_conds:
            feasible = False
            for tv in (0, 1):
                good = True
                for d, c in turn_conds:
                    m = {x: ("c", tv, "u8", None) for x in leaves(d) if x[0] == "f" and x[2] == "turn"}
                    try:
                        v = fold(subst(d, m))
                    except Unfoldable:
                        continue
                    if (v in c[1]) != (c[0] == "in"):
                        good = False
                feasible = feasible or good
            if not feasible:
                continue
        r = pe.ret()
        is_mate_score = any(x[0] == "call" and x[1].rsplit("::", 1)[-1] in ("win_score", "loss_score") for x in leaves(r))
        if compatible_with_mate and not is_mate_score:
            missing.append("returns %s %s" % (show(r)[:60], ("when " + " and ".join(others)) if others else "without looking at the legal-move flag / the check test"))
    ctx.ob(rid, "checkmate-always-scored-as-mate", not missing,
           "" if not missing else "a checkmated side to move (no legal move, in check) can be valued otherwise: the evaluator %s - another rule (fifty-move / material draw) takes precedence over checkmate" % "; ".join(sorted(set(missing))[:2]),
           ctx.where(f), sample={"paths": len(pes)})
    # the search hands `legal_moves_remaining = false` only when no legal move was found
    ctx.ob(rid, "paths-enumerated", len(pes) >= 5, "" if len(pes) >= 5 else "only %d paths" % len(pes), ctx.where(f), sample={"paths": len(pes)})


def run(ctx):
    r1_reverse_lookup(ctx)
    r2_colours(ctx)
    r3_evaluator(ctx)
    # the search decides 'no legal move' only on evidence (shared with C08.R3), and any attack set computed by
    # shifting occupancies instead of the tables must not wrap around the board edge (shared with C01.R8)
    from . import c08, c01
    c08.r3_no_moves_flag(ctx)
    c01.r8_hand_written_steps(ctx, "C05.R4")
    ctx.assumptions += ["the attack tables compute what C04 establishes (C04 must pass)", "both kings exist (legal positions)"]


_run_before_shared_r6 = run


def run(ctx):
    _run_before_shared_r6(ctx)
    # "no legal move exactly when mate or stalemate" rests on the legal generator and is_any_move_legal probing every
    # pseudo-legal move with make / is_valid / unmake (shared with C01.R6): a fast path that accepts moves unprobed
    # (pieces the king cannot see ...) misjudges the e.p. capture that removes two pawns from the king's line
    from . import c01
    c01.r6_legal_filter(ctx)


_run_before_shared_c14 = run


def run(ctx):
    _run_before_shared_c14(ctx)
    # "mate and stalemate are never confused" is observed at the SAN writer's suffix too: '#' only on an in-check test
    # evaluated after the move (C14.R1, shared)
    from . import c14
    c14.r1_mate_needs_check(ctx)
    c14.r1b_check_test_unconditional(ctx)
