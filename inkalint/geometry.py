"""Board geometry oracle (the only chess knowledge in the trusted base).

Square index convention of the repository: index = file + 8 * row, row 0 = rank 8 (A8 = 0, H1 = 63)."""

ROOK_DIRS = ((1, 0), (-1, 0), (0, 1), (0, -1))
BISHOP_DIRS = ((1, 1), (1, -1), (-1, 1), (-1, -1))
KNIGHT_STEPS = ((1, 2), (2, 1), (-1, 2), (-2, 1), (1, -2), (2, -1), (-1, -2), (-2, -1))
KING_STEPS = ((1, 0), (-1, 0), (0, 1), (0, -1), (1, 1), (1, -1), (-1, 1), (-1, -1))
# a white pawn moves towards rank 8 = towards row 0 = lower index
WHITE_PAWN_CAPTURES = ((-1, -1), (1, -1))
BLACK_PAWN_CAPTURES = ((-1, 1), (1, 1))


def fr(sq):
    return sq % 8, sq // 8


def sq_of(f, r):
    return f + 8 * r


def on(f, r):
    return 0 <= f < 8 and 0 <= r < 8


def rays(sq, dirs):
    f0, r0 = fr(sq)
    out = []
    for df, dr in dirs:
        ray = []
        f, r = f0 + df, r0 + dr
        while on(f, r):
            ray.append(sq_of(f, r))
            f, r = f + df, r + dr
        out.append(ray)
    return out


def relevant_mask(sq, dirs):
    """squares whose occupancy can change the attack set: every ray square except the last of each ray"""
    m = 0
    for ray in rays(sq, dirs):
        for s in ray[:-1]:
            m |= 1 << s
    return m


def slide(sq, occ, dirs=None, _rays=None):
    """attack set along the rays until the first blocker, blocker included"""
    a = 0
    for ray in (_rays if _rays is not None else rays(sq, dirs)):
        for s in ray:
            a |= 1 << s
            if occ >> s & 1:
                break
    return a


def steps(sq, deltas):
    f0, r0 = fr(sq)
    m = 0
    for df, dr in deltas:
        if on(f0 + df, r0 + dr):
            m |= 1 << sq_of(f0 + df, r0 + dr)
    return m


def subsets(mask):
    """all subsets of a bit mask (carry-rippler)"""
    s = 0
    while True:
        yield s
        s = (s - mask) & mask
        if s == 0:
            break


def bswap64(x):
    return int.from_bytes(x.to_bytes(8, "little"), "big")


def file_mask(f):
    return sum(1 << sq_of(f, r) for r in range(8))


def row_mask(r):
    return sum(1 << sq_of(f, r) for f in range(8))


def name_of(sq):
    f, r = fr(sq)
    return "abcdefgh"[f] + str(8 - r)
