"""A5: make/unmake pairing as an exploration of the product (block, outstanding count, return kind).

For every function and every receiver place on which `Bitboard::make`/`unmake` (or a declared
committer) is called, all CFG paths are explored with the number of outstanding makes as part of
the state.  Obligation: at every `return`, the count is 0 when the receiver is reached through a
borrowed parameter (the caller's board).  Boards owned by a local carry no obligation.
"""
from collections import deque
from .cfg import Cfg
from .expr import Exprs, show

MAKE = "inkayaku_board::board::Bitboard::make"
UNMAKE = "inkayaku_board::board::Bitboard::unmake"
CLIP = 3


def strip_ref(t):
    while t[0] == "&":
        t = t[1]
    return t


def receiver_root(tree):
    """the place the receiver reference points to"""
    t = tree
    if t[0] == "&":
        return strip_ref(t)
    # a reference-typed value (parameter or local holding &mut Bitboard): the place is its deref
    return ("*", t)


def base_leaf(t):
    while t[0] in ("f", "*", "idx", "cidx", "dc", "&"):
        t = t[1]
    return t


def rootedness(f, root):
    """'borrowed' (obligation), 'owned' (none) or 'unknown' (treated as borrowed, flagged)"""
    leaf = base_leaf(root)
    if leaf[0] in ("param", "local"):
        ty = f["locals"][leaf[1]]["ty"]
        # is there a deref on the way from the leaf to the root?
        derefs = 0
        t = root
        while t[0] in ("f", "*", "idx", "cidx", "dc", "&"):
            if t[0] == "*":
                derefs += 1
            t = t[1]
        if derefs == 0 and not ty.startswith("&") and not ty.startswith("*"):
            return "owned"
        if leaf[0] == "param":
            return "borrowed"
        # a local reference: where does it come from?
        return "unknown"
    return "unknown"


def ret_kind_of_rv(rv):
    if rv["op"] == "agg" and rv["kind"] == "adt" and rv["adt"].endswith("result::Result"):
        return rv["variant"]
    return "Other"


class FnBalance:
    def __init__(self, f, effects):
        """effects: callee key -> list of possible deltas (make: [1], unmake: [-1], committer: [0,1])"""
        self.f = f
        self.cfg = Cfg(f)
        self.ex = Exprs(f)
        self.sites = {}  # root -> {block: (callee, deltas, arg trees)}
        for bi in sorted(self.cfg.reach):
            t = f["blocks"][bi]["term"]
            if t["k"] != "call":
                continue
            key = t["callee"].get("key")
            if key in effects and t["args"]:
                recv = self.ex.operand(t["args"][0])
                root = receiver_root(recv)
                args = tuple(self.ex.operand(a) for a in t["args"][1:])
                self.sites.setdefault(root, {})[bi] = (key, effects[key], args, t["line"])

    def explore(self, root):
        """returns (results, overflow) where results = list of (count, retkind, return block, path)"""
        f, cfg = self.f, self.cfg
        sites = self.sites[root]
        start = (0, 0, None)
        prev = {start: None}
        q = deque([start])
        results = []
        overflow = []
        while q:
            st = q.popleft()
            b, cnt, rk = st
            blk = f["blocks"][b]
            for s in blk["stmts"]:
                d = s["dst"]
                if d is not None and d["l"] == 0 and not d["p"]:
                    rk = ret_kind_of_rv(s["rv"])
            t = blk["term"]
            cnts = [cnt]
            if t["k"] == "call":
                d = t["dest"]
                if d["l"] == 0 and not d["p"]:
                    ck = t["callee"].get("key") or ""
                    rk = "Residual" if ck.endswith("::from_residual") else "Other"
                if b in sites:
                    cnts = [cnt + dlt for dlt in sites[b][1]]
            if t["k"] == "return":
                results.append((cnt, rk, b, self._path(prev, st)))
                continue
            for c2 in cnts:
                if abs(c2) > CLIP:
                    overflow.append((b, c2, self._path(prev, st)))
                    continue
                for s in cfg.succ[b]:
                    n = (s, c2, rk)
                    if n not in prev:
                        prev[n] = st
                        q.append(n)
        return results, overflow

    @staticmethod
    def _path(prev, st):
        p = []
        while st is not None:
            p.append(st[0])
            st = prev[st]
        return p[::-1]


def describe_path(f, path, sites):
    """render a witness path: the effect sites and the source lines it runs through"""
    out = []
    for b in path:
        t = f["blocks"][b]["term"]
        if b in sites:
            out.append("bb%d:L%d %s" % (b, t["line"], sites[b][0].rsplit("::", 1)[-1]))
        elif t["k"] == "switch":
            out.append("bb%d:L%d ?" % (b, t["line"]))
        elif t["k"] == "return":
            out.append("bb%d:L%d return" % (b, t["line"]))
    # compress
    res = []
    for x in out:
        if not res or res[-1] != x:
            res.append(x)
    if len(res) > 24:
        res = res[:10] + ["..."] + res[-12:]
    return " -> ".join(res)
