"""A2/A3: expression trees over the JSON MIR, path evaluation of loop-free code, integer folding.

Trees are hashable tuples:
  ('c', value, ty, path)      evaluated constant (path = def path of a named constant or None)
  ('fn', key)                 function item
  ('param', n) ('local', n)   parameter / unresolved local
  ('f', base, name)           field          ('*', base) deref        ('&', base) borrow
  ('idx', base, i) ('cidx', base, n) ('dc', base, variant)
  ('bin', op, a, b, ty) ('un', op, a, ty) ('cast', ty, a, from_ty)
  ('call', key, args, display) ('agg', kind, name, args) ('discr', base) ('unk', why)
"""
import json, re

INT_BITS = {"u8": 8, "u16": 16, "u32": 32, "u64": 64, "u128": 128, "usize": 64,
            "i8": 8, "i16": 16, "i32": 32, "i64": 64, "i128": 128, "isize": 64, "bool": 1, "char": 32}
COMMUTATIVE = {"Add", "Mul", "BitAnd", "BitOr", "BitXor", "Eq", "Ne"}


def is_signed(ty):
    return ty in ("i8", "i16", "i32", "i64", "i128", "isize")


def hashable(v):
    if isinstance(v, list):
        return tuple(hashable(x) for x in v)
    if isinstance(v, dict):
        return ("json", json.dumps(v, sort_keys=True))
    return v


def place_ty(f, pl):
    if not pl["p"]:
        return f["locals"][pl["l"]]["ty"]
    last = pl["p"][-1]
    if isinstance(last, dict) and "f" in last:
        return last["ty"]
    if last == "deref" and len(pl["p"]) == 1:
        t = f["locals"][pl["l"]]["ty"]
        if t.startswith("&mut "):
            return t[5:]
        if t.startswith("&"):
            return t[1:].lstrip("'_a ").strip()
    return None


def operand_ty(f, o):
    if o["k"] == "const":
        return o["ty"]
    if o["k"] in ("copy", "move"):
        return place_ty(f, o["pl"])
    return None


def canon_bin(op, a, b, ty):
    if op in COMMUTATIVE and repr(b) < repr(a):
        a, b = b, a
    return ("bin", op, a, b, ty)


def const_tree(o):
    if o.get("fn"):
        return ("fn", o["fn"])
    return ("c", hashable(o.get("v")), o["ty"], o.get("path") if "promoted" not in o else "%s#p%d" % (o["path"], o["promoted"]))


def project(tree, e):
    """apply one projection element to a tree, simplifying through borrows and aggregates"""
    if e == "deref":
        if tree[0] == "&":
            return tree[1]
        return ("*", tree)
    if isinstance(e, dict):
        if "f" in e:
            if tree[0] == "agg" and tree[1] in ("tuple", "adt", "closure") and e["f"] < len(tree[3]):
                return tree[3][e["f"]]
            if tree[0] == "c" and isinstance(tree[1], tuple) and tree[1] and tree[1][0] == "json":
                # field of an evaluated struct constant
                try:
                    v = json.loads(tree[1][1])
                    if isinstance(v, dict) and e["name"] in v:
                        return ("c", hashable(v[e["name"]]), e.get("ty"), None)
                except ValueError:
                    pass
            if tree[0] == "c" and isinstance(tree[1], tuple) and not (tree[1] and tree[1][0] == "json") and e["f"] < len(tree[1]) and (tree[2] or "").startswith("("):
                return ("c", tree[1][e["f"]], e.get("ty"), None)
            if tree[0] == "bin" and tree[1].endswith("WithOverflow"):
                if e["f"] == 0:
                    return canon_bin(tree[1][:-12], tree[2], tree[3], tuple_first(tree[4]))
                return ("ovf", tree)
            if tree[0] == "dc" and tree[1][0] == "agg" and tree[1][2].endswith("::" + str(tree[2])) and e["f"] < len(tree[1][3]):
                return tree[1][3][e["f"]]
            return ("f", tree, e["name"])
        if "idx" in e:
            return ("idx", tree, ("local", e["idx"]))
        if "cidx" in e:
            return ("cidx", tree, e["cidx"])
        if "downcast" in e:
            return ("dc", tree, e["downcast"])
    return ("proj", tree, hashable(e))


def mkref(t):
    """&*x is x (a reborrow denotes the same reference)"""
    if t[0] == "*":
        return t[1]
    return ("&", t)


def tuple_first(ty):
    if ty and ty.startswith("(") and "," in ty:
        return ty[1:].split(",")[0].strip()
    return ty


class Exprs:
    """Flow-insensitive resolution: a local with exactly one full definition, no partial writes and
    no mutable borrow is replaced by the tree of its definition."""

    def __init__(self, f, prog=None):
        self.f = f
        self.prog = prog
        self.defs = {}
        self.partial = {}
        self.mutref = set()
        for bi, b in enumerate(f["blocks"]):
            if b["cleanup"]:
                continue
            for si, s in enumerate(b["stmts"]):
                d = s["dst"]
                if d is not None:
                    if d["p"]:
                        # a write through a dereference changes the pointee, not the local itself
                        if "deref" not in [e for e in d["p"] if isinstance(e, str)]:
                            self.partial[d["l"]] = self.partial.get(d["l"], 0) + 1
                    else:
                        self.defs.setdefault(d["l"], []).append(("stmt", bi, si, s["rv"]))
                rv = s["rv"]
                if rv["op"] in ("ref", "addr") and rv.get("mut"):
                    pl = rv["place"]
                    # a mutable borrow of the local itself (not through a deref) may write it later
                    if "deref" not in [e for e in pl["p"] if isinstance(e, str)]:
                        self.mutref.add(pl["l"])
            t = b["term"]
            if t["k"] == "call":
                d = t["dest"]
                if d["p"]:
                    if "deref" not in [e for e in d["p"] if isinstance(e, str)]:
                        self.partial[d["l"]] = self.partial.get(d["l"], 0) + 1
                else:
                    self.defs.setdefault(d["l"], []).append(("call", bi, None, t))
        self._memo = {}
        self._visiting = set()

    def expandable(self, l):
        return (l > self.f["args"] or l == 0) and len(self.defs.get(l, [])) == 1 and not self.partial.get(l) and l not in self.mutref

    def local(self, l):
        if 1 <= l <= self.f["args"]:
            return ("param", l)
        if l in self._memo:
            return self._memo[l]
        if not self.expandable(l) or l in self._visiting:
            return ("local", l)
        self._visiting.add(l)
        d = self.defs[l][0]
        if d[0] == "stmt":
            t = self.rvalue(d[3], self.f["locals"][l]["ty"])
        else:
            t = self.call(d[3], d[1])
        self._visiting.discard(l)
        self._memo[l] = t
        return t

    def initial(self, l):
        """tree of the single full definition of a local even when it is later borrowed mutably
        (iterators, vectors): its initial value"""
        if len(self.defs.get(l, [])) == 1 and not self.partial.get(l):
            d = self.defs[l][0]
            if d[0] == "stmt":
                return self.rvalue(d[3], self.f["locals"][l]["ty"])
            return self.call(d[3], d[1])
        return ("local", l)

    def _variant_def(self, l, variant):
        """a local assigned in several places, each time a freshly built enum value: the definition that builds
        `variant` (the only one a `(l as variant).field` read can see), if there is exactly one"""
        defs = self.defs.get(l, [])
        if len(defs) < 2 or self.partial.get(l) or l in self.mutref:
            return None
        hits = []
        for d in defs:
            if d[0] != "stmt" or d[3]["op"] != "agg" or d[3].get("kind") != "adt":
                return None
            if d[3].get("variant") == variant:
                hits.append(d)
        if len(hits) != 1:
            return None
        return self.rvalue(hits[0][3], self.f["locals"][l]["ty"])

    def place(self, pl):
        t = self.local(pl["l"])
        if t == ("local", pl["l"]) and pl["p"] and isinstance(pl["p"][0], dict) and "downcast" in pl["p"][0]:
            v = self._variant_def(pl["l"], pl["p"][0]["downcast"])
            if v is not None:
                t = v
        for e in pl["p"]:
            if isinstance(e, dict) and "idx" in e:
                t = ("idx", t, self.local(e["idx"]))
            else:
                t = project(t, e)
        return t

    def operand(self, o):
        if o["k"] == "const":
            return const_tree(o)
        if o["k"] in ("copy", "move"):
            return self.place(o["pl"])
        return ("unk", o["k"])

    def rvalue(self, rv, ty=None):
        op = rv["op"]
        if op == "use":
            return self.operand(rv["a"][0])
        if op == "bin":
            return canon_bin(rv["bop"], self.operand(rv["a"][0]), self.operand(rv["a"][1]), ty)
        if op == "un":
            return ("un", rv["uop"], self.operand(rv["a"][0]), ty)
        if op == "cast":
            a = self.operand(rv["a"][0])
            if rv["kind"].startswith("PointerCoercion") or rv["kind"] in ("PtrToPtr", "Transmute") and False:
                return a
            return ("cast", rv["cast_ty"], a, operand_ty(self.f, rv["a"][0]))
        if op in ("ref", "addr"):
            return mkref(self.place(rv["place"]))
        if op == "discr":
            return ("discr", self.place(rv["place"]))
        if op == "agg":
            k = rv["kind"]
            name = ""
            if k == "adt":
                name = rv["adt"] + "::" + rv["variant"]
            elif k in ("closure", "coroutine", "coroutine_closure"):
                name = rv["closure"]
            return ("agg", k, name, tuple(self.operand(a) for a in rv["a"]))
        if op == "repeat":
            return ("repeat", self.operand(rv["a"][0]), rv["n"])
        return ("unk", op)

    def call(self, t, bi=None):
        c = t["callee"]
        if c.get("key") is None:
            return ("calli", self.operand(c["indirect"]), tuple(self.operand(a) for a in t["args"]))
        conv = int_conversion(c["key"])
        if conv and len(t["args"]) == 1:
            return ("cast", conv[0], self.operand(t["args"][0]), conv[1])
        return ("call", c["key"], tuple(self.operand(a) for a in t["args"]), c.get("display", ""))


# getters / predicates of the packed move: pure functions of a by-value argument
PURE_CALL_PREFIXES = ("inkayaku_board::board::Move::get_", "inkayaku_board::board::Move::is_")


_CONV = re.compile(r"^core::convert::num::<(\w+) as From<(\w+)>>::from$")


def int_conversion(key):
    """(to, from) when `key` is the lossless integer conversion `<to as From<from>>::from` (the same value as `as`)"""
    m = _CONV.match(key or "")
    if m and m.group(1) in INT_BITS and (m.group(2) in INT_BITS or m.group(2) in ("bool", "char")):
        return m.group(1), m.group(2)
    return None


def _params_only(t, depth=0):
    if not isinstance(t, tuple) or depth > 20:
        return False
    if t[0] in ("param", "c"):
        return True
    if t[0] == "call" and t[1].startswith(PURE_CALL_PREFIXES):
        return all(_params_only(a[1] if a[0] == "&" else a, depth + 1) for a in t[2])
    if t[0] == "bin":
        return _params_only(t[2], depth + 1) and _params_only(t[3], depth + 1)
    if t[0] in ("un", "cast"):
        return _params_only(t[2], depth + 1)
    return False


class PathEval:
    """A3: symbolic evaluation of one CFG path (list of block indices).  Locals take the tree of
    their last assignment on the path; writes through projections are remembered per place tree
    and forgotten at calls that receive a mutable reference."""

    def __init__(self, f, path, inliner=None, keep_mem=None):
        self.f = f
        self.keep_mem = keep_mem   # predicate on callee keys whose calls leave remembered writes intact
        self.env = {}
        self.mem = {}
        self.conds = []   # (discr tree, value or ('not', values...), block)
        self._facts = {}  # by-value tree -> [known equal to, set of values known unequal]
        self.calls = []   # (block, tree)
        self.writes = []  # (place tree, value tree, block)
        self.inliner = inliner
        self.path = path
        for i, b in enumerate(path):
            nxt = path[i + 1] if i + 1 < len(path) else None
            self._block(b, nxt)

    def local(self, l):
        if l in self.env:
            return self.env[l]
        if 1 <= l <= self.f["args"]:
            return ("param", l)
        return ("local", l)

    def place(self, pl):
        t = self.local(pl["l"])
        for e in pl["p"]:
            if isinstance(e, dict) and "idx" in e:
                t = ("idx", t, self.local(e["idx"]))
            else:
                t = project(t, e)
            if t in self.mem:
                t = self.mem[t]
        return t

    def operand(self, o):
        if o["k"] == "const":
            return const_tree(o)
        if o["k"] in ("copy", "move"):
            return self.place(o["pl"])
        return ("unk", o["k"])

    def rvalue(self, rv, ty):
        op = rv["op"]
        if op == "use":
            return self.operand(rv["a"][0])
        if op == "bin":
            return canon_bin(rv["bop"], self.operand(rv["a"][0]), self.operand(rv["a"][1]), ty)
        if op == "un":
            return ("un", rv["uop"], self.operand(rv["a"][0]), ty)
        if op == "cast":
            return ("cast", rv["cast_ty"], self.operand(rv["a"][0]), operand_ty(self.f, rv["a"][0]))
        if op in ("ref", "addr"):
            return mkref(self.place(rv["place"]))
        if op == "discr":
            return ("discr", self.place(rv["place"]))
        if op == "agg":
            k = rv["kind"]
            name = rv["adt"] + "::" + rv["variant"] if k == "adt" else rv.get("closure", "")
            return ("agg", k, name, tuple(self.operand(a) for a in rv["a"]))
        if op == "repeat":
            return ("repeat", self.operand(rv["a"][0]), rv["n"])
        return ("unk", op)

    def assign(self, dst, val, b):
        if dst is None:
            return
        if not dst["p"]:
            self.env[dst["l"]] = val
        else:
            t = self.local(dst["l"])
            for e in dst["p"]:
                if isinstance(e, dict) and "idx" in e:
                    t = ("idx", t, self.local(e["idx"]))
                else:
                    t = project(t, e)
            self.mem[t] = val
            self.writes.append((t, val, b))

    def _block(self, b, nxt):
        blk = self.f["blocks"][b]
        for s in blk["stmts"]:
            if s["dst"] is None:
                continue
            self.assign(s["dst"], self.rvalue(s["rv"], place_ty(self.f, s["dst"])), b)
            if s["rv"]["op"] in ("ref", "addr") and s["rv"].get("mut") and not s["dst"]["p"] and not any(e == "deref" or (isinstance(e, dict) and e.get("deref")) for e in s["rv"]["place"]["p"]):
                if not hasattr(self, "mutrefs"):
                    self.mutrefs = {}
                self.mutrefs[s["dst"]["l"]] = s["rv"]["place"]["l"]
        t = blk["term"]
        if t["k"] == "call":
            c = t["callee"]
            args = tuple(self.operand(a) for a in t["args"])
            if c.get("key") is None:
                tree = ("calli", self.operand(c["indirect"]), args)
            else:
                tree = ("call", c["key"], args, c.get("display", ""))
                conv = int_conversion(c["key"])
                if conv and len(args) == 1:
                    tree = ("cast", conv[0], args[0], conv[1])
                elif self.inliner:
                    r = self.inliner(c["key"], args)
                    if r is not None:
                        # the summary reads memory as of this call: resolve remembered writes
                        tree = subst(r, self.mem) if self.mem else r
            self.calls.append((b, tree))
            if any(a[0] == "&" for a in args) or any("&mut" in (operand_ty(self.f, a) or "") for a in t["args"]):
                # memory reachable through a mutable reference may have changed
                if any("&mut" in (operand_ty(self.f, a) or "") for a in t["args"]):
                    if not (self.keep_mem and c.get("key") and self.keep_mem(c["key"])):
                        self.mem = {}
                    else:
                        # the rest of memory is kept, but the local the callee got `&mut` of has changed: what was
                        # known about its value (an initial `Move::default()`, say) is no longer its value
                        refs = getattr(self, "mutrefs", {})
                        for a in t["args"]:
                            if a.get("k") in ("copy", "move") and not a["pl"]["p"] and a["pl"]["l"] in refs:
                                root = refs[a["pl"]["l"]]
                                if root > self.f["args"] and root in self.env:
                                    self.env[root] = ("havoc", root, b)
                                    self.mem = {k_: v_ for k_, v_ in self.mem.items() if ("local", root) not in list(leaves(k_))}
            self.assign(t["dest"], tree, b)
        elif t["k"] == "switch" and nxt is not None:
            d = self.operand(t["discr"])
            vals = [v for v, tb in t["targets"] if tb == nxt]
            if vals and nxt != t["otherwise"]:
                cc = ("in", tuple(vals))
            elif nxt == t["otherwise"]:
                cc = ("notin", tuple(v for v, tb in t["targets"] if tb != nxt))
            else:
                cc = ("in", tuple(vals))
            d, cc = self._norm_cond(d, cc, t.get("discr_ty"))
            if d is None:
                if cc is False:
                    self.infeasible = True
                return
            # what the path knows about by-value quantities (parameters, Move getters): `x == 3` here and `x == 4`, or
            # a `match x { 4 => ..}` arm, there cannot both hold
            fact = None
            if cc in (("in", (0,)), ("notin", (0,))) and d[0] == "bin" and d[1] == "Eq":
                kx = [x for x in (d[2], d[3]) if x[0] == "c" and isinstance(x[1], int) and not isinstance(x[1], bool)]
                vx = [x for x in (d[2], d[3]) if x[0] != "c"]
                if len(kx) == 1 and len(vx) == 1 and _params_only(vx[0]):
                    fact = (vx[0], "eq" if cc == ("notin", (0,)) else "ne", (kx[0][1],))
            elif cc[0] in ("in", "notin") and d[0] != "c" and _params_only(d) and all(isinstance(v_, int) for v_ in cc[1]) and t.get("discr_ty") != "bool":
                fact = (d, "eq" if cc[0] == "in" and len(cc[1]) == 1 else ("among" if cc[0] == "in" else "ne"), tuple(cc[1]))
            if fact is not None:
                x_, kind_, vals_ = fact
                eqs_, nes_ = self._facts.setdefault(x_, [None, set()])
                if kind_ == "eq":
                    if (eqs_ is not None and eqs_ != vals_[0]) or vals_[0] in nes_:
                        self.infeasible = True
                    self._facts[x_][0] = vals_[0]
                elif kind_ == "ne":
                    if eqs_ is not None and eqs_ in vals_:
                        self.infeasible = True
                    nes_.update(vals_)
                elif kind_ == "among":
                    if eqs_ is not None and eqs_ not in vals_:
                        self.infeasible = True
            # the same by-value test taken both ways on one path: infeasible (only for conditions over parameters
            # and constants: they cannot change between the two tests)
            if cc in (("in", (0,)), ("notin", (0,))) and _params_only(d):
                for (d0, c0, b0, t0) in self.conds:
                    if d0 == d and c0 in (("in", (0,)), ("notin", (0,))) and c0 != cc:
                        self.infeasible = True
            self.conds.append((d, cc, b, t.get("discr_ty")))

    infeasible = False

    @staticmethod
    def _norm_cond(d, cc, ty):
        """boolean conditions in one canonical form: negations stripped, `a != b` read as not `a == b`, comparisons of a
        boolean with a constant removed, constant conditions decided ((None, True) holds trivially, (None, False) makes
        the path infeasible). Other discriminants are left as they are."""
        if ty != "bool" or cc not in (("in", (0,)), ("notin", (0,)), ("in", (1,)), ("notin", (1,))):
            if d[0] == "c" and isinstance(d[1], int) and not isinstance(d[1], bool):
                holds = (d[1] in cc[1]) if cc[0] == "in" else (d[1] not in cc[1])
                return None, holds
            return d, cc
        truth = cc in (("notin", (0,)), ("in", (1,)))
        for _ in range(8):
            if d[0] == "un" and d[1] == "Not":
                d, truth = d[2], not truth
            elif d[0] == "bin" and d[1] == "Ne":
                d, truth = ("bin", "Eq") + tuple(d[2:]), not truth
            elif d[0] == "bin" and d[1] == "Eq" and any(x[0] == "c" and isinstance(x[1], bool) for x in (d[2], d[3])):
                k, o = (d[2], d[3]) if d[2][0] == "c" and isinstance(d[2][1], bool) else (d[3], d[2])
                d, truth = o, (truth if k[1] else not truth)
            else:
                break
        if d[0] == "c" and isinstance(d[1], (bool, int)):
            return None, bool(d[1]) == truth
        return d, (("notin", (0,)) if truth else ("in", (0,)))

    def ret(self):
        return self.local(0)


# ------------------------------------------------------------------------------------------------
# integer folding

class Unfoldable(Exception):
    pass


def _wrap(v, ty):
    bits = INT_BITS.get(ty)
    if bits is None:
        raise Unfoldable("type %s" % ty)
    v &= (1 << bits) - 1
    if is_signed(ty) and v >> (bits - 1):
        v -= 1 << bits
    return v


def fold(tree, env=None):
    """evaluate an integer/bool tree; env maps leaf trees to python ints. Raises Unfoldable."""
    env = env or {}
    if tree in env:
        return env[tree]
    k = tree[0]
    if k == "c":
        v = tree[1]
        if isinstance(v, bool):
            return int(v)
        if isinstance(v, int):
            return v
        if isinstance(v, str) and tree[2] == "char" and len(v) == 1:
            return ord(v)
        raise Unfoldable("const %r" % (v,))
    if k == "cast":
        v = fold(tree[2], env)
        ty = tree[1]
        if ty in INT_BITS:
            return _wrap(v, ty)
        raise Unfoldable("cast to %s" % ty)
    if k == "un":
        v = fold(tree[2], env)
        ty = tree[3]
        if tree[1] == "Not":
            if ty == "bool":
                return 1 - v
            return _wrap(~v, ty)
        if tree[1] == "Neg":
            return _wrap(-v, ty)
        raise Unfoldable("unop %s" % tree[1])
    if k == "bin":
        op, ty = tree[1], tree[4]
        a, b = fold(tree[2], env), fold(tree[3], env)
        if op in ("Eq", "Ne", "Lt", "Le", "Gt", "Ge"):
            return int({"Eq": a == b, "Ne": a != b, "Lt": a < b, "Le": a <= b, "Gt": a > b, "Ge": a >= b}[op])
        if ty is None:
            raise Unfoldable("untyped %s" % op)
        base = op.replace("Unchecked", "").replace("WithOverflow", "")
        if base == "Add":
            return _wrap(a + b, ty)
        if base == "Sub":
            return _wrap(a - b, ty)
        if base == "Mul":
            return _wrap(a * b, ty)
        if base == "BitAnd":
            return _wrap(a & b, ty)
        if base == "BitOr":
            return _wrap(a | b, ty)
        if base == "BitXor":
            return _wrap(a ^ b, ty)
        if base == "Shl":
            bits = INT_BITS[ty]
            return _wrap(a << (b % bits), ty)
        if base == "Shr":
            bits = INT_BITS[ty]
            if is_signed(ty):
                return _wrap(a >> (b % bits), ty)
            return _wrap((a & ((1 << bits) - 1)) >> (b % bits), ty)
        if base == "Div":
            if b == 0:
                raise Unfoldable("div by zero")
            q = abs(a) // abs(b)
            return _wrap(q if (a < 0) == (b < 0) else -q, ty)
        if base == "Rem":
            if b == 0:
                raise Unfoldable("rem by zero")
            r = abs(a) % abs(b)
            return _wrap(r if a >= 0 else -r, ty)
        raise Unfoldable("binop %s" % op)
    if k == "call":
        key = tree[1]
        args = tree[2]
        # a few total integer intrinsics of core
        name = tree[3] or key
        short = key.rsplit("::", 1)[-1]
        if short in ("count_ones", "trailing_zeros", "leading_zeros", "swap_bytes", "wrapping_mul", "wrapping_add",
                     "wrapping_sub", "overflowing_mul", "overflowing_add", "wrapping_shl", "wrapping_shr") and key.startswith("core::num"):
            vals = [fold(a, env) for a in args]
            ty = _ty_of(args[0])
            if INT_BITS.get(ty) is None and key.startswith("core::num::<"):
                ty = key[len("core::num::<"):].split(">", 1)[0].replace("impl ", "")      # core::num::<u64>::wrapping_mul
            bits = INT_BITS.get(ty)
            if bits is None:
                raise Unfoldable("intrinsic type")
            u = vals[0] & ((1 << bits) - 1)
            if short == "count_ones":
                return bin(u).count("1")
            if short == "trailing_zeros":
                return bits if u == 0 else (u & -u).bit_length() - 1
            if short == "leading_zeros":
                return bits - u.bit_length()
            if short == "swap_bytes":
                return _wrap(int.from_bytes(u.to_bytes(bits // 8, "little"), "big"), ty)
            if short == "wrapping_mul":
                return _wrap(vals[0] * vals[1], ty)
            if short == "wrapping_add":
                return _wrap(vals[0] + vals[1], ty)
            if short == "wrapping_sub":
                return _wrap(vals[0] - vals[1], ty)
        raise Unfoldable("call %s" % key)
    if k == "idx" or k == "cidx":
        base = tree[1]
        while base[0] in ("*", "&"):
            base = base[1]
        arr = fold_const_value(base, env)
        i = fold(tree[2], env) if k == "idx" else tree[2]
        if not isinstance(arr, tuple) or not (0 <= i < len(arr)):
            raise Unfoldable("index %r out of a constant of length %s" % (i, len(arr) if isinstance(arr, tuple) else "?"))
        v = arr[i]
        if isinstance(v, bool):
            return int(v)
        if isinstance(v, int):
            return v
        raise Unfoldable("indexed element is not an integer")
    if k == "f" and tree[1][0] == "call" and tree[2] == "0":
        # (overflowing_mul(a, b)).0
        inner = tree[1]
        short = inner[1].rsplit("::", 1)[-1]
        if inner[1].startswith("core::num") and short.startswith("overflowing_"):
            vals = [fold(a, env) for a in inner[2]]
            ty = _ty_of(inner[2][0])
            opn = short[len("overflowing_"):]
            if opn == "mul":
                return _wrap(vals[0] * vals[1], ty)
            if opn == "add":
                return _wrap(vals[0] + vals[1], ty)
            if opn == "sub":
                return _wrap(vals[0] - vals[1], ty)
    raise Unfoldable("node %s" % k)


def fold_const_value(tree, env=None):
    """value of a constant tree that may be an array (tuple), following constant indexing"""
    if tree[0] == "c":
        return tree[1]
    if tree[0] in ("*", "&"):
        return fold_const_value(tree[1], env)
    if tree[0] in ("idx", "cidx"):
        arr = fold_const_value(tree[1], env)
        i = fold(tree[2], env) if tree[0] == "idx" else tree[2]
        if not isinstance(arr, tuple) or not (0 <= i < len(arr)):
            raise Unfoldable("index out of constant")
        return arr[i]
    raise Unfoldable("not a constant: %s" % tree[0])


def _ty_of(tree):
    k = tree[0]
    if k == "c":
        return tree[2]
    if k in ("bin",):
        return tree[4]
    if k == "un":
        return tree[3]
    if k == "cast":
        return tree[1]
    return None


def leaves(tree, kinds=("param", "local", "f", "*", "call", "c")):
    """iterate over sub-trees (pre-order)"""
    yield tree
    if not isinstance(tree, tuple):
        return
    k = tree[0]
    if k in ("bin",):
        yield from leaves(tree[2])
        yield from leaves(tree[3])
    elif k in ("un",):
        yield from leaves(tree[2])
    elif k == "cast":
        yield from leaves(tree[2])
    elif k in ("f", "*", "&", "dc", "discr", "cidx", "proj", "ovf"):
        yield from leaves(tree[1])
    elif k == "idx":
        yield from leaves(tree[1])
        yield from leaves(tree[2])
    elif k in ("call",):
        for a in tree[2]:
            yield from leaves(a)
    elif k == "calli":
        yield from leaves(tree[1])
        for a in tree[2]:
            yield from leaves(a)
    elif k == "agg":
        for a in tree[3]:
            yield from leaves(a)
    elif k == "repeat":
        yield from leaves(tree[1])


def subst(tree, mapping):
    """replace sub-trees found in `mapping`"""
    if tree in mapping:
        return mapping[tree]
    if not isinstance(tree, tuple):
        return tree
    k = tree[0]
    if k == "bin":
        return canon_bin(tree[1], subst(tree[2], mapping), subst(tree[3], mapping), tree[4])
    if k == "un":
        return ("un", tree[1], subst(tree[2], mapping), tree[3])
    if k == "cast":
        return ("cast", tree[1], subst(tree[2], mapping), tree[3])
    if k in ("*", "&", "discr", "ovf"):
        inner = subst(tree[1], mapping)
        if k == "*" and inner[0] == "&":
            return inner[1]
        if k == "&" and inner[0] == "*":
            return inner[1]
        return (k, inner)
    if k in ("f", "dc", "cidx", "proj"):
        inner = subst(tree[1], mapping)
        if k == "f":
            # re-simplify through aggregates when the field index is recoverable by name
            return ("f", inner, tree[2])
        return (k, inner, tree[2])
    if k == "idx":
        return ("idx", subst(tree[1], mapping), subst(tree[2], mapping))
    if k == "call":
        return ("call", tree[1], tuple(subst(a, mapping) for a in tree[2]), tree[3])
    if k == "calli":
        return ("calli", subst(tree[1], mapping), tuple(subst(a, mapping) for a in tree[2]))
    if k == "agg":
        return ("agg", tree[1], tree[2], tuple(subst(a, mapping) for a in tree[3]))
    return tree


def show(tree, depth=0):
    """compact rendering for reports"""
    if not isinstance(tree, tuple):
        return repr(tree)
    if depth > 12:
        return "..."
    k = tree[0]
    d = depth + 1
    if k == "c":
        v = tree[1]
        if tree[3]:
            nm = tree[3].rsplit("::", 1)[-1]
            if isinstance(v, (int, bool, str)):
                return "%s(=%r)" % (nm, v)
            return nm
        if isinstance(v, tuple) and len(repr(v)) > 40:
            return "const<%s>" % tree[2]
        return "%r" % (v,)
    if k == "fn":
        return "fn " + tree[1].rsplit("::", 1)[-1]
    if k == "param":
        return "arg%d" % tree[1]
    if k == "local":
        return "_%d" % tree[1]
    if k == "f":
        return "%s.%s" % (show(tree[1], d), tree[2])
    if k == "*":
        return "*%s" % show(tree[1], d)
    if k == "&":
        return "&%s" % show(tree[1], d)
    if k == "idx":
        return "%s[%s]" % (show(tree[1], d), show(tree[2], d))
    if k == "cidx":
        return "%s[%d]" % (show(tree[1], d), tree[2])
    if k == "dc":
        return "(%s as %s)" % (show(tree[1], d), tree[2])
    if k == "bin":
        return "%s(%s, %s)" % (tree[1], show(tree[2], d), show(tree[3], d))
    if k == "un":
        return "%s(%s)" % (tree[1], show(tree[2], d))
    if k == "cast":
        return "(%s as %s)" % (show(tree[2], d), tree[1])
    if k == "call":
        return "%s(%s)" % (tree[1].split("::", 1)[-1], ", ".join(show(a, d) for a in tree[2]))
    if k == "calli":
        return "(%s)(%s)" % (show(tree[1], d), ", ".join(show(a, d) for a in tree[2]))
    if k == "agg":
        return "%s{%s}" % (tree[2].rsplit("::", 2)[-1] if tree[2] else tree[1], ", ".join(show(a, d) for a in tree[3]))
    if k == "discr":
        return "discr(%s)" % show(tree[1], d)
    return str(tree)[:80]


class Inliner:
    """replaces calls to loop-free, single-path workspace functions by their returned tree (bounded depth)"""

    def __init__(self, prog, max_depth=6, only=None):
        self.prog = prog
        self.max_depth = max_depth
        self.only = only
        self._sum = {}
        self._depth = 0

    def summary(self, key):
        if key in self._sum:
            return self._sum[key]
        self._sum[key] = None
        f = self.prog.fns.get(key)
        if f is None or (self.only is not None and not self.only(key)):
            return None
        from .cfg import Cfg
        cfg = Cfg(f)
        if cfg.has_loops():
            return None
        try:
            paths = [p for p in cfg.acyclic_paths(limit=64) if f["blocks"][p[-1]]["term"]["k"] == "return"]
        except OverflowError:
            return None
        if len(paths) != 1:
            return None
        if self._depth >= self.max_depth:
            return None
        self._depth += 1
        try:
            pe = PathEval(f, paths[0], inliner=self)
            self._sum[key] = pe.ret()
        finally:
            self._depth -= 1
        return self._sum[key]

    def __call__(self, key, args):
        s = self.summary(key)
        if s is None:
            return None
        return subst(s, {("param", i + 1): a for i, a in enumerate(args)})

    def expand(self, tree, depth=0):
        """replace every summarizable call in `tree` (innermost first) by its returned tree"""
        if not isinstance(tree, tuple) or depth > 12:
            return tree
        k = tree[0]
        if k == "call":
            args = tuple(self.expand(a, depth + 1) for a in tree[2])
            r = self(tree[1], list(args))
            if r is not None:
                return self.expand(r, depth + 1)
            return ("call", tree[1], args, tree[3])
        if k == "bin":
            return canon_bin(tree[1], self.expand(tree[2], depth + 1), self.expand(tree[3], depth + 1), tree[4])
        if k in ("un", "cast"):
            return (k, tree[1], self.expand(tree[2], depth + 1), tree[3])
        if k in ("*", "&", "discr", "ovf"):
            inner = self.expand(tree[1], depth + 1)
            if k == "*" and inner[0] == "&":
                return inner[1]
            if k == "&" and inner[0] == "*":
                return inner[1]
            return (k, inner)
        if k in ("f", "dc", "cidx", "proj"):
            return (k, self.expand(tree[1], depth + 1), tree[2])
        return tree


def compile_int_tree(tree, leaf_names):
    """compile an integer tree into a python function over the named leaves (same semantics as fold; raises
    Unfoldable for anything fold does not know). leaf_names: {leaf tree: python identifier}"""
    def ones(ty):
        b = INT_BITS.get(ty)
        if b is None:
            raise Unfoldable("type %s" % ty)
        return (1 << b) - 1

    def wrap(e, ty):
        if is_signed(ty):
            raise Unfoldable("signed arithmetic is not compiled")
        return "((%s) & %d)" % (e, ones(ty))

    def go(t):
        if t in leaf_names:
            return leaf_names[t]
        k = t[0]
        if k == "c":
            return str(fold(t))
        if k == "cast":
            if is_signed(tree[3] or "") or is_signed(t[1]):
                raise Unfoldable("signed cast")
            return wrap(go(t[2]), t[1])
        if k == "bin":
            op, ty = t[1].replace("Unchecked", "").replace("WithOverflow", ""), t[4]
            a, b = go(t[2]), go(t[3])
            if op in ("BitAnd", "BitOr", "BitXor"):
                return "(%s %s %s)" % (a, {"BitAnd": "&", "BitOr": "|", "BitXor": "^"}[op], b)
            if op in ("Add", "Sub", "Mul"):
                return wrap("%s %s %s" % (a, {"Add": "+", "Sub": "-", "Mul": "*"}[op], b), ty)
            if op == "Shl":
                return wrap("%s << (%s %% %d)" % (a, b, INT_BITS[ty]), ty)
            if op == "Shr":
                if is_signed(ty):
                    raise Unfoldable("signed shift")
                return "(%s >> (%s %% %d))" % (a, b, INT_BITS[ty])
            raise Unfoldable("binop %s" % op)
        if k == "f" and t[1][0] == "call" and t[2] == "0" and t[1][1].startswith("core::num") and t[1][1].rsplit("::", 1)[-1].startswith("overflowing_"):
            inner = t[1]
            opn = inner[1].rsplit("::", 1)[-1][len("overflowing_"):]
            ty = inner[1].split("<")[1].split(">")[0]
            a, b = go(inner[2][0]), go(inner[2][1])
            return wrap("%s %s %s" % (a, {"mul": "*", "add": "+", "sub": "-"}[opn], b), ty)
        if k == "call" and t[1].startswith("core::num") and t[1].rsplit("::", 1)[-1] in ("wrapping_mul", "wrapping_add", "wrapping_sub"):
            ty = t[1].split("<")[1].split(">")[0]
            a, b = go(t[2][0]), go(t[2][1])
            return wrap("%s %s %s" % (a, {"wrapping_mul": "*", "wrapping_add": "+", "wrapping_sub": "-"}[t[1].rsplit("::", 1)[-1]], b), ty)
        raise Unfoldable("node %s" % k)
    src = "lambda %s: %s" % (", ".join(leaf_names[k] for k in leaf_names), go(tree))
    return eval(src), src


def resolve_promoted(prog, tree):
    """replace references to promoted constants (`&CONST` lowered to `const fn::promoted[n]`) by the tree of the
    promoted body, so that `*promoted` becomes the named constant"""
    def go(t):
        if not isinstance(t, tuple):
            return t
        if t[0] == "c" and t[3] and "#p" in t[3]:
            fk, n = t[3].rsplit("#p", 1)
            body = prog.fns.get("%s::promoted[%s]" % (fk, n))
            if body is not None:
                from .cfg import Cfg
                paths = Cfg(body).acyclic_paths()
                if len(paths) == 1:
                    return PathEval(body, paths[0]).ret()
            return t
        return t
    mapping = {}
    for x in leaves(tree):
        if isinstance(x, tuple) and x[0] == "c" and x[3] and "#p" in str(x[3]):
            mapping[x] = go(x)
    return subst(tree, mapping) if mapping else tree
