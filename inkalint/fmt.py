"""Decoding of `format_args!` templates as this nightly lowers them: Arguments::new(template, args) with a compact
byte-string template: a byte < 0x80 is the length of a literal run that follows, 0xC0.. is an argument placeholder
(possibly followed by option bytes), 0 terminates.  Anything else -> None (the using rule reports anchor lost)."""


def decode_template(bs):
    if not isinstance(bs, (list, tuple)):
        return None
    out, i = [], 0
    n = len(bs)
    while i < n:
        b = bs[i]
        if b == 0:
            return out if i == n - 1 else None
        if b < 0x80:
            lit = bytes(bs[i + 1:i + 1 + b])
            if len(lit) != b:
                return None
            try:
                out.append(lit.decode("utf-8"))
            except UnicodeDecodeError:
                return None
            i += 1 + b
        elif b == 0xC0:
            out.append(None)  # plain `{}` placeholder
            i += 1
        else:
            return None
    return None


def template_of_format_call(tree):
    """tree of `alloc::fmt::format(Arguments::new(template, args))` -> pieces or None"""
    from .expr import leaves
    for x in leaves(tree):
        if x[0] == "call" and x[1].startswith("core::fmt::Arguments::new") and x[2]:
            t = x[2][0]
            while t[0] in ("&", "*"):
                t = t[1]
            if t[0] == "c" and isinstance(t[1], tuple):
                return decode_template(list(t[1]))
    return None
