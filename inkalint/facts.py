"""Loaded program: functions, constants, ADTs across crates + a MIR pretty printer."""
import json, os


class Program:
    def __init__(self, facts, inline=True):
        self.crates = facts
        self.fns, self.consts, self.adts, self.impls, self.traits = {}, {}, {}, [], {}
        self.fn_crate = {}
        for cname, d in facts.items():
            for k, v in d["fns"].items():
                v["key"] = k
                v["crate"] = d["crate"]
                self.fns[k] = v
                self.fn_crate[k] = cname
            for k, v in d["consts"].items():
                v["key"] = k
                self.consts[k] = v
            for k, v in d["adts"].items():
                self.adts[k] = v
            for i in d["impls"]:
                i["crate"] = d["crate"]
                self.impls.append(i)
            for k, v in d["traits"].items():
                self.traits[k] = v
        self.inlined = []
        self.removed_helpers = []
        self.renamed_fields = []
        self.raw_fns = {}
        self.inline_sites = []
        self.helper_bodies = {}
        self.renamed = []
        if inline and self.fns:
            from .inline import inline_new_helpers
            self.inlined = inline_new_helpers(self)

    def fn(self, key):
        return self.fns.get(key)

    def find_fns(self, suffix):
        return [k for k in self.fns if k.endswith(suffix)]

    def const_value(self, key):
        c = self.consts.get(key)
        return None if c is None else c["value"]

    def promoted(self, fnkey, idx):
        return self.fns.get("%s::promoted[%d]" % (fnkey, idx))

    def children(self, fnkey):
        return [k for k, f in self.fns.items() if f.get("parent") == fnkey]


def load_dir(path):
    facts = {}
    for fn in sorted(os.listdir(path)):
        if fn.endswith(".json"):
            d = json.load(open(os.path.join(path, fn)))
            name = d["crate"] + (":bin" if d["kind"] == "bin" else "") + (":test" if d["test_harness"] else "")
            facts[name] = d
    return Program(facts)


# ---------------------------------------------------------------- pretty printer (debug aid)

def pp_place(p):
    if p is None:
        return "_"
    s = "_%d" % p["l"]
    for e in p["p"]:
        if e == "deref":
            s = "(*%s)" % s
        elif isinstance(e, dict) and "f" in e:
            s = "%s.%s" % (s, e["name"])
        elif isinstance(e, dict) and "idx" in e:
            s = "%s[_%d]" % (s, e["idx"])
        elif isinstance(e, dict) and "cidx" in e:
            s = "%s[%s%d]" % (s, "-" if e["from_end"] else "", e["cidx"])
        elif isinstance(e, dict) and "downcast" in e:
            s = "(%s as %s)" % (s, e["downcast"])
        else:
            s = "%s.<%s>" % (s, e)
    return s


def pp_op(o):
    if o["k"] in ("copy", "move"):
        return ("move " if o["k"] == "move" else "") + pp_place(o["pl"])
    if o["k"] == "const":
        if o.get("fn"):
            return "fn:" + o["fn"]
        extra = ""
        if o.get("path"):
            extra = "{" + o["path"].split("::", 1)[-1] + ("#p%d" % o["promoted"] if "promoted" in o else "") + "}"
        v = o.get("v")
        vs = json.dumps(v)
        if len(vs) > 60:
            vs = vs[:57] + "..."
        return "const %s%s:%s" % (vs, extra, o["ty"])
    return json.dumps(o)


def pp_rv(rv):
    op = rv["op"]
    if op == "use":
        return pp_op(rv["a"][0])
    if op == "bin":
        return "%s(%s, %s)" % (rv["bop"], pp_op(rv["a"][0]), pp_op(rv["a"][1]))
    if op == "un":
        return "%s(%s)" % (rv["uop"], pp_op(rv["a"][0]))
    if op == "cast":
        return "%s as %s [%s]" % (pp_op(rv["a"][0]), rv["cast_ty"], rv["kind"])
    if op in ("ref", "addr"):
        return "&%s%s" % ("mut " if rv["mut"] else "", pp_place(rv["place"]))
    if op == "discr":
        return "discr(%s)" % pp_place(rv["place"])
    if op == "agg":
        k = rv["kind"]
        nm = k
        if k == "adt":
            nm = rv["adt"].split("::")[-1] + "::" + rv["variant"]
        elif k == "closure":
            nm = "closure " + rv["closure"].split("::")[-1]
        return "%s(%s)" % (nm, ", ".join(pp_op(a) for a in rv["a"]))
    if op == "repeat":
        return "[%s; %s]" % (pp_op(rv["a"][0]), rv["n"])
    return json.dumps(rv)


def pp_fn(f):
    out = ["fn %s  [%s:%d] args=%d" % (f["key"], f["file"], f["line"], f["args"])]
    names = f.get("names", {})
    for i, l in enumerate(f["locals"]):
        out.append("  let _%d: %s%s" % (i, l["ty"], "  // " + names[str(i)] if str(i) in names else ""))
    for bi, b in enumerate(f["blocks"]):
        out.append(" bb%d%s:" % (bi, " (cleanup)" if b["cleanup"] else ""))
        for s in b["stmts"]:
            out.append("    %s = %s   // L%d%s" % (pp_place(s["dst"]), pp_rv(s["rv"]), s["line"], " exp" if s["exp"] else ""))
        t = b["term"]
        k = t["k"]
        if k == "goto":
            d = "goto bb%d" % t["target"]
        elif k == "switch":
            d = "switch %s [%s, else bb%d]" % (pp_op(t["discr"]), ", ".join("%d->bb%d" % (v, b2) for v, b2 in t["targets"]), t["otherwise"])
        elif k == "call":
            c = t["callee"]
            nm = c["key"] if c.get("key") else "indirect " + pp_op(c["indirect"])
            d = "%s = call %s(%s) -> %s unwind %s%s" % (pp_place(t["dest"]), nm, ", ".join(pp_op(a) for a in t["args"]),
                                                     "bb%s" % t["target"] if t["target"] is not None else "!", t["unwind"],
                                                     "" if c.get("resolved", True) else " [unresolved]")
        elif k == "assert":
            m = t["msg"]
            d = "assert %s == %s (%s) -> bb%d" % (pp_op(t["cond"]), t["expected"], m["k"] + (":" + m["op"] if "op" in m else ""), t["target"])
        elif k == "drop":
            d = "drop %s -> bb%d" % (pp_place(t["place"]), t["target"])
        else:
            d = k
        out.append("    %s   // L%d%s" % (d, t["line"], " exp" if t["exp"] else ""))
    return "\n".join(out)


if __name__ == "__main__":
    import sys
    prog = load_dir(sys.argv[1])
    for k in prog.fns:
        if k.endswith(sys.argv[2]):
            print(pp_fn(prog.fns[k]))
