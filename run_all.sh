#!/bin/bash
# runs every registered quick (or thorough) check against /repo in parallel and validates the evidence
cd "$(dirname "$0")"
TIER=${1:-quick}
ids=$(python3 -c "import json; print(' '.join(c['property_id'] for c in json.load(open('MANIFEST.json'))['checks']))")
mkdir -p .work/logs
rc=0
printf '%s\n' $ids | xargs -P 6 -I{} sh -c "./check {} --tier $TIER > .work/logs/{}.log 2>&1; echo \"{} exit \$?\""
for i in $ids; do tail -1 .work/logs/$i.log; done
./validate.py | grep -v '^ok' ; true
