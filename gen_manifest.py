#!/usr/bin/env python3
"""Writes MANIFEST.json from the table below (kept as code so that it is always valid JSON)."""
import json, os
V = os.path.dirname(os.path.abspath(__file__))
BASE_OFF = ("cd /repo && cargo nextest run --workspace --no-fail-fast --tool-config-file pb:/w/lib/nextest.toml "
            "--profile pb --test-threads 8 --offline")

CHECKS = {
 "C09": dict(
   technique="static analysis: all-paths make/unmake balance dataflow over type-checked MIR (rustc_private driver), path counting of best_move emissions, panic-site inventory of the search thread",
   text="Every CFG path of every function outside the board crate is explored in the product (block x outstanding makes x return kind); a path that returns with a move still made on a borrowed board is reported with its witness. This decides the take-back mechanism for every interruption point at once; it does not decide score equality. R3 (shared with C07.R4): the panic-site inventory of the search thread, because 'an interrupted search still answers with exactly one bestmove' fails if the thread dies between the interruption and the answer (Duration arithmetic, unwrap, indexing). R4: every go starts with cleared search flags (reset unconditional, called before the search), and nothing between an iteration's return and the test of the stop flag can set that flag, so the answer is the last completed iteration's; the per-go node counter that paces the poll is restarted by every go (C16.R4).",
   note="Trusted: rustc's MIR construction and callee resolution, the JSON fact extractor, the ~100-line exploration. Assumes make/unmake are the only in-place board mutators used by the search (C03 checks they mirror each other). Unwind paths ignored.",
   ref="4/C09"),
 "C13": dict(
   technique="static analysis: all-paths make/unmake balance with return kinds (Ok/Err/?) over MIR; roll-back idiom and error-arm write-set checks",
   text="Every path of every board-crate function that probes a move is explored with the outstanding-make count and the kind of return; an Err/? return with a move still made is reported with its witness path. make_uci's +1-on-Ok contract, make_all_uci's roll-back loop and the position-replay caller's error arm are checked structurally. R5: the selection predicate consults source, target and promotion on every accepting path. R6: find_uci / uci_to_pgn answer Ok only on paths that made the move and found it valid. Decides the no-side-effect clause for every input at once and the structural half of 'acceptance equals legality'; text-level exactness of a hand-written move-text parser is not decided.",
   note="Trusted: rustc MIR + callee resolution, the extractor, the exploration. Assumes make/unmake are exact inverses (C03) and that &self helpers do not mutate (enforced by the borrow checker).",
   ref="4/C13"),
 "C07": dict(
   technique="static analysis: path counting of best_move emissions on the MIR CFG, who-may-call over the resolved call graph, context-sensitive panic-site inventory of the search thread with constant folding / mask-shift bounds",
   text="Decides two clauses for every input and schedule at once: exactly one UciTx::best_move call on every returning path of Search::go (and nobody else calls it), and no unreviewed bounds-check / unwrap / index / explicit panic / division site reachable in the search thread (each site folds away, is bounded, or carries a reviewed guard argument, some with machine-checked preconditions). R5: the transposition table lives no longer than one go with a searchmoves restriction can see. R6 (shared with C09.R1): every search exit has taken back every move it made, so the board a later go (sent without a new position) searches is the position last set. R7: a completed, non-aborted iteration is never discarded while no earlier result exists (zero / near-zero budgets). R8: search_negamax leaves without a move before searching a child only through reviewed exits when it is the root. R9: the command thread reaches the search only through the ordered message channel (no shared mutable state in engine_core types; stop is a message the running search honours). R10: the move best_move returns comes from the accepted iteration's search result and from no fallback source. Does not decide timing behaviour beyond these structural conditions.",
   note="Trusted: rustc MIR and callee resolution, the extractor, the reviewed guard arguments in tables/panic_sites.json, the list of extern APIs that panic by contract (tables/panic_api.json); extern callees not listed are assumed total (printed in the evidence). Arithmetic-overflow asserts of the search are inventoried but not judged.",
   ref="4/C07"),
 "C12": dict(
   technique="static analysis: panic-site inventory over the resolved call graph of the FEN reader/writer with constant folding and reviewed guard arguments; reader/writer table agreement on compiler-evaluated constants",
   text="Decides 'no input string makes the FEN parser panic' up to reviewed guard arguments tied to the FEN grammar: every Assert terminator and every panicking API call reachable from Fen::from_str, Bitboard::from(&Fen) and Fen::from(&Bitboard) is auto-discharged or reviewed by exact key; the clock-field sites require a machine-checked u32 guard in Fen::from_str. Structural agreement of reader and writer tables; extra conditions a reader puts on a castling right must be the king's and that wing's rook's home squares (geometry oracle); R7: the placement reader sets piece bits only from square_mask_from_index(file counter, rank index), and the castling flags are written only by reviewed functions. R6: the e.p. field reader decodes all 16 possible targets (general helper or complete literal table). R5: validate_rank answers Ok only after the square count was compared with 8 and the adjacent-digit scan ran to the end of the rank, every rank is validated, and from_str validates before answering Ok. Does not decide exact decoding of every FEN.",
   note="Trusted: rustc MIR, extractor, reviewed guard arguments (tables/panic_sites.json), panic API list; regex crate assumed to implement the pattern as written.",
   ref="4/C12"),
 "C15": dict(
   technique="static analysis: panic-site inventory over the resolved call graph of the UCI command parser and move parser; keyword/token set agreement on evaluated constants and match arms",
   text="Decides 'no input line makes the parser panic' up to reviewed guard arguments: every overflow/bounds assert, unwrap, index, RefCell borrow reachable from CommandParser::{new,parse}, UciMove::from_str/fmt is auto-discharged or reviewed by exact key. Structural clauses of faithful parsing (dispatch set, GO_TOKENS = arms, duplicate detection). R7: numeric tokens are accepted only through str::parse. R8: no function reachable from the command or move-text parser narrows a char to 8/16 bits (non-ASCII letters cannot alias a..h). R9: setoption takes the name up to the token `value` and the value to the end of the line. Does not decide numeric value faithfulness beyond that.",
   note="Trusted: rustc MIR, extractor, reviewed guard arguments, panic API list; both profiles differ only in the arithmetic asserts, which are judged in the dev/test profile (the one in which they exist).",
   ref="4/C15"),
 "C03": dict(
   technique="static analysis: Move layout derived from getter/setter MIR, bit-level may-analysis with integer widths, make/unmake write-set and flag-mirror comparison, all-paths balance of probes",
   text="Decides, for every clock value and move at once, structural necessary conditions of make/unmake being inverse: every undo field's setter can reach all bits of the field (abstract interpretation of the written expression), make and unmake write the same board fields, each castling-right flag is cleared/restored under the same predicate for the same player, castling is undone with swapped squares, saved = restored fields, probes are balanced on all paths; the castling-right bookkeeping is compared as a full truth table (16 predicate assignments) and - R6 - the placement change of unmake is the exact symbolic inverse of make's for every move kind (normal, promotion, e.p. both colours, four castlings), computed from all paths of both functions. Together these decide 'make followed by unmake restores placement, rights, e.p. square and clocks' at the level of the expressions the code writes; R7: the side to move and the full-move number are evaluated path by path for turn in {0,1}: make flips the side and adds the mover's colour whatever else holds (a saturating or conditional update is reported with the condition it branches on), and unmake run on make's result restores both; R8 (= C02.R7): every producer of moves saves what unmake restores; R4: every undo field saved at generation is assigned back unchanged by unmake; the field layout (C02.R1, wide enough for clocks up to 4095) is checked here too. What remains undecided is that the Move fields hold what generation intended (C02).",
   note="Trusted: rustc MIR, the extractor, the path evaluator and bit-mask transfer functions (about 150 lines).",
   ref="4/C03"),
 "C10": dict(
   technique="static analysis: constant evaluation of trait constants per implementing type, exhaustive folding of every comparison that involves Bitboard.halfmove_clock over clock 0..4200 x side to move, dominance / post-dominance of history writes, region inspection of the repetition branch",
   text="Decides that no comparison involving the ply counter - directly, inside an arithmetic expression or behind a helper, evaluated for every clock value 0..4200, both sides to move and every implementing heuristic - can select the fifty-move draw below 100 plies, that every node which expands children has recorded itself in the history first, that the position replay starts from an empty history, that the repetition test precedes every transposition-table probe (only the root and a clock guard may skip it), that count_repetitions walks from start - 4 in steps of 2 down to max(0, start - clock) counting from 1 (R6, fail-closed on other idioms), that a clock guard in front of the repetition test lets every clock >= 8 through, that the history is written before it is counted and after every replayed move, that the repetition threshold is exactly three and that the repetition value is built from the draw score / contempt / ply parity only. Does not decide repetition counting over arbitrary histories.",
   note="Trusted: rustc const evaluation and MIR, the extractor. Assumes make adds exactly 1 to the clock per ply (C02.R3).",
   ref="4/C10"),
 "C14": dict(
   technique="static analysis: backward slice (data + control dependence) on MIR from the '#' constant to the in-check test; reader/writer letter-table agreement",
   text="Decides that the SAN writer's '#' suffix depends on an in-check test evaluated on the position after the move (so stalemate cannot be written as mate), that '+' depends on it too, and structural agreement of reader and writer. R4: disambiguation candidates are legal moves. R1 also: the in-check test runs on every path that writes a move. R6: the SAN pattern has a named group for every component, the reader asks only for names the pattern defines, and takes no decision on the whole-match text. R5: the writer's disambiguation decision table (extracted from all paths, predicates classified by what their closures compare) equals the SAN rule: nothing / file / rank / both.",
   note="Trusted: rustc MIR, the extractor, the slicer (over-approximating; used only for must-depend).",
   ref="4/C14"),
 "C19": dict(
   technique="static analysis: compiler-evaluated serde FIELDS/VARIANTS constants (after macro expansion) compared with the documented wire names",
   text="Decides the name-level necessary conditions of decoding: tag sets of both message enums equal the documented ones, both are tagged by 'type', no accepted wire name is snake_case or capitalised, the state record accepts the clock/increment/status/moves keys, every enumerated key set equals the documented wire keys, and - R5 - the move string is split on ' ' and every token collected in order (no dropping/truncating/reordering adaptor; a filter only for empty tokens); R6: no derived deserializer demands the presence of a field declared Option<..>. Does not decide value decoding, escapes or optional-field behaviour.",
   note="Trusted: rustc const evaluation, serde_derive's convention of emitting FIELDS/VARIANTS, the spec table quoted from the property statement.",
   ref="4/C19"),
 "C04": dict(
   level="proof",
   technique="static analysis: index expression extracted from MIR (callees inlined), compiled and folded over the compiler-evaluated table constants for every subset of every mask (constant propagation, exhaustive); call-site inventory of unchecked lookups with provenance analysis",
   text="Complete enumeration of the finite space the property names: all 102,400 rook and 5,248 bishop blocker configurations and all 4x64 leaper entries, evaluated with the index expression taken from the code itself, compared with a ray/step geometry oracle; index < table length for every configuration; mask covers the relevant blockers (so the reduction from 2^64 occupancies is lossless); every call site of the unchecked lookups has a re-derived, reviewed provenance for its square argument. No program input or runtime state is involved: this is constant folding over source constants.",
   note="Trusted base: rustc const evaluation + MIR, the constant decoder, the tree inliner/compiler (cross-checked against the generic folder), the 40-line geometry oracle. Assumes both kings exist at the king-square call site (legal positions).",
   ref="4/C04"),
 "C11": dict(
   level="proof",
   technique="static analysis: exhaustive comparison of compiler-evaluated piece-square tables, full truth-table enumeration of game_stage from MIR paths, affine-form comparison of the terminal scores and of the mate-distance formula (with make's move-number rule simulated ply by ply from its MIR paths)",
   text="Finite and complete for the static evaluation: all 3x6x64 + 2x6x64 table entries satisfy B[s][p][sq^56] = -W[s][p][sq]; white/black are paired with the two tables at the same stage and each piece with its row; game_stage's truth table (2^4 rows) is invariant under swapping the players; the material term is f(white) - f(black); the two mate scores are exact negations, affine in the move number with the sign that prefers nearer mates; the colour factor folds to +1/-1; R5: the mate distance formula of score_from_value, read as an affine form, equals +N / -N for a mate in N for both colours when the move number of the mating position is obtained by simulating make's own side/number update ply by ply. R6: no `63 - square` rotation in the heuristic modules. Search-score symmetry for non-terminal scores is not decided.",
   note="Trusted base: rustc const evaluation + MIR, the extractor, the path enumerator and affine evaluator. Assumes PlayerState accessors are colour-blind (they take one PlayerState).",
   ref="4/C11"),
 "C02": dict(
   technique="static analysis: Move layout derived from getter/setter MIR, bit-level may-analysis, reader-set comparison, exhaustive path enumeration of the move constructor with a board-geometry oracle for the castling-right squares",
   text="Decides structural necessary conditions of 'make produces the successor' for every position and move: field layout well-formed, disjoint and wide enough for each field's values (squares, pieces, clock 0..4095), setters reach their fields, every recorded effect has its reader in make/unmake/zobrist_xor, make applies clock/e.p. correctly and, evaluated path by path for both colours, flips the side and adds the mover's colour to the move number unconditionally, the clock-reset flag is set exactly for pawn moves and captures (all 10^3 paths of make_move enumerated), and each castling-right-lost flag is set exactly for the rook/king home squares of the right colour (geometry oracle, both colours), never skipped on a path that emits the move; R6: for every move kind the placement change make performs (all 256 paths) is exactly the one the rules define (geometry oracle for castling rook squares and the e.p. victim square); R7: every function that emits a move has recorded piece, squares, side and both undo fields on every path to the push, and each zero-defaulting field on every path if on any; a producer that always records PAWN always sets the clock-reset flag. Does not decide that the generator fills the move fields with the right pieces/squares for every position (that is C01's domain).",
   note="Trusted: rustc MIR, the extractor, path evaluator, geometry oracle; the reader table (Appendix A.1) is keyed by getter names.",
   ref="4/C02"),
 "C06": dict(
   technique="static analysis: compiler-evaluated Zobrist key material (distinctness, zero rows), folded castle_hash, call-graph field read sets, operand-level agreement of make / zobrist_xor / search",
   text="Decides: all 781 keys non-zero and pairwise distinct with the two no-piece rows zero (exactly the condition for 'any single component change changes the hash', given the read set); the from-scratch hashes read placement/side/rights/e.p. and never the clocks; all 12 piece-colour combinations hashed with matching constants; e.p. key by file; make and zobrist_xor agree on castling squares, e.p. victim square and which move fields they read; the search threads hash ^ delta of the move it made; R5: for every path of zobrist_xor (768) and every completion of the castling-right predicates the path did not evaluate, the full delta toggles exactly one piece-square key per placement change of make for that move kind (same player, piece, square), the side key, the old/new e.p. keys and exactly the rights keys make clears, and the pawn delta is its pawn/side/e.p. part - i.e. incremental == recomputed is decided symbolically given the from-scratch hash's structure (R2); the packed move the delta is computed from has disjoint fields wide enough for their values (C02.R1).",
   note="Trusted: rustc const evaluation + MIR, the extractor.",
   ref="4/C06"),
 "C05": dict(
   technique="static analysis: path enumeration of the loop-free check test on MIR, table classification from the evaluated constants, operand-level inspection of the colour arguments, path classification of the evaluator's terminal branch",
   text="Decides the completeness and pairing of the reverse attack lookup (every attacker kind, right table, right piece set, attacking player's sets, king square and full occupancy; the pawn table of the defended colour) path by path: every path answering 'not attacked' has consulted all five attacker kinds or skipped one only under a test that its piece set is empty, every path answering 'attacked' is backed by a positive lookup, the colour arguments of is_valid / is_current_in_check / is_in_check / _is_in_check_by_bits, that neither _is_in_check_by_bits nor the check test answers without the lookups, and that mate scores are returned exactly when the side to move is in check and has no legal move (also on paths that never looked at one of the two facts: no draw rule takes precedence), other move-less positions being draws; the search tells the evaluator 'no legal move' only on evidence (C08.R3), and any hand-written set-wise step is wrap-free (R4 = C01.R8). Does not decide exactness over positions (relies on C04 for the tables).",
   note="Trusted: rustc MIR + const evaluation, the extractor, the path evaluator, the geometry oracle for classifying tables. Assumes both kings exist.",
   ref="4/C05"),
 "C16": dict(
   technique="static analysis: who-may-call over resolved callees for stdout, decoded format_args templates and string constants at every transmitter call site, control-dependence comparison of the PV/bestmove assignments",
   text="Decides that only the binary's print function writes stdout (as the transmitter's consumer, plus one banner call), that every line kind the console transmitter can emit starts with a UCI engine-to-GUI keyword with the right message keyword per trait method, that info keys are UCI keys, unique, `string` last, scores cp/mate with lowerbound/upperbound, 0000 only for None, that bestmove, reported PV and stored PV are assigned under the same condition, that every info line reads `nodes` from one counter restarted by every go and only the iteration report carries a depth, and - R5 - that the origin of the reported `time` is written only where a search starts (go / best_move before the iteration loop), never by anything reachable while the search runs; R6: the ponder move is read from the stored PV only when this search produced an answer. These are necessary conditions of monotone nodes/time; monotone depth and PV legality are not decided.",
   note="Trusted: rustc MIR, the extractor's constant decoding, the template decoder for this nightly's format_args lowering (undecodable templates fail closed as anchor lost).",
   ref="4/C16"),
 "C18": dict(
   technique="static analysis: field-access confinement over all function bodies, control-dependence / dominance / operand inspection of put, straight-line evaluation of clear/get/len/load_factor and of the delegating wrapper",
   text="Decides the structural invariants that keep the insertion-order list and the map in step: fields confined to HashTable's methods; put inserts (key, value), queues the key iff it was new, checks len > capacity after every insert and evicts exactly the popped list head; clear empties both; get/len/load_factor read the map; the TranspositionTable wrapper delegates 1:1. Does not decide map semantics over operation histories.",
   note="Trusted: rustc MIR, the extractor; std HashMap/VecDeque behave as documented.",
   ref="4/C18"),
 "C01": dict(
   technique="static analysis: exhaustive path enumeration of castle_moves and make_move on MIR with a board-geometry oracle; sibling-call comparison of the two generators; arm-wise mirror comparison of colour branches",
   text="Decides structural necessary conditions of exact move generation: castling is emitted under exactly the four conditions of the rules with the geometrically right squares and masks for both colours and wings; the capture/promotion generator is the full generator minus castling with the filter on and every piece kind paired with its table; promotions to exactly Q,R,B,N; a move is dropped iff quiet and filtered; black arms mirror white arms in shift direction, masks, tables and players; R6: generate_legal_moves puts every pseudo-legal move through is_move_legal (every filter/retain closure on every accepting path, every push of a hand-written loop), is_move_legal is make / is_valid / unmake, is_any_move_legal answers true only under a successful probe; the castling-right bookkeeping castle_moves relies on is checked with C02.R4/R5. R6 is a sufficient condition: a pin-aware generator that skips the probe soundly would have to be re-reviewed. R7: a rank mask that is not its own vertical mirror image is used in the generators only inside a branch on the side to move whose other arm uses the mirrored rank, or together with its mirror image. R8: a set-wise step of an occupancy by one file (shift by 1, 7, 9) is pre-masked so that no bit wraps around the a/h edge. Does not decide that the generated set equals the FIDE set for every position (pins, e.p. legality are the legality filter's job: C03/C05).",
   note="Trusted: rustc MIR + const evaluation, the extractor, path evaluator, geometry oracle. The mirror rule judges only pairs it recognises (shifts by 8, u64 masks, +-8, players, per-square tables); other pairs are counted as not judged in the evidence.",
   ref="4/C01"),
 "C08": dict(
   technique="static analysis: operand-shape inspection of the recursive calls, sign-parity dataflow of the child value, control-dependence classification of transposition bound types, and a reviewed inventory (exact keys) of every exit / loop skip / loop break of the two recursive searches, all on MIR",
   text="Decides the negamax sign discipline of both recursive searches (window = negated own beta, negated own alpha; sign-parity dataflow: every use of the child's value sees it negated exactly once), the transposition-table bound classification on store and probe, that the evaluator's legal-moves flag is backed by evidence, and - R4 - that every way the two searches stop searching (every exit, every move skipped without the recursive call, every way out of the move loop) is one of 18 reviewed ones (tables/search_exits.json, keyed by the atoms of its immediate guard): a new cut-off (delta/futility/late-move pruning, an early fail-low) is reported until someone argues it sound; R5: each search iterates the list its own generator call produced for the node (generator call dominates the move loop, the list is not shrunk before it). These are necessary conditions of exact minimax values; values, pruning soundness in general and mate distances are not decided.",
   note="Trusted: rustc MIR, the extractor. Thin claim by design (DESIGN.md section 4/C08).",
   ref="4/C08"),
}
NOT_APPLICABLE = {
 "C17": "PGN tokenisation under arbitrary read fragmentation is decided by runtime bytes; the only structural clause in reach (buffer read only behind ensure_buffer) is too weak to stand for the property (DESIGN.md section 1).",
}
PENDING = ["C01","C02","C03","C04","C05","C06","C07","C08","C10","C11","C12","C13","C14","C15","C16","C18","C19"]

def main():
    checks = []
    for pid, c in sorted(CHECKS.items()):
        checks.append({
            "property_id": pid,
            "quick_cmd": "./check %s --tier quick" % pid,
            "thorough_cmd": "./check %s --tier thorough" % pid,
            "evidence_file": "/verif/evidence/%s.json" % pid,
            "replay_cmd_template": "./check %s --replay {path}" % pid,
            "engine": "inkalint",
            "level_claimed": {"category": c.get("level", "other"), "text": c["text"], "design_ref": "DESIGN.md section " + c["ref"]},
            "level_note": c["note"],
            "technique": c["technique"],
        })
    na = [{"property_id": p, "reason": r} for p, r in sorted(NOT_APPLICABLE.items())]
    for p in PENDING:
        if p not in CHECKS:
            na.append({"property_id": p, "reason": "check not built yet in this round (planned in DESIGN.md section 4); not claimed until its rules exist"})
    m = {
        "version": 1,
        "setup_cmd": "cd /verif/driver && CARGO_NET_OFFLINE=true cargo build --release --offline",
        "hooks": {"guard": "inkayaku_verif", "enable": "none needed: the rustc_private driver reads private items directly; no source hook exists",
                  "baseline_off_cmd": BASE_OFF, "source_commits": [], "add_only": True},
        "engines": [{"name": "inkalint", "path": "/verif/check", "serves_properties": sorted(CHECKS),
                     "kind_free_text": "custom static analyser: rustc_private MIR/const fact extractor (driver/) + Python rule engine (inkalint/): CFG, dominators, control dependence, expression trees, path enumeration, constant folding, call graph, panic-site inventory, make/unmake balance"}],
        "checks": checks,
        "not_applicable": sorted(na, key=lambda x: x["property_id"]),
        "notes": "All checks are static: they re-extract facts from /repo's current working tree on every run (fresh cargo target dir under /verif/.work, removed on exit) and never execute the engine or its tests. known_findings.json lists recorded/fixed defects.",
    }
    json.dump(m, open(os.path.join(V, "MANIFEST.json"), "w"), indent=1)
    print("MANIFEST.json: %d checks, %d not_applicable" % (len(checks), len(na)))

if __name__ == "__main__":
    main()
