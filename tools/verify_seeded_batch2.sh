#!/bin/bash
# my own confirmation of the second batch of seeded changes (scratch worktree, shared target dir)
export CARGO_TARGET_DIR=/tmp/vs-target
S=/verif/seeded
run() { # id, setup-demo cmd, demo cmd
  ID=$1; WT=/tmp/vs-$ID
  git -C /repo worktree add -q $WT HEAD || return
  cd $WT
  eval "$2"
  echo "== $ID: demo on the unmodified tree"; eval "$3" 2>&1 | grep -E "Summary|DEMO|error(\[|:)" | head -4
  git apply $S/$ID/patch.diff || echo "PATCH DOES NOT APPLY"
  echo "== $ID: demo with the change"; eval "$3" 2>&1 | grep -E "Summary|DEMO|error(\[|:)" | head -4
  eval "$4"
  echo "== $ID: existing suite with the change"
  cargo nextest run --workspace --no-fail-fast --offline -E 'not (test(run_all) | test(test_threefold_) | test(seeded_demo))' 2>&1 | grep -E "Summary|FAIL" | head -5
  cd /; git -C /repo worktree remove --force $WT
}
run s-C12-chunks-exact "cp $S/s-C12-chunks-exact/seeded_demo.rs board/tests/seeded_demo.rs" "cargo nextest run -p inkayaku_board --offline --test seeded_demo --no-fail-fast" "rm board/tests/seeded_demo.rs"
run s-C13-promotion-letter-optional "cp $S/s-C13-promotion-letter-optional/seeded_demo.rs board/tests/seeded_demo.rs" "cargo nextest run -p inkayaku_board --offline --test seeded_demo --no-fail-fast" "rm board/tests/seeded_demo.rs"
run s-C10-clock8-guard "mkdir -p engine_core/tests; cp $S/s-C10-clock8-guard/c10_repetition_clock8.rs engine_core/tests/" "cargo nextest run -p inkayaku_engine_core --offline --no-fail-fast --test c10_repetition_clock8" "rm engine_core/tests/c10_repetition_clock8.rs"
run s-C11-rotate-not-mirror "cp $S/s-C11-rotate-not-mirror/seeded_demo.rs engine_core/src/engine/heuristic/seeded_demo.rs; sed -i 's/^pub mod improved;/pub mod improved;\n#[cfg(test)]\nmod seeded_demo;/' engine_core/src/engine/heuristic.rs" "cargo nextest run -p inkayaku_engine_core --offline --no-fail-fast -E 'test(seeded_demo)'" "true"
run s-C07-stale-tt-searchmoves "true" "cargo build -q --offline -p inkayaku_engine_app 2>/dev/null; bash $S/s-C07-stale-tt-searchmoves/demo_c07.sh /tmp/vs-target/debug/inkayaku_engine_app" "true"
run s-C09-quiescence-question-mark "mkdir -p engine_core/tests; cp $S/s-C09-quiescence-question-mark/c09_interrupted_search.rs engine_core/tests/" "cargo nextest run -p inkayaku_engine_core --offline --no-fail-fast --test c09_interrupted_search" "rm engine_core/tests/c09_interrupted_search.rs"
rm -rf /tmp/vs-target
