#!/usr/bin/env python3
"""development aid: list the panic sites of the three inventories that are neither auto-discharged nor reviewed"""
import sys, json, os
sys.path.insert(0, os.path.dirname(os.path.dirname(os.path.abspath(__file__))))
from inkalint.facts import load_dir
from inkalint.callgraph import CallGraph
from inkalint.panics import inventory
from inkalint.rules import c07, c12, c15
p = load_dir(sys.argv[1] if len(sys.argv) > 1 else '/verif/.work/dev')
cg = CallGraph(p)
reviewed = json.load(open('/verif/tables/panic_sites.json')) if os.path.exists('/verif/tables/panic_sites.json') else {}
for name, entries, ctx, kinds in [('C15', c15.entries(p), False, None), ('C12', c12.entries(p), False, None), ('C07', c07.entries(p), True, ('contract',))]:
    seen, par, sites, ext, ind = inventory(p, cg, entries, ctx=ctx)
    print('=====', name, 'fns', len(seen), 'sites', len(sites))
    for s in sites:
        if s.auto or (kinds and s.cls not in kinds) or s.key in reviewed:
            continue
        print('  %s\n        %s:%d  %s  [%s]' % (s.key, p.fns[s.fn]['file'], s.line, s.info, s.cls))
