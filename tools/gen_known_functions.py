#!/usr/bin/env python3
"""writes tables/known_functions.json: the function keys of the reviewed tree (a workspace-scope extraction of
$VERIF_REPO or /repo). Run after every reviewed change of /repo that adds functions."""
import json, os, sys
VERIF = os.path.dirname(os.path.dirname(os.path.abspath(__file__)))
sys.path.insert(0, VERIF)
from inkalint import extract as X
from inkalint.facts import Program
work = X.Workdir()
try:
    facts, meta = X.extract(X.workspace_members(), work, bodies="*")
    prog = Program(facts, inline=False)
    keys = sorted(k for k in prog.fns if k.startswith("inkayaku_"))
    sigs = {}
    for k in keys:
        f = prog.fns[k]
        if "::promoted[" in k or "{closure" in k or f.get("test"):
            continue
        n = f["args"] if isinstance(f["args"], int) else len(f["args"])
        sigs[k] = [l["ty"] for l in f["locals"][:n + 1]]
finally:
    work.cleanup() if hasattr(work, "cleanup") else None
out = os.path.join(VERIF, "tables", "known_functions.json")
fields = sorted({(fl.get("name") if isinstance(fl, dict) else str(fl)) for a in prog.adts.values() for v in a.get("variants", []) for fl in v.get("fields", [])} - {None})
adts = {k: [[v.get("name"), [[fl.get("name"), fl.get("ty")] for fl in v.get("fields", [])]] for v in a.get("variants", [])] for k, a in prog.adts.items() if k.startswith("inkayaku_")}
json.dump({"adts": adts, "fields": fields, "_comment": "function keys of the reviewed tree; helpers not listed here are inlined into their callers before the rules run (inkalint/inline.py)", "functions": keys, "signatures": sigs}, open(out, "w"), indent=0)
print(len(keys), "functions")
