#!/bin/bash
# usage: collect_bp.sh <batch letter> <worktree prefix> Cxx ...   copies BENIGN/1..3 of an agent worktree into benign_patches/<batch>-Cxx-N and removes the worktree
B=$1; W=$2; shift 2
for p in "$@"; do
  for n in 1 2 3; do
    mkdir -p /verif/benign_patches/$B-$p-$n
    cp $W-$p/BENIGN/$n/patch.diff $W-$p/BENIGN/$n/notes.md /verif/benign_patches/$B-$p-$n/
  done
  git -C /repo worktree remove --force $W-$p; rm -rf $W-$p
done
