#!/usr/bin/env python3
"""False-alarm test on patch files: applies each patch (benign_patches/<id>/patch.diff, authored by independent
agents as behaviour-preserving) to a scratch copy of /repo, extracts the facts once and runs every registered
check against it. Usage: benign_patch.py [ids...]"""
import json, os, shutil, subprocess, sys, tempfile
from concurrent.futures import ThreadPoolExecutor
VERIF = os.path.dirname(os.path.dirname(os.path.abspath(__file__)))
ROOT = os.path.join(VERIF, "benign_patches")


def run_one(bid, pids):
    d = tempfile.mkdtemp(prefix="inkalint-bp.%s." % bid, dir="/tmp")
    try:
        subprocess.check_call(["rsync", "-a", "--exclude", "target", "--exclude", ".git", "/repo/", d + "/repo/"])
        r = subprocess.run(["patch", "-p1", "-s", "-d", d + "/repo", "-i", os.path.join(ROOT, bid, "patch.diff")], stdout=subprocess.PIPE, stderr=subprocess.STDOUT, text=True)
        if r.returncode != 0:
            return bid, ["BROKEN: patch does not apply: %s" % r.stdout[:200]]
        touched_lichess = "lichess" in open(os.path.join(ROOT, bid, "patch.diff")).read()
        env = dict(os.environ, VERIF_REPO=d + "/repo", VERIF_EVIDENCE_DIR=d + "/ev")
        out, facts, first = [], d + "/facts", True
        for pid in pids:
            if pid == "C19":
                if not touched_lichess:
                    continue
                extra = []
            else:
                extra = ["--dump-facts", facts] if first else ["--facts", facts]
                first = False
            r = subprocess.run([os.path.join(VERIF, "check"), pid, "--tier", "quick"] + extra, env=env, stdout=subprocess.PIPE, stderr=subprocess.STDOUT, text=True, cwd=VERIF)
            if r.returncode != 0:
                keys = [l.strip()[:300] for l in r.stdout.splitlines() if l.startswith("  " + pid) or l.startswith("  C") or "facts unavailable" in l or "Traceback" in l]
                out.append("%s: %s" % (pid, keys[:4]))
        return bid, out
    finally:
        shutil.rmtree(d, ignore_errors=True)


def main():
    ids = sorted(x for x in os.listdir(ROOT) if os.path.exists(os.path.join(ROOT, x, "patch.diff")))
    if len(sys.argv) > 1:
        ids = [i for i in ids if i in sys.argv[1:]]
    pids = [c["property_id"] for c in json.load(open(os.path.join(VERIF, "MANIFEST.json")))["checks"]]
    bad = 0
    with ThreadPoolExecutor(max_workers=5) as ex:
        for bid, out in ex.map(lambda b: run_one(b, pids), ids):
            print("%-8s %-14s %s" % ("SILENT" if not out else "ALARM", bid, " ;; ".join(out)[:1500]))
            sys.stdout.flush()
            bad += 1 if out else 0
    print("%d benign patches, %d raised an alarm" % (len(ids), bad))
    return 1 if bad else 0


if __name__ == "__main__":
    sys.exit(main())
