#!/bin/bash
# usage: tools/try_seeded.sh <patch> <Cxx> [<Cyy> ...]   -- applies the patch to /repo, runs the checks (private evidence dir), undoes it
set -u
P=$1; shift
git -C /repo status --short | grep -q . && { echo "/repo not clean"; exit 2; }
git -C /repo apply "$P" || { echo "patch does not apply"; exit 2; }
for c in "$@"; do
  VERIF_EVIDENCE_DIR=/verif/.work/seeded-ev /verif/check $c --tier quick 2>&1 | grep -E "^  C[0-9]+\.|^C[0-9]+ quick" | cut -c1-400
done
git -C /repo checkout -- .
git -C /repo status --short
