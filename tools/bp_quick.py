#!/usr/bin/env python3
"""development aid: runs every non-C19 check on the pre-extracted facts in .work/bpf/<id>; prints violation keys"""
import json, os, subprocess, sys
from concurrent.futures import ThreadPoolExecutor
VERIF = os.path.dirname(os.path.dirname(os.path.abspath(__file__)))
pids = [c["property_id"] for c in json.load(open(os.path.join(VERIF, "MANIFEST.json")))["checks"] if c["property_id"] != "C19"]
ids = sys.argv[1:] or sorted(os.listdir(os.path.join(VERIF, ".work", "bpf")))
def one(a):
    bid, pid = a
    ev = os.path.join(VERIF, ".work", "bpq-ev", bid)
    os.makedirs(ev, exist_ok=True)
    r = subprocess.run([os.path.join(VERIF, "check"), pid, "--facts", os.path.join(VERIF, ".work", "bpf", bid)], env=dict(os.environ, VERIF_EVIDENCE_DIR=ev), cwd=VERIF, stdout=subprocess.PIPE, stderr=subprocess.STDOUT, text=True)
    keys = [l.strip()[:int(os.environ.get("W", "260"))] for l in r.stdout.splitlines() if l.startswith("  C") or "Traceback" in l or (r.returncode not in (0, 1) and l.strip())]
    und = [l.strip()[:160] for l in r.stdout.splitlines() if l.startswith("UNDECIDED")]
    return bid, pid, r.returncode, keys, und
with ThreadPoolExecutor(max_workers=14) as ex:
    res = list(ex.map(one, [(b, p) for b in ids for p in pids]))
for bid in ids:
    rows = [r for r in res if r[0] == bid]
    bad = [r for r in rows if r[2] != 0]
    print("%s %s" % ("ALARM " if bad else "SILENT", bid), " undecided=%d" % sum(len(r[4]) for r in rows))
    for r in bad:
        for k in r[3][:6]:
            print("     ", r[1], k)
    if os.environ.get("U"):
        for r in rows:
            for u in r[4]:
                print("      ", u)
print(sum(1 for b in ids if any(r[2] != 0 for r in res if r[0] == b)), "of", len(ids), "alarm")
