#!/usr/bin/env python3
"""Detection regression: applies every seeded change (seeded/<id>/patch.diff) to a scratch copy of /repo and runs the
check(s) named in its meta.json; prints CAUGHT / MISSED per seed.  Usage: seeded_regress.py [-j N] [ids...]"""
import json, os, shutil, subprocess, sys, tempfile
from concurrent.futures import ThreadPoolExecutor
VERIF = os.path.dirname(os.path.dirname(os.path.abspath(__file__)))
ROOT = os.path.join(VERIF, "seeded")


def run_one(sid):
    meta = json.load(open(os.path.join(ROOT, sid, "meta.json")))
    pids = [meta["property"]]
    d = tempfile.mkdtemp(prefix="inkalint-sr.%s." % sid, dir="/tmp")
    try:
        subprocess.check_call(["rsync", "-a", "--exclude", "target", "--exclude", ".git", "/repo/", d + "/repo/"])
        r = subprocess.run(["patch", "-p1", "-s", "-d", d + "/repo", "-i", os.path.join(ROOT, sid, "patch.diff")], stdout=subprocess.PIPE, stderr=subprocess.STDOUT, text=True)
        if r.returncode != 0:
            return sid, "BROKEN", r.stdout[:120]
        env = dict(os.environ, VERIF_REPO=d + "/repo", VERIF_EVIDENCE_DIR=d + "/ev")
        keys = []
        for pid in pids:
            r = subprocess.run([os.path.join(VERIF, "check"), pid, "--tier", "quick"], env=env, stdout=subprocess.PIPE, stderr=subprocess.STDOUT, text=True, cwd=VERIF)
            if r.returncode != 0:
                keys += [l.strip().split(":")[0][:90] for l in r.stdout.splitlines() if l.startswith("  C")]
        return sid, ("CAUGHT" if keys else "MISSED"), "; ".join(keys[:2])
    finally:
        shutil.rmtree(d, ignore_errors=True)


def main():
    args = sys.argv[1:]
    j = 6
    if "-j" in args:
        j = int(args[args.index("-j") + 1]); del args[args.index("-j"):args.index("-j") + 2]
    ids = sorted(x for x in os.listdir(ROOT) if os.path.exists(os.path.join(ROOT, x, "patch.diff")) and os.path.exists(os.path.join(ROOT, x, "meta.json")))
    if args:
        ids = [i for i in ids if i in args or any(i.startswith(a) for a in args)]
    missed = 0
    with ThreadPoolExecutor(max_workers=j) as ex:
        for sid, verdict, info in ex.map(run_one, ids):
            print("%-7s %-34s %s" % (verdict, sid, info))
            sys.stdout.flush()
            missed += verdict != "CAUGHT"
    print("%d seeded changes, %d not caught" % (len(ids), missed))


if __name__ == "__main__":
    main()
