#!/bin/bash
# own confirmation of round-2 seeded changes in a scratch worktree: args are triples  id:crate:dest
# (dest = path of the demonstration inside the worktree; the file copied is the seeded_demo*.rs of the seed);
# optional 4th..6th fields  :modfile:anchor-line:modname  add `#[cfg(test)] mod modname;` after the anchor line of modfile
export CARGO_TARGET_DIR=/tmp/vs2-target-$$
S=/verif/seeded
run_demo() {
  out=$(cargo nextest run -p $CRATE --offline --no-fail-fast -E "test($T)" 2>&1)
  if echo "$out" | grep -q "no tests to run"; then out=$(cargo nextest run -p $CRATE --offline --no-fail-fast -E "binary($T)" 2>&1); fi
  echo "$out" | grep -E "Summary|error(\[|:)" | head -3
}
for spec in "$@"; do
  IFS=: read -r ID CRATE DEST MODFILE ANCHOR MODNAME <<< "$spec"
  WT=/tmp/vs2-$ID
  git -C /repo worktree add -q $WT HEAD || continue
  cd $WT
  demo=$S/$ID/$(basename $DEST); [ -f "$demo" ] || demo=$(ls $S/$ID/*.rs | head -1)
  mkdir -p $(dirname $DEST); cp $demo $DEST
  T=$(basename $DEST .rs)
  if [ -n "$MODFILE" ]; then
    python3 - "$MODFILE" "$ANCHOR" "$MODNAME" <<'PY'
import sys
f, anchor, name = sys.argv[1:4]
s = open(f).read()
assert s.count(anchor + "\n") >= 1, "anchor not found"
s = s.replace(anchor + "\n", anchor + "\n#[cfg(test)]\nmod " + name + ";\n", 1)
open(f, "w").write(s)
PY
  fi
  echo "== $ID: demo on the unmodified tree"; run_demo
  git apply $S/$ID/patch.diff || echo "PATCH DOES NOT APPLY"
  echo "== $ID: demo with the change"; run_demo
  rm $DEST
  if [ -n "$MODFILE" ]; then python3 - "$MODFILE" "$MODNAME" <<'PY'
import sys
f, name = sys.argv[1:3]
s = open(f).read().replace("#[cfg(test)]\nmod " + name + ";\n", "")
open(f, "w").write(s)
PY
  fi
  echo "== $ID: existing suite with the change"
  cargo nextest run --workspace --no-fail-fast --offline -E 'not (test(run_all) | test(test_threefold_) | test(seeded_demo))' 2>&1 | grep -E "Summary|FAIL" | head -5
  cd /; git -C /repo worktree remove --force $WT
done
rm -rf /tmp/vs2-target-$$
