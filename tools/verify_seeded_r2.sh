#!/bin/bash
# own confirmation of round-2 seeded changes in a scratch worktree: args are triples  id:crate:dest
# (dest = path of the demonstration inside the worktree; the file copied is the seeded_demo*.rs of the seed)
export CARGO_TARGET_DIR=/tmp/vs2-target
S=/verif/seeded
for spec in "$@"; do
  ID=${spec%%:*}; rest=${spec#*:}; CRATE=${rest%%:*}; DEST=${rest#*:}
  WT=/tmp/vs2-$ID
  git -C /repo worktree add -q $WT HEAD || continue
  cd $WT
  demo=$(ls $S/$ID/*.rs | head -1)
  mkdir -p $(dirname $DEST); cp $demo $DEST
  T=$(basename $DEST .rs)
  echo "== $ID: demo on the unmodified tree"; cargo nextest run -p $CRATE --offline --no-fail-fast -E "test($T)" 2>&1 | grep -E "Summary|error(\[|:)" | head -3
  git apply $S/$ID/patch.diff || echo "PATCH DOES NOT APPLY"
  echo "== $ID: demo with the change"; cargo nextest run -p $CRATE --offline --no-fail-fast -E "test($T)" 2>&1 | grep -E "Summary|error(\[|:)" | head -3
  rm $DEST
  echo "== $ID: existing suite with the change"
  cargo nextest run --workspace --no-fail-fast --offline -E 'not (test(run_all) | test(test_threefold_) | test(seeded_demo))' 2>&1 | grep -E "Summary|FAIL" | head -5
  cd /; git -C /repo worktree remove --force $WT
done
rm -rf /tmp/vs2-target
