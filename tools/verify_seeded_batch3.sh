#!/bin/bash
export CARGO_TARGET_DIR=/tmp/vs-target
S=/verif/seeded
run() {
  ID=$1; WT=/tmp/vs-$ID
  git -C /repo worktree add -q $WT HEAD || return
  cd $WT
  eval "$2"
  echo "== $ID: demo on the unmodified tree"; eval "$3" 2>&1 | grep -E "Summary|DEMO|test result|error(\[|:)" | head -4
  git apply $S/$ID/patch.diff || echo "PATCH DOES NOT APPLY"
  echo "== $ID: demo with the change"; eval "$3" 2>&1 | grep -E "Summary|DEMO|test result|error(\[|:)" | head -4
  eval "$4"
  echo "== $ID: existing suite with the change"
  cargo nextest run --workspace --no-fail-fast --offline -E 'not (test(run_all) | test(test_threefold_) | test(seeded_demo))' 2>&1 | grep -E "Summary|FAIL" | head -5
  cd /; git -C /repo worktree remove --force $WT
}
run s-C04-rook-g8-swapped-entries "cp $S/s-C04-rook-g8-swapped-entries/seeded_demo.rs board/tests/seeded_demo.rs" "cargo nextest run -p inkayaku_board --offline --test seeded_demo --no-fail-fast" "rm board/tests/seeded_demo.rs"
run s-C14-pinned-disambiguation "cp $S/s-C14-pinned-disambiguation/seeded_demo.rs board/tests/seeded_demo.rs" "cargo nextest run -p inkayaku_board --offline --test seeded_demo --no-fail-fast" "rm board/tests/seeded_demo.rs"
run s-C15-negative-duration "mkdir -p uci/tests; cp $S/s-C15-negative-duration/seeded_demo.rs uci/tests/seeded_demo.rs" "cargo nextest run -p inkayaku_uci --offline --test seeded_demo --no-fail-fast" "rm uci/tests/seeded_demo.rs"
run s-C18-evict-before-insert "cp $S/s-C18-evict-before-insert/seeded_demo.rs engine_core/src/engine/table/seeded_demo.rs; sed -i '0,/^pub mod transposition;/s//pub mod transposition;\n#[cfg(test)]\nmod seeded_demo;/' engine_core/src/engine/table.rs" "cargo nextest run -p inkayaku_engine_core --offline --no-fail-fast -E 'test(seeded_demo)'" "true"
run s-C08-stalemate-horizon "mkdir -p engine_core/tests; cp $S/s-C08-stalemate-horizon/c08_stalemate_horizon.rs engine_core/tests/" "cargo test -q -p inkayaku_engine_core --test c08_stalemate_horizon --offline -- --ignored" "rm engine_core/tests/c08_stalemate_horizon.rs"
run s-C19-outoftime-rename "mkdir -p lichess_api/tests; cp $S/s-C19-outoftime-rename/seeded_demo.rs lichess_api/tests/seeded_demo.rs" "cargo nextest run -p inkayaku_lichess_api --offline --test seeded_demo --no-fail-fast" "rm lichess_api/tests/seeded_demo.rs"
run s-C16-heartbeat-total-nodes "mkdir -p engine_core/tests; cp $S/s-C16-heartbeat-total-nodes/c16_output_stream.rs engine_core/tests/" "cargo build -q --offline -p inkayaku_engine_app 2>/dev/null; cargo test -q -p inkayaku_engine_core --test c16_output_stream --offline -- --ignored" "rm engine_core/tests/c16_output_stream.rs"
rm -rf /tmp/vs-target
