#!/usr/bin/env python3
"""Checker self-test: replays the mutants of mutants/INDEX.json against scratch copies of /repo.

For every mutant: copy /repo (without build output) to /tmp/inkalint-mut.<id>, apply the textual replacement,
run the property's check against the copy (VERIF_REPO, private evidence dir) and require a VIOLATION whose key
contains the expected substring.  The scratch copy is removed as soon as the verdict is in.

usage: tools/selftest.py [--property Cxx] [--id mutant-id] [-j N] [--write-patches]"""
import argparse, json, os, shutil, subprocess, sys, tempfile, difflib
from concurrent.futures import ThreadPoolExecutor

VERIF = os.path.dirname(os.path.dirname(os.path.abspath(__file__)))
REPO = "/repo"


def load():
    return json.load(open(os.path.join(VERIF, "mutants", "INDEX.json")))["mutants"]


def apply(root, m):
    if m.get("patch"):
        # a stored patch file (the seeded changes that prompted a rule are its positive example on every thorough run)
        r = subprocess.run(["patch", "-p1", "-s", "-d", root, "-i", os.path.join(VERIF, m["patch"])], stdout=subprocess.PIPE, stderr=subprocess.STDOUT, text=True)
        return None if r.returncode == 0 else "patch does not apply: %s" % r.stdout[:200]
    for e in m["edits"]:
        p = os.path.join(root, e["file"])
        s = open(p).read()
        if s.count(e["old"]) != 1:
            return "edit does not apply (%d occurrences of the old text in %s)" % (s.count(e["old"]), e["file"])
        open(p, "w").write(s.replace(e["old"], e["new"]))
    return None


def run_one(m):
    d = tempfile.mkdtemp(prefix="inkalint-mut.%s." % m["id"], dir="/tmp")
    try:
        subprocess.check_call(["rsync", "-a", "--exclude", "target", "--exclude", ".git", REPO + "/", d + "/repo/"])
        err = apply(d + "/repo", m)
        if err:
            return m, "BROKEN", err
        env = dict(os.environ, VERIF_REPO=d + "/repo", VERIF_EVIDENCE_DIR=d + "/ev")
        r = subprocess.run([os.path.join(VERIF, "check"), m["property"], "--tier", "quick"], env=env, stdout=subprocess.PIPE, stderr=subprocess.STDOUT, text=True, cwd=VERIF)
        out = r.stdout
        if "facts unavailable" in out:
            return m, "BROKEN", "mutant does not compile: " + out[-400:]
        keys = [l.strip().split(": ", 1)[0] for l in out.splitlines() if l.startswith("  C") and l[3:5].isdigit() and ("." in l[:9])]      # rule keys (a shared rule keeps its own id: C01.R6 inside C05)
        hit = [k for k in keys if m["expect"] in k]
        if r.returncode == 1 and hit:
            extra = [k for k in keys if m["expect"] not in k]
            return m, "CAUGHT", "%s%s" % (hit[0], (" (+%d other keys)" % len(extra)) if extra else "")
        if r.returncode == 1:
            return m, "WRONG-KEY", "reported %s, expected a key containing %r" % (keys[:3], m["expect"])
        return m, "MISSED", out.splitlines()[-1] if out else ""
    finally:
        shutil.rmtree(d, ignore_errors=True)


def write_patches(ms):
    for m in ms:
        out = []
        for e in m["edits"]:
            a = open(os.path.join(REPO, e["file"])).read()
            if a.count(e["old"]) != 1:
                continue
            b = a.replace(e["old"], e["new"])
            out += list(difflib.unified_diff(a.splitlines(True), b.splitlines(True), "a/" + e["file"], "b/" + e["file"], n=2))
        open(os.path.join(VERIF, "mutants", m["id"] + ".patch"), "w").write("".join(out))


def main():
    ap = argparse.ArgumentParser()
    ap.add_argument("--property")
    ap.add_argument("--id")
    ap.add_argument("-j", type=int, default=6)
    ap.add_argument("--write-patches", action="store_true")
    a = ap.parse_args()
    ms = [m for m in load() if (not a.property or m["property"] == a.property) and (not a.id or m["id"] == a.id)]
    if a.write_patches:
        write_patches(ms)
    bad = 0
    with ThreadPoolExecutor(max_workers=a.j) as ex:
        for m, verdict, detail in ex.map(run_one, ms):
            print("%-9s %-4s %-34s %s" % (verdict, m["property"], m["id"], detail[:200]))
            if verdict != "CAUGHT":
                bad += 1
    print("%d mutants, %d not caught" % (len(ms), bad))
    return 1 if bad else 0


if __name__ == "__main__":
    sys.exit(main())
