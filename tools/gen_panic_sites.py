#!/usr/bin/env python3
"""Writes tables/panic_sites.json: the reviewed reachable panic sites, one guard argument each.
Keys are exact site keys (function | kind | operator-or-callee | ordinal in CFG order) - no line numbers."""
import json, os
T = {}
def add(fn, kind, detail, n, why, requires=None):
    for i in (n if isinstance(n, (list, tuple, range)) else [n]):
        T["%s|%s|%s|#%d" % (fn, kind, detail, i)] = {"why": why, **({"requires": requires} if requires else {})}

C = "inkayaku_core::"
B = "inkayaku_board::board::"
E = "inkayaku_engine_core::engine::"
U = "inkayaku_uci::uci::"
UNWRAP_O = "core::option::Option::unwrap"
UNWRAP_R = "core::result::Result::unwrap"
SIDX = "alloc::string::<String as Index<I>>::index"
VIDX = "alloc::vec::<Vec<T,A> as Index<I>>::index"
PANIC = "core::panicking::panic"

# ---- core: squares / fen grammar
add(C+"constants::to_square_index_from_indices", "assert", "overflow:Mul", 0,
    "usize arithmetic on file/rank indices: every caller passes values below 9 (Square::from_indices guards < 8; File/Rank indices are 0..7; the FEN reader's file/rank counters are bounded by 8 by validate_rank and the 8 ranks of the grammar); overflow would need an operand >= 2^61")
add(C+"constants::to_square_index_from_indices", "assert", "overflow:Add", 0, "same operands as the multiplication: both below 72")
add(C+"fen::<Fen as FromStr>::from_str", "call", UNWRAP_O, range(0, 5),
    "capture groups 1-4 are not optional in FEN_REGEX and the regex matched (Fen::parse returned Ok), so Captures::get(1..=4) is Some")
add(C+"fen::<Fen as FromStr>::from_str::{closure#1}", "call", SIDX, 0,
    "the range is Match::range() of group 1 on an identical copy of the same string, so it is in bounds and on char boundaries")
add(C+"fen::<Fen as FromStr>::from_str", "call", SIDX, 0,
    "the range is Match::range() of capture group 5 or 6 on an identical copy of the same string")
add(C+"fen::Fen::validate_rank", "call", "core::iter::traits::iterator::Iterator::sum", 0,
    "sums at most 8 values of at most 9 (rank matched [PNBRQKpnbrqk1-8]{1,8}) into a u32")
add(C+"fen::Fen::validate_rank", "assert", "overflow:Sub", 0, "rank matched {1,8}, so rank.len() >= 1")
add(C+"fen::Fen::validate_rank", "call", VIDX, [0, 1],
    "rank is ASCII by the character class, so chars.len() == rank.len(); i ranges over 0..len-1, so i and i+1 are <= len-1", requires="fen_ranks_validated_after_grammar")
add(C+"fen::Fen::validate_rank", "assert", "overflow:Add", 0, "i < rank.len() - 1 <= 7")
add(C+"fen::_construct_fen_regex", "call", UNWRAP_R, 0, "constant pattern; a malformed pattern would fail every FEN test of the baseline (lazy_static initialiser, runs once)")
add(C+"fen::_construct_fen_startpos", "call", UNWRAP_R, 0, "constant start-position string accepted by the grammar (baseline test fen_ok_1)")
for g in ("get_active_color", "get_castling_availability", "get_en_passant_target_square", "get_piece_placement",
          "get_fullmove_clock::{closure#0}", "get_halfmove_clock::{closure#0}"):
    add(C+"fen::Fen::"+g, "call", SIDX, 0,
        "the stored range is Match::range() of a capture group of the regex match on the same string (Fen's fields are private and only built in from_str)")
# ---- uci parser
add(U+"parser::CommandParser::next", "call", "core::cell::RefCell::borrow_mut", 0,
    "the RefMut is a statement-scoped temporary; no borrow of `queue` is live across any call (single-threaded parser)")
add(U+"parser::CommandParser::peek", "call", "core::cell::RefCell::borrow", 0, "same: statement-scoped temporary borrow")
# ---- board: FEN reader
PS = B+"<Fen as FenParseExt>::parse_player_states::{closure#0}"
add(PS, "call", UNWRAP_O, 0, "to_digit(10) under `if c.is_ascii_digit()`")
add(PS, "assert", "overflow:Add", [0, 1], "file_index is bounded by 8: every rank sums to exactly 8 (validate_rank) ")
add(PS, "call", PANIC, 0, "default arm of the piece-letter match: the grammar restricts placement characters to PNBRQKpnbrqk and digits, digits are handled before")
add(B+"<Fen as FenParseExt>::parse_turn", "call", PANIC, 0, "group 2 of FEN_REGEX is [bw]")
add(B+"<Fen as FenParseExt>::parse_fullmove_clock", "call", UNWRAP_R, 0,
    "Fen::from_str rejects clock fields that do not parse as u32, and the default for a 4-field FEN is the literal \"1\"", requires="fen_clock_guard")
add(B+"<Fen as FenParseExt>::parse_halfmove_clock", "call", UNWRAP_R, 0,
    "Fen::from_str rejects clock fields that do not parse as u32, and the default for a 4-field FEN is the literal \"0\"", requires="fen_clock_guard")
SQ = B+"constants::square_shift_from_fen_unchecked"
add(SQ, "call", "core::panicking::assert_failed", 0, "group 4 is [a-h][1-8] (two ASCII bytes); the '-' case is tested by the caller before the call")
add(SQ, "call", UNWRAP_O, [0, 1], "two characters are present (see assert_eq above)")
add(SQ, "assert", "overflow:Sub", 0, "first character is in a..h, so (c as u8) - b'a' is 0..7")
add(SQ, "assert", "overflow:Sub", 1, "second character is in 1..8, so 8 - digit is 0..7")
add(SQ+"::{closure#0}", "call", "core::panicking::panic_fmt", 0, "second character is a digit 1..8, to_digit(10) is Some")
add(B+"constants::square_mask_from_index", "assert", "overflow:Shl", 0,
    "shift = file + 8*rank with file <= 7 when a piece is placed (rank sums to 8) and rank <= 7 (eight ranks): <= 63")
# ---- board: FEN writer
W = B+"<Fen as From<&Bitboard>>::from"
add(W, "call", UNWRAP_O, 0, "Square::from_indices(file, rank) with both loop variables in 0..8")
add(W, "call", UNWRAP_O, [1, 2], "char::from_digit(n, 10) with 1 <= n <= 8 (at most eight empty squares per rank)")
add(W, "assert", "overflow:Add", 0, "consecutive_empty <= 8")
add(W, "call", UNWRAP_R, 0,
    "the produced string is in the grammar: ranks sum to 8 without adjacent digits, castling letters in KQkq order, e.p. from Square names, clocks are u32 rendered in decimal")
add(B+"Bitboard::get_colored_piece", "call", PANIC, 0,
    "a square occupied by both colours: placement sets one bit per character and make/unmake move bits between sets of one colour and clear captures; not reachable from a parsed FEN")
CP = C+"constants::colored_piece::ColoredPiece::"
add(CP+"from_indices_unchecked", "assert", "bounds", 0, "callers are Piece::to_white/to_black with color index 0/1 and piece index 1..6: idx <= 1 + 5*2 = 11 < 12")
add(CP+"idx", "assert", "overflow:Sub", 0, "piece index is 1..6 (Piece constants; NO_PIECE is filtered by find_piece_struct_by_square_mask returning None)")
add(CP+"idx", "assert", "overflow:Mul", 0, "operand <= 5")
add(CP+"idx", "assert", "overflow:Add", 0, "operands <= 1 and <= 10")
# ---- search thread (non-arithmetic)
for fn in ("make", "unmake", "zobrist_xor"):
    add(B+"Bitboard::"+fn, "call", PANIC, 0,
        "default arm of the castle-target match: the castle flag is set only by Bitboard::castle_moves, which emits exactly the targets C1, G1, C8, G8 (C01.R1 checks those constants)")
add(B+"Bitboard::mvv_lva", "assert", "bounds", [0, 1],
    "PieceBits arguments are the piece constants 1..6 passed by the generator (piece_active) or the victim found on the board (0..6): < 7")
add(B+"PlayerState::occupancy_ref", "assert", "bounds", 0, "piece kinds stored in a Move are the generator's constants 1..6; NO_PIECE (0) indexes the unused slot 0: < 7")
Z = B+"zobrist::Zobrist::"
add(Z+"castle_hash", "assert", "bounds", 0, "color is WHITE (0) or BLACK (1) at every call site (constants or Bitboard.turn)")
add(Z+"castle_hash", "assert", "bounds", 1, "side is the constant QUEEN or KING at every call site: side - QUEEN is 0 or 1")
add(Z+"piece_square_hash", "assert", "bounds", 0, "piece <= 6 (3-bit kinds 0..6 as above; 7 never stored) and color <= 1: index <= 13")
add(Z+"piece_square_hash", "assert", "bounds", 1, "square shifts are 6-bit move fields or trailing_zeros of a non-empty set: <= 63")
add(C+"constants::piece::Piece::from_index_unchecked", "assert", "bounds", 0, "called from MoveStructs::from with the moved-piece field of a generated move: 1..6")
add(C+"constants::square::Square::from_index_unchecked", "assert", "bounds", 0, "called with 6-bit square fields of a Move or with to_square_index of checked indices: <= 63")
H = E+"heuristic::simple::SimpleHeuristic::"
add(H+"piece_square_sum", "assert", "bounds", 0, "shift is trailing_zeros of `occupancy` inside `while occupancy != 0`: <= 63")
add(H+"piece_square_value", "assert", "bounds", [0, 1], "game_stage returns one of the constants EARLY/MID/LATE = 0/1/2 (C11.R2 enumerates its returns)")
S = E+"search::Search::"
add(S+"best_move::{closure#1}", "call", "core::time::<Duration as Mul<u32>>::mul", 0,
    "doubling a budget derived from u64 milliseconds (<= 1.9e16 s) stays far below Duration::MAX (1.8e19 s)")
add(S+"calculate_max_thinking_time", "call", "core::time::Duration::mul_f64", 0, "factor is one of the positive finite constants 1.0/0.75/0.5/0.25")
add(S+"search_negamax", "call", UNWRAP_O, 0,
    "principal_variation.unwrap() under `is_pv`, which is `principal_variation.is_some()` at the root and only ever and-ed further down; nothing clears the PV during a search")
add(S+"try_set_pv_from_continuation", "call", "alloc::vec::Vec::drain", 0, "drain(0..2) under `last_pv.len() > 2`")
add(E+"table::HashTable::put", "call", UNWRAP_O, 0,
    "pop_front().unwrap() under `entry_map.len() > capacity`: list and map hold the same keys (C18.R2), so the list is non-empty")
add(E+"table::killer::KillerTable::age", "call", "alloc::vec::Vec::drain", 0, "range end is min(plys, len)")
add(E+"table::killer::KillerTable::put", "call", "alloc::vec::<Vec<T,A> as IndexMut<I>>::index_mut", 0, "index `depth` right after resize(depth + 1, ..)")
ZHm = E+"zobrist_history::ZobristHistory::"
add(ZHm+"set", "call", "alloc::vec::<Vec<T,A> as IndexMut<I>>::index_mut", 0,
    "index is a u16 and the history vector has 65,536 entries (guard: every constructor allocates >= 65,536 and nothing shrinks it)", requires="zobrist_history_covers_u16")
add(ZHm+"count_repetitions", "call", VIDX, 0, "index is start_index: u16, vector has 65,536 entries", requires="zobrist_history_covers_u16")
add(ZHm+"count_repetitions", "call", VIDX, 1,
    "index is current_index inside `while current_index >= min_index` with min_index = max(0, ..) and current_index <= start_index - 4 < 65,536", requires="zobrist_history_covers_u16")
add(U+"command::CommandUciTx::send", "call", UNWRAP_R, 0, "Mutex::lock fails only when another holder panicked; the lock is held for one send")
add(U+"command::CommandUciTx::send", "call", UNWRAP_R, 1, "Sender::send fails only when the receiving side (the embedding application) is gone")
add(U+"console::ConsoleUciTx::tx_debug", "call", UNWRAP_R, 0, "Mutex::lock fails only when another holder panicked; held for one read")

json.dump(dict(sorted(T.items())), open(os.path.join(os.path.dirname(os.path.dirname(os.path.abspath(__file__))), "tables", "panic_sites.json"), "w"), indent=1)
print(len(T), "reviewed sites")
