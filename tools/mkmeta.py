#!/usr/bin/env python3
"""writes seeded/<id>/meta.json:  mkmeta.py id property missed(0/1) 'summary' 'needs' 'detected_by' [checks...]"""
import json, sys, os
id_, prop, missed, summary, needs, det = sys.argv[1:7]
checks = sys.argv[7:] or [prop]
d = os.path.join(os.path.dirname(os.path.dirname(os.path.abspath(__file__))), "seeded", id_)
meta = {"property": prop, "round": int(os.environ.get("ROUND", "2")), "summary": summary, "needs": needs, "detected_by": det, "initially_missed": bool(int(missed)),
        "verified": "agent report (build ok, 56/56 existing tests, demo fails with / passes without); patch applied to /repo and checks run by me (tools/try_seeded.sh); own scratch-worktree confirmation via tools/verify_seeded_r2.sh (demo passes on HEAD, fails with the patch, existing suite 56/56 with the patch)",
        "commands": ["tools/try_seeded.sh /verif/seeded/%s/patch.diff %s" % (id_, " ".join(checks)),
                     "tools/verify_seeded_r2.sh %s:<crate>:<demo path as in README>" % id_]}
json.dump(meta, open(os.path.join(d, "meta.json"), "w"), indent=1)
print("wrote", id_)
