#!/bin/bash
# development aid: every non-C19 check against .work/dev (facts of HEAD), summary lines only
cd /verif
for c in C01 C02 C03 C04 C05 C06 C07 C08 C09 C10 C11 C12 C13 C14 C15 C16 C18; do
  ( VERIF_EVIDENCE_DIR=/verif/.work/dev-ev ./check $c --facts ${1:-.work/dev} 2>&1 | grep -E "^  C|^C[0-9]+ quick|UNDECIDED|Traceback|Error" | cut -c1-300 ) &
done; wait
