#!/usr/bin/env python3
"""development aid: extracts the facts of /repo + benign_patches/<id> (or seeded/<id>) into .work/bpf/<id>"""
import os, shutil, subprocess, sys, tempfile
from concurrent.futures import ThreadPoolExecutor
VERIF = os.path.dirname(os.path.dirname(os.path.abspath(__file__)))
def one(bid):
    root = "benign_patches" if bid.startswith(("b-", "c-", "d-", "e-", "f-", "g-", "h-", "x-")) else "seeded"
    d = tempfile.mkdtemp(prefix="inkalint-bpf.", dir="/tmp")
    out = os.path.join(VERIF, ".work", "bpf", bid)
    shutil.rmtree(out, ignore_errors=True)
    try:
        subprocess.check_call(["rsync", "-a", "--exclude", "target", "--exclude", ".git", "/repo/", d + "/repo/"])
        subprocess.check_call(["patch", "-p1", "-s", "-d", d + "/repo", "-i", os.path.join(VERIF, root, bid, "patch.diff")])
        env = dict(os.environ, VERIF_REPO=d + "/repo", VERIF_EVIDENCE_DIR=d + "/ev")
        r = subprocess.run([os.path.join(VERIF, "check"), "C03", "--dump-facts", out], env=env, cwd=VERIF, stdout=subprocess.PIPE, stderr=subprocess.STDOUT, text=True)
        return bid, os.path.isdir(out)
    finally:
        shutil.rmtree(d, ignore_errors=True)
with ThreadPoolExecutor(max_workers=5) as ex:
    for r in ex.map(one, sys.argv[1:]):
        print(*r)
