//! Mechanical, behaviour-preserving source rewrites used to test the checks for false alarms.
//! usage: refactor <file.rs> <fn name | *> <transform>   -> rewritten file on stdout, number of rewrites on stderr
//! transforms: flip-if, swap-cmp, nest-and, temp-cond, compound-assign, while-to-loop, or-split, demorgan, cond-closure, if-to-match
use proc_macro2::Span;
use quote::ToTokens;
use std::cell::Cell;
use syn::spanned::Spanned;
use syn::visit_mut::{self, VisitMut};
use syn::{parse_quote, BinOp, Expr, ImplItemFn, ItemFn};

struct Rewriter {
    transform: String,
    count: Cell<usize>,
}

fn is_let_cond(e: &Expr) -> bool {
    match e {
        Expr::Let(_) => true,
        Expr::Binary(b) => is_let_cond(&b.left) || is_let_cond(&b.right),
        Expr::Paren(p) => is_let_cond(&p.expr),
        _ => false,
    }
}

fn simple_place(e: &Expr) -> bool {
    match e {
        Expr::Path(_) => true,
        Expr::Field(f) => simple_place(&f.base),
        Expr::Unary(u) => matches!(u.op, syn::UnOp::Deref(_)) && simple_place(&u.expr),
        Expr::Paren(p) => simple_place(&p.expr),
        _ => false,
    }
}

impl VisitMut for Rewriter {
    fn visit_expr_mut(&mut self, e: &mut Expr) {
        visit_mut::visit_expr_mut(self, e);
        let t = self.transform.as_str();
        match e {
            Expr::If(i) if !is_let_cond(&i.cond) => {
                if t == "flip-if" {
                    if let Some((_, else_branch)) = &i.else_branch {
                        if let Expr::Block(eb) = &**else_branch {
                            let cond = &i.cond;
                            let then_b = &i.then_branch;
                            let else_b = &eb.block;
                            let attrs = &i.attrs;
                            let new: Expr = parse_quote!(#(#attrs)* if !(#cond) #else_b else #then_b);
                            *e = new;
                            self.count.set(self.count.get() + 1);
                        }
                    }
                } else if t == "nest-and" {
                    if i.else_branch.is_none() {
                        if let Expr::Binary(b) = &*i.cond {
                            if matches!(b.op, BinOp::And(_)) {
                                let (l, r) = (&b.left, &b.right);
                                let then_b = &i.then_branch;
                                let new: Expr = parse_quote!(if #l { if #r #then_b });
                                *e = new;
                                self.count.set(self.count.get() + 1);
                            }
                        }
                    }
                } else if t == "or-split" {
                    if i.else_branch.is_none() {
                        if let Expr::Binary(b) = &*i.cond {
                            if matches!(b.op, BinOp::Or(_)) {
                                let (l, r) = (&b.left, &b.right);
                                let then_b = &i.then_branch;
                                let new: Expr = parse_quote!(if #l #then_b else if #r #then_b);
                                *e = new;
                                self.count.set(self.count.get() + 1);
                            }
                        }
                    }
                } else if t == "demorgan" {
                    if let Expr::Binary(b) = &*i.cond {
                        let (l, r) = (&b.left, &b.right);
                        let newc: Option<Expr> = match b.op {
                            BinOp::And(_) => Some(parse_quote!(!(!(#l) || !(#r)))),
                            BinOp::Or(_) => Some(parse_quote!(!(!(#l) && !(#r)))),
                            _ => None,
                        };
                        if let Some(nc) = newc {
                            i.cond = Box::new(nc);
                            self.count.set(self.count.get() + 1);
                        }
                    }
                } else if t == "cond-closure" && !i.cond.to_token_stream().to_string().contains('?') && !i.cond.to_token_stream().to_string().contains("return") {
                    let cond = &i.cond;
                    let then_b = &i.then_branch;
                    let new: Expr = match &i.else_branch {
                        Some((_, eb)) => parse_quote!({ let cond_holds = || -> bool { #cond }; if cond_holds() #then_b else #eb }),
                        None => parse_quote!({ let cond_holds = || -> bool { #cond }; if cond_holds() #then_b }),
                    };
                    *e = new;
                    self.count.set(self.count.get() + 1);
                } else if t == "if-to-match" {
                    if let Some((_, else_branch)) = &i.else_branch {
                        if let Expr::Block(eb) = &**else_branch {
                            let cond = &i.cond;
                            let then_b = &i.then_branch;
                            let else_b = &eb.block;
                            let new: Expr = parse_quote!(match #cond { true => #then_b, false => #else_b });
                            *e = new;
                            self.count.set(self.count.get() + 1);
                        }
                    }
                } else if t == "temp-cond" {
                    let cond = &i.cond;
                    let then_b = &i.then_branch;
                    let new: Expr = match &i.else_branch {
                        Some((_, eb)) => parse_quote!({ let cond_holds: bool = #cond; if cond_holds #then_b else #eb }),
                        None => parse_quote!({ let cond_holds: bool = #cond; if cond_holds #then_b }),
                    };
                    *e = new;
                    self.count.set(self.count.get() + 1);
                }
            }
            Expr::Binary(b) if t == "swap-cmp" => {
                let (l, r) = (&b.left, &b.right);
                let new: Option<Expr> = match b.op {
                    BinOp::Eq(_) => Some(parse_quote!(#r == #l)),
                    BinOp::Ne(_) => Some(parse_quote!(#r != #l)),
                    BinOp::Lt(_) => Some(parse_quote!(#r > #l)),
                    BinOp::Gt(_) => Some(parse_quote!(#r < #l)),
                    BinOp::Le(_) => Some(parse_quote!(#r >= #l)),
                    BinOp::Ge(_) => Some(parse_quote!(#r <= #l)),
                    _ => None,
                };
                if let Some(n) = new {
                    *e = n;
                    self.count.set(self.count.get() + 1);
                }
            }
            Expr::Binary(b) if t == "compound-assign" => {
                if simple_place(&b.left) {
                    let (l, r) = (&b.left, &b.right);
                    let new: Option<Expr> = match b.op {
                        BinOp::AddAssign(_) => Some(parse_quote!(#l = #l + (#r))),
                        BinOp::SubAssign(_) => Some(parse_quote!(#l = #l - (#r))),
                        BinOp::BitAndAssign(_) => Some(parse_quote!(#l = #l & (#r))),
                        BinOp::BitOrAssign(_) => Some(parse_quote!(#l = #l | (#r))),
                        BinOp::BitXorAssign(_) => Some(parse_quote!(#l = #l ^ (#r))),
                        _ => None,
                    };
                    if let Some(n) = new {
                        *e = n;
                        self.count.set(self.count.get() + 1);
                    }
                }
            }
            Expr::While(w) if t == "while-to-loop" && !is_let_cond(&w.cond) && w.label.is_none() => {
                let cond = &w.cond;
                let stmts = &w.body.stmts;
                let new: Expr = parse_quote!(loop { if !(#cond) { break; } #(#stmts)* });
                *e = new;
                self.count.set(self.count.get() + 1);
            }
            _ => {}
        }
    }
}

struct Finder<'a> {
    name: &'a str,
    rw: &'a mut Rewriter,
    edits: Vec<(Span, String)>,
}

impl<'a> VisitMut for Finder<'a> {
    fn visit_item_fn_mut(&mut self, f: &mut ItemFn) {
        if f.sig.constness.is_some() && self.rw.transform == "cond-closure" {
            return;
        }
        if self.name == "*" || f.sig.ident == self.name {
            let span = f.span();
            let before = self.rw.count.get();
            self.rw.visit_block_mut(&mut f.block);
            if self.rw.count.get() > before {
                self.edits.push((span, f.to_token_stream().to_string()));
            }
        } else {
            visit_mut::visit_item_fn_mut(self, f);
        }
    }
    fn visit_impl_item_fn_mut(&mut self, f: &mut ImplItemFn) {
        if f.sig.constness.is_some() && self.rw.transform == "cond-closure" {
            return;
        }
        if self.name == "*" || f.sig.ident == self.name {
            let span = f.span();
            let before = self.rw.count.get();
            self.rw.visit_block_mut(&mut f.block);
            if self.rw.count.get() > before {
                self.edits.push((span, f.to_token_stream().to_string()));
            }
        } else {
            visit_mut::visit_impl_item_fn_mut(self, f);
        }
    }
    fn visit_item_mod_mut(&mut self, m: &mut syn::ItemMod) {
        // leave test modules alone
        if m.attrs.iter().any(|a| a.to_token_stream().to_string().contains("cfg (test)")) {
            return;
        }
        visit_mut::visit_item_mod_mut(self, m);
    }
}

fn offset(src: &str, line: usize, col: usize) -> usize {
    // line is 1-based, col is 0-based in characters
    let mut off = 0;
    for (i, l) in src.split_inclusive('\n').enumerate() {
        if i + 1 == line {
            return off + l.chars().take(col).map(|c| c.len_utf8()).sum::<usize>();
        }
        off += l.len();
    }
    src.len()
}

fn main() {
    let args: Vec<String> = std::env::args().collect();
    if args.len() != 4 {
        eprintln!("usage: refactor <file.rs> <fn name | *> <transform>");
        std::process::exit(2);
    }
    let src = std::fs::read_to_string(&args[1]).expect("read");
    let mut file = syn::parse_file(&src).expect("parse");
    let mut rw = Rewriter { transform: args[3].clone(), count: Cell::new(0) };
    let mut finder = Finder { name: &args[2], rw: &mut rw, edits: Vec::new() };
    finder.visit_file_mut(&mut file);
    let mut edits: Vec<(usize, usize, String)> = finder
        .edits
        .iter()
        .map(|(sp, s)| {
            let (a, b) = (sp.start(), sp.end());
            (offset(&src, a.line, a.column), offset(&src, b.line, b.column), s.clone())
        })
        .collect();
    edits.sort_by(|x, y| y.0.cmp(&x.0));
    let mut out = src.clone();
    for (a, b, s) in edits {
        out.replace_range(a..b, &s);
    }
    eprintln!("{}", rw.count.get());
    print!("{}", out);
}
