#!/usr/bin/env python3
"""prints the current search control inventory keys (C08.R4) from a fact directory: list_search_exits.py .work/dev"""
import sys, os
sys.path.insert(0, os.path.dirname(os.path.dirname(os.path.abspath(__file__))))
from inkalint.facts import load_dir
from inkalint.rules import c08
prog = load_dir(sys.argv[1])
for name in ("search_negamax", "search_quiescence"):
    f = [v for k, v in prog.fns.items() if k.endswith("Search::" + name)][0]
    voc = {}
    for kind, key, line, governing in c08.search_control_inventory(f, name):
        print(line, key)
        voc.setdefault(key.split("|if ")[0], set()).update(governing)
    for k, v in sorted(voc.items()):
        print("  vocabulary", k, sorted(a for a in v if not (a in ("cmp", "discr", "local") or a.startswith("op:") or a.startswith("const:"))))
