#!/usr/bin/env python3
"""copies SEEDED/A|B of a round-5 agent worktree into seeded/s5-<pid>-a|b and guesses the demonstration's placement
from the README (placement.json; check it by hand). usage: collect_seed5.py C01 ..."""
import json, os, re, shutil, sys, glob
VERIF = os.path.dirname(os.path.dirname(os.path.abspath(__file__)))
for pid in sys.argv[1:]:
    for L in "AB":
        src = "/tmp/wt7-%s/SEEDED/%s" % (pid, L)
        dst = os.path.join(VERIF, "seeded", "s7-%s-%s" % (pid, L.lower()))
        if not os.path.isdir(src):
            print("missing", src); continue
        os.makedirs(dst, exist_ok=True)
        for f in os.listdir(src):
            if os.path.isfile(os.path.join(src, f)) and os.path.getsize(os.path.join(src, f)) < 6000000:
                shutil.copy(os.path.join(src, f), dst)
        readme = open(os.path.join(dst, "README.md")).read() if os.path.exists(os.path.join(dst, "README.md")) else ""
        demo = [f for f in os.listdir(dst) if f.endswith(".rs")]
        pl = {}
        m = re.search(r"([A-Za-z0-9_/]+/tests/seeded_demo\w*\.rs)", readme)
        if m:
            pl["dest"] = m.group(1).replace("/tmp/wt7-%s/" % pid, "").lstrip("/")
        else:
            m = re.search(r"([A-Za-z0-9_/]+/src/[A-Za-z0-9_/]*seeded_demo\w*\.rs)", readme)
            if m:
                pl["dest"] = m.group(1).replace("/tmp/wt7-%s/" % pid, "").lstrip("/")
        m = re.search(r"-p\s+(inkayaku_\w+)", readme)
        if m:
            pl["crate"] = m.group(1)
        if "dest" in pl:
            for top in sorted(x for x in os.listdir("/repo") if os.path.isdir(os.path.join("/repo", x)) and not x.startswith(".")):
                i = pl["dest"].find(top + "/")
                if i >= 0 and (i == 0 or pl["dest"][i - 1] == "/"):
                    pl["dest"] = pl["dest"][i:]
                    break
            if "/src/" in pl["dest"]:
                m = re.search(r"(?:end of|to|in) `([A-Za-z0-9_/]+\.rs)`", readme)
                pl["modfile"] = m.group(1) if m else "?"
                pl["anchor"] = ""
                pl["modname"] = os.path.basename(pl["dest"])[:-3]
        json.dump(pl, open(os.path.join(dst, "placement.json"), "w"), indent=1)
        mp = os.path.join(dst, "meta.json")
        if not os.path.exists(mp):
            json.dump({"property": pid, "round": 7, "summary": "", "detected_by": "", "initially_missed": None, "verified": ""}, open(mp, "w"), indent=1)
        print(dst, pl, demo)
