#!/bin/bash
# own confirmation of round-5 seeded changes in scratch worktrees. args: seed ids (s5-C01-a ...). The demonstration's
# placement (destination path, crate, optional `mod` line) is read from seeded/<id>/placement.json:
#   {"crate": "...", "dest": "path/in/worktree.rs", "modfile": "...", "anchor": "line after which to add", "modname": "..."}
# prints for each: demo on HEAD, demo with the change, existing suite with the change
S=/verif/seeded
for ID in "$@"; do
  export CARGO_TARGET_DIR=/tmp/vs5-target-$ID
  WT=/tmp/vs5-$ID
  git -C /repo worktree add -q --detach $WT HEAD || continue
  cd $WT
  eval $(python3 - $S/$ID/placement.json <<'PY'
import json, sys, shlex
d = json.load(open(sys.argv[1]))
for k in ("crate", "dest", "modfile", "anchor", "modname"):
    print("%s=%s" % (k.upper(), shlex.quote(d.get(k, ""))))
PY
)
  demo=$S/$ID/$(basename $DEST); [ -f "$demo" ] || demo=$(ls $S/$ID/*.rs | head -1)
  mkdir -p $(dirname $DEST); cp $demo $DEST
  if [ -n "$MODFILE" ]; then
    python3 - "$MODFILE" "$ANCHOR" "$MODNAME" <<'PY'
import sys
f, anchor, name = sys.argv[1:4]
s = open(f).read()
if anchor:
    assert s.count(anchor + "\n") >= 1, "anchor not found"
    s = s.replace(anchor + "\n", anchor + "\n#[cfg(test)]\nmod " + name + ";\n", 1)
else:
    s = s + "\n#[cfg(test)]\nmod " + name + ";\n"
open(f, "w").write(s)
PY
  fi
  run_demo() {
    out=$(timeout 1500 cargo nextest run -p $CRATE --offline --no-fail-fast -E "test(seeded_demo)" 2>&1)
    echo "$out" | grep -E "Summary|error(\[|:)" | head -3
  }
  echo "== $ID: demo on the unmodified tree: $(run_demo)"
  git apply $S/$ID/patch.diff || echo "== $ID: PATCH DOES NOT APPLY"
  echo "== $ID: demo with the change: $(run_demo)"
  echo "== $ID: existing suite with the change: $(timeout 1500 cargo nextest run --workspace --no-fail-fast --offline -E 'not (test(run_all) | test(test_threefold_) | test(seeded_demo))' 2>&1 | grep -E "Summary|FAIL" | head -5)"
  cd /; git -C /repo worktree remove --force $WT; rm -rf $CARGO_TARGET_DIR
done
