#!/usr/bin/env python3
"""summarises tools/verify_seeded_r2.sh logs: per seed (demo on clean tree, demo with change, suite with change)"""
import sys, re
for path in sys.argv[1:]:
    cur = None
    res = {}
    for l in open(path):
        m = re.match(r"== (\S+): (demo on the unmodified tree|demo with the change|existing suite with the change)", l)
        if m:
            cur = (m.group(1), m.group(2))
            res.setdefault(m.group(1), {})
            continue
        if cur and "Summary" in l:
            res[cur[0]][cur[1]] = l.split("]", 1)[-1].strip()
        if "PATCH DOES NOT APPLY" in l or "anchor not found" in l:
            res.setdefault(cur[0] if cur else "?", {})["problem"] = l.strip()
    for sid, r in res.items():
        clean, chg, suite = r.get("demo on the unmodified tree", "-"), r.get("demo with the change", "-"), r.get("existing suite with the change", "-")
        ok = ("failed" not in clean and re.search(r"[1-9]\d* passed", clean)) and ("failed" in chg) and ("56 passed" in suite and "failed" not in suite) and "problem" not in r
        print("%-4s %-12s clean[%s] change[%s] suite[%s] %s" % ("OK" if ok else "BAD", sid, clean, chg, suite, r.get("problem", "")))
