#!/usr/bin/env python3
"""False-alarm test: applies each behaviour-preserving edit of benign/INDEX.json to a scratch copy of /repo and runs
ALL registered checks against it; every check must exit 0."""
import json, os, shutil, subprocess, sys, tempfile
from concurrent.futures import ThreadPoolExecutor
VERIF = os.path.dirname(os.path.dirname(os.path.abspath(__file__)))


def run_one(b, pids):
    d = tempfile.mkdtemp(prefix="inkalint-ben.%s." % b["id"], dir="/tmp")
    try:
        subprocess.check_call(["rsync", "-a", "--exclude", "target", "--exclude", ".git", "/repo/", d + "/repo/"])
        for e in b["edits"]:
            p = os.path.join(d, "repo", e["file"])
            s = open(p).read()
            if s.count(e["old"]) != 1:
                return b, ["BROKEN: edit does not apply to %s (%d occurrences)" % (e["file"], s.count(e["old"]))]
            open(p, "w").write(s.replace(e["old"], e["new"]))
        out = []
        env = dict(os.environ, VERIF_REPO=d + "/repo", VERIF_EVIDENCE_DIR=d + "/ev")
        facts = d + "/facts"
        first = True
        if b.get("props"):
            for pid in b["props"]:
                r = subprocess.run([os.path.join(VERIF, "check"), pid, "--tier", "quick"], env=env, stdout=subprocess.PIPE, stderr=subprocess.STDOUT, text=True, cwd=VERIF)
                if r.returncode != 0:
                    keys = [l.strip()[:260] for l in r.stdout.splitlines() if l.startswith("  " + pid) or "facts unavailable" in l or "Traceback" in l]
                    out.append("%s: %s" % (pid, keys[:3]))
            return b, out
        for pid in pids:
            # one extraction per edit (the first check dumps the facts, the others reuse them: all engine scope)
            extra = ["--dump-facts", facts] if first else ["--facts", facts]
            r = subprocess.run([os.path.join(VERIF, "check"), pid, "--tier", "quick"] + extra, env=env, stdout=subprocess.PIPE, stderr=subprocess.STDOUT, text=True, cwd=VERIF)
            first = False
            if r.returncode != 0:
                keys = [l.strip()[:260] for l in r.stdout.splitlines() if l.startswith("  " + pid) or "facts unavailable" in l or "Traceback" in l]
                out.append("%s: %s" % (pid, keys[:3]))
        return b, out
    finally:
        shutil.rmtree(d, ignore_errors=True)


def main():
    bs = json.load(open(os.path.join(VERIF, "benign", "INDEX.json")))["benign"]
    if len(sys.argv) > 1:
        bs = [b for b in bs if b["id"] in sys.argv[1:]]
    pids = [c["property_id"] for c in json.load(open(os.path.join(VERIF, "MANIFEST.json")))["checks"] if c["property_id"] != "C19"]
    bad = 0
    with ThreadPoolExecutor(max_workers=6) as ex:
        for b, out in ex.map(lambda b: run_one(b, pids), bs):
            print("%-8s %-38s %s" % ("SILENT" if not out else "ALARM", b["id"], "; ".join(out)[:600]))
            bad += 1 if out else 0
    print("%d benign edits, %d raised an alarm" % (len(bs), bad))
    return 1 if bad else 0


if __name__ == "__main__":
    sys.exit(main())
