#!/bin/bash
# usage: tools/verify_seeded.sh <seeded dir> <demo source file in dir> <destination path in repo> <package> <test name>
# Confirms in a scratch worktree: demo passes on the unmodified tree, fails with the patch; the existing suite
# (run_all and the three always-failing threefold tests excluded) still passes with the patch.
set -u
D=$1; DEMO=$2; DEST=$3; PKG=$4; TEST=$5
ID=$(basename $D)
WT=/tmp/vs-$ID
export CARGO_TARGET_DIR=/tmp/vs-target
git -C /repo worktree add -q $WT HEAD || exit 2
cd $WT
mkdir -p $(dirname $DEST); cp $D/$DEMO $DEST
echo "== $ID: demo on the unmodified tree"
cargo nextest run -p $PKG --offline --test $TEST --no-fail-fast 2>&1 | grep -E "Summary|error" | head -3
git apply $D/patch.diff || echo "PATCH DOES NOT APPLY"
echo "== $ID: demo with the change"
cargo nextest run -p $PKG --offline --test $TEST --no-fail-fast 2>&1 | grep -E "Summary|error" | head -3
rm -f $DEST
echo "== $ID: existing suite with the change"
cargo nextest run --workspace --no-fail-fast --offline -E 'not (test(run_all) | test(test_threefold_))' 2>&1 | grep -E "Summary|FAIL|error\[" | head -5
cd /; git -C /repo worktree remove --force $WT
