#!/usr/bin/env python3
"""False-alarm test by mechanical rewriting: applies one behaviour-preserving transformation (tools/refactor) to every
function of one source file of a scratch copy of /repo, extracts the facts and runs every check.
usage: auto_refactor.py [-j N] [file:transform ...]   (default: all anchor files x all transforms)"""
import json, os, shutil, subprocess, sys, tempfile
from concurrent.futures import ThreadPoolExecutor
VERIF = os.path.dirname(os.path.dirname(os.path.abspath(__file__)))
TOOL = os.path.join(VERIF, "tools", "refactor", "target", "release", "refactor")
FILES = ["board/src/board.rs", "engine_core/src/engine/search.rs", "engine_core/src/engine/heuristic.rs", "engine_core/src/engine/heuristic/simple.rs",
         "engine_core/src/engine/zobrist_history.rs", "engine_core/src/engine/table.rs", "engine_core/src/engine/table/transposition.rs",
         "engine_core/src/engine/move_order.rs", "uci/src/uci/parser.rs", "uci/src/uci/console.rs", "uci/src/uci.rs", "core/src/fen.rs",
         "core/src/constants/square.rs", "board/src/board/precalculated/magic.rs", "board/src/board/precalculated/nonmagic.rs",
         "lichess_api/src/api/bot_game_state_response.rs", "lichess_api/src/api/bot_event_response.rs", "engine_core/src/engine.rs"]
TRANSFORMS = ["flip-if", "swap-cmp", "nest-and", "temp-cond", "compound-assign", "while-to-loop", "or-split", "demorgan", "cond-closure", "if-to-match"]


def run_one(job):
    path, tr, fn = job
    tag = "%s:%s:%s" % (path, tr, fn)
    d = tempfile.mkdtemp(prefix="inkalint-ar.", dir="/tmp")
    try:
        subprocess.check_call(["rsync", "-a", "--exclude", "target", "--exclude", ".git", "/repo/", d + "/repo/"])
        src = os.path.join(d, "repo", path)
        if not os.path.exists(src):
            return tag, "NOFILE", []
        r = subprocess.run([TOOL, src, fn, tr], stdout=subprocess.PIPE, stderr=subprocess.PIPE, text=True)
        if r.returncode != 0:
            return tag, "TOOLFAIL", [r.stderr[-200:]]
        n = int((r.stderr.strip().splitlines() or ["0"])[-1])
        if n == 0:
            return tag, "NOCHANGE", []
        open(src, "w").write(r.stdout)
        env = dict(os.environ, VERIF_REPO=d + "/repo", VERIF_EVIDENCE_DIR=d + "/ev")
        pids = [c["property_id"] for c in json.load(open(os.path.join(VERIF, "MANIFEST.json")))["checks"]]
        lichess = "lichess" in path
        out, facts, first = [], d + "/facts", True
        und = 0
        for pid in pids:
            if pid == "C19":
                if not lichess:
                    continue
                extra = []
            else:
                if lichess:
                    continue
                extra = ["--dump-facts", facts] if first else ["--facts", facts]
            r = subprocess.run([os.path.join(VERIF, "check"), pid, "--tier", "quick"] + extra, env=env, stdout=subprocess.PIPE, stderr=subprocess.STDOUT, text=True, cwd=VERIF)
            if first and "facts unavailable" in r.stdout:
                return tag, "NOCOMPILE(%d rewrites)" % n, [l for l in r.stdout.splitlines() if "error" in l][:2]
            first = False
            und += r.stdout.count("UNDECIDED:")
            if r.returncode != 0:
                out += [l.strip()[:260] for l in r.stdout.splitlines() if l.startswith("  C")][:4]
        return tag, ("ALARM(%d rewrites, %d undecided)" % (n, und)) if out else ("SILENT(%d rewrites, %d undecided)" % (n, und)), out
    finally:
        shutil.rmtree(d, ignore_errors=True)


def main():
    args = sys.argv[1:]
    j = 4
    if "-j" in args:
        j = int(args[args.index("-j") + 1]); del args[args.index("-j"):args.index("-j") + 2]
    jobs = []
    if args:
        for a in args:
            parts = a.split(":")
            jobs.append((parts[0], parts[1], parts[2] if len(parts) > 2 else "*"))
    else:
        jobs = [(f, t, "*") for f in FILES for t in TRANSFORMS]
    bad = 0
    with ThreadPoolExecutor(max_workers=j) as ex:
        for tag, verdict, out in ex.map(run_one, jobs):
            print("%-28s %s" % (verdict, tag))
            for o in out:
                print("      ", o)
            sys.stdout.flush()
            bad += verdict.startswith("ALARM")
    print("%d variants, %d raised an alarm" % (len(jobs), bad))


if __name__ == "__main__":
    main()
